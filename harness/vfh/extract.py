"""C18 binding: instances and cuts enumerated by TLC (specs/rewrite/ExtractMC.tla) are rebuilt with real
onnx_ir objects; ``ir.convenience.extract`` and ``ir.analysis.analyze_implicit_usage`` are run on them and
compared with the outcome the specification computed (expected node list / initializer set / raise,
captures per nested graph, Herbrand terms of the source values).

Value ids (as in Extract.tla): i in 1..9 = root leaf i, 10+g = formal input of nested graph g,
100+10n+k = output k (1-based) of node n.  Node n has op_type ``Op<n>`` (one operator symbol per node).
A term is a nested list ``[symbol, subterm, ...]``.
"""

from __future__ import annotations

import json
import multiprocessing as mp
import os

import numpy as np
import onnx_ir as ir
from onnx_ir.analysis import analyze_implicit_usage

GRAPH = ir.AttributeType.GRAPH
GRAPHS = ir.AttributeType.GRAPHS

TARGETS = ("graph", "function", "view")
BYS = ("obj", "name")
VARIANTS = [(t, b) for t in TARGETS for b in BYS]


def prod(v: int) -> int:
    return (v - 100) // 10 if v > 100 else 0


def vname(v: int) -> str:
    return f"v{v}"


class Src:
    """One instance built with real objects."""

    __slots__ = ("I", "mode", "vals", "nodes", "graphs", "root", "function", "view", "obj_ids", "val_id", "part_ids",
                 "root_vals", "uses0", "order0", "init_ids")

    def __init__(self, I: dict, mode: str = "graph"):
        self.I, self.mode = I, mode
        gof, owner, nout, ins, leaf = I["g"], I["o"], I["n"], I["i"], I["l"]
        n_nodes, n_graphs = len(gof), len(owner)
        self.vals: dict = {}
        self.nodes: dict = {}
        self.graphs: dict = {}
        for i, kind in enumerate(leaf, start=1):
            cv = None
            if kind in ("init", "both"):
                cv = ir.tensor(np.array([float(i)], dtype=np.float32), name=vname(i))
            self.vals[i] = ir.Value(name=vname(i), const_value=cv)
        self.init_ids = [i for i, kind in enumerate(leaf, start=1) if kind in ("init", "both")]
        nodes_of = {g: [n for n in range(1, n_nodes + 1) if gof[n - 1] == g] for g in range(1, n_graphs + 1)}
        subs_of = {n: [g for g in range(2, n_graphs + 1) if owner[g - 1] == n] for n in range(1, n_nodes + 1)}

        def build_nodes(g: int) -> list:
            out = []
            for n in nodes_of[g]:
                attrs = []
                bodies = [build_body(s) for s in subs_of[n]]
                if bodies:
                    if mode == "graphs":
                        attrs.append(ir.Attr("bodies", GRAPHS, bodies))
                    else:
                        attrs.extend(ir.Attr(f"body{s}", GRAPH, b) for s, b in zip(subs_of[n], bodies))
                node = ir.Node("", f"Op{n}", [self.vals[v] if v else None for v in ins[n - 1]], attrs,
                               num_outputs=nout[n - 1], name=f"n{n}")
                for k, o in enumerate(node.outputs, start=1):
                    o.name = vname(100 + 10 * n + k)
                    self.vals[100 + 10 * n + k] = o
                self.nodes[n] = node
                out.append(node)
            return out

        def body_outs(g: int) -> list:
            ns = nodes_of[g]
            if not ns:
                return [self.vals[10 + g]]
            return list(self.nodes[ns[-1]].outputs)

        def build_body(g: int):
            self.vals[10 + g] = ir.Value(name=vname(10 + g))
            nodes = build_nodes(g)
            gr = ir.Graph([self.vals[10 + g]], body_outs(g), nodes=nodes, name=f"g{g}")
            self.graphs[g] = gr
            return gr

        root_nodes = build_nodes(1)
        g_in = [self.vals[i] for i, kind in enumerate(leaf, start=1) if kind in ("in", "both")]
        g_init = [self.vals[i] for i in self.init_ids]
        g_out = list(root_nodes[-1].outputs) if root_nodes else []
        self.root = ir.Graph(g_in, g_out, nodes=root_nodes, initializers=g_init, name="g1", opset_imports={"": 20})
        self.graphs[1] = self.root
        self.function = ir.Function("c18", "F", graph=self.root, attributes=[])
        self.view = ir.GraphView(self.root.inputs, self.root.outputs, nodes=list(self.root),
                                 initializers=list(self.root.initializers.values()), name="g1",
                                 opset_imports={"": 20})
        # mutable parts of the values: types (plain, sequence, optional - rotating), shapes, metadata
        for k, v in sorted(self.vals.items()):
            t = ir.TensorType(ir.DataType.FLOAT)
            if k % 3 == 1:
                t = ir.SequenceType(t)
            elif k % 3 == 2:
                t = ir.OptionalType(ir.SequenceType(t))
            v.type = t
            if k % 2:
                v.shape = ir.Shape([3, "N"])
            v.metadata_props["vf.k"] = str(k)
            v.meta["vf.m"] = k
        # device annotations (two configurations per node, in both attachment orders): a sharding spec is a reference
        # to one of the node's values - in an extracted graph it must point into the extracted graph
        holder = ir.Model(ir.Graph([], [], nodes=[], name="cfg_holder"), ir_version=11)
        ca = holder.add_device_configuration("ca", num_devices=2)
        cb = holder.add_device_configuration("cb", num_devices=2)
        for k, node in sorted(self.nodes.items()):
            held = [v for v in list(node.inputs) + list(node.outputs) if v is not None]
            try:
                if k % 2:
                    node.shard(held[0], configuration=ca, axis=0, num_shards=2, device_indices=(0, 1))
                    node.set_pipeline_stage(cb, 1)
                else:
                    node.set_pipeline_stage(cb, 1)
                    node.shard(held[-1], configuration=ca, axis=0, num_shards=2, device_indices=(0, 1))
            except Exception:  # noqa: BLE001 - no annotation on this node
                pass
        self.val_id = {id(v): k for k, v in self.vals.items()}
        self.obj_ids = set(self.val_id) | {id(n) for n in self.nodes.values()} | {id(g) for g in self.graphs.values()}
        self.obj_ids |= {id(self.function), id(self.view)}
        self.part_ids = {}
        for v in self.vals.values():
            for kind, o in value_parts(v):
                self.part_ids[id(o)] = kind
        self.root_vals = sorted(k for k in self.vals if k < 10 or (k > 100 and gof[prod(k) - 1] == 1))
        self.uses0 = self._uses()
        self.order0 = {g: [id(n) for n in gr] for g, gr in self.graphs.items()}

    def _uses(self):
        return {k: sorted((id(u.node), u.idx) for u in v.uses()) for k, v in self.vals.items()}

    def target(self, kind: str):
        return self.root if kind == "graph" else self.function if kind == "function" else self.view

    def unchanged(self) -> bool:
        return self._uses() == self.uses0 and {g: [id(n) for n in gr] for g, gr in self.graphs.items()} == self.order0


# ------------------------------------------------------------------------------------------- terms
def _node_num(node) -> int:
    op = node.op_type
    return int(op[2:]) if op.startswith("Op") and op[2:].isdigit() else -1


def result_terms(res, ins: list, den: dict | None):
    """Herbrand terms of the outputs of an extracted graph, computed through the real objects.

    Leaf variables are identified positionally (i-th graph input = i-th boundary value) and by initializer
    name.  den != None: a boundary variable that has a producer in the source is replaced by the source's
    term (den[str(v)]), i.e. the graph is 'evaluated on the source's values at the boundary inputs'.
    """
    leaf: dict = {}
    for name, v in res.initializers.items():
        leaf[id(v)] = [int(name[1:])] if name[1:].isdigit() else [-2]
    for pos, v in enumerate(res.inputs):
        if pos < len(ins):
            s = ins[pos]
            leaf[id(v)] = den[str(s)] if (den is not None and prod(s)) else [s]
    memo: dict = {}

    def body(gr):
        g = int(gr.name[1:]) if gr.name and gr.name[1:].isdigit() else -1
        for f in gr.inputs:
            leaf.setdefault(id(f), [10 + g])
        return [1000 + g] + [term(o) for o in gr.outputs]

    def term(v):
        if v is None:
            return [0]
        k = id(v)
        t = memo.get(k)
        if t is not None:
            return t
        p = v.producer()
        if p is None:
            t = leaf.get(k, [-1])
        else:
            t = [100 + 10 * _node_num(p) + v.index() + 1]
            t.extend(term(i) for i in p.inputs)
            for a in p.attributes.values():
                if a.type == GRAPH:
                    t.append(body(a.as_graph()))
                elif a.type == GRAPHS:
                    t.extend(body(b) for b in a.as_graphs())
        memo[k] = t
        return t

    return [term(o) for o in res.outputs]


def source_free_terms(src: Src, ins: list, outs: list):
    """XDen(I, ins, o) recomputed on the source objects (used only to CLASSIFY the shadowing divergence)."""
    bset = {id(src.vals[v]): [v] for v in ins}
    memo: dict = {}

    def body(gr):
        g = int(gr.name[1:])
        return [1000 + g] + [term(o) for o in gr.outputs]

    def term(v):
        if v is None:
            return [0]
        k = id(v)
        if k in bset:
            return bset[k]
        t = memo.get(k)
        if t is not None:
            return t
        p = v.producer()
        if p is None:
            t = [src.val_id[k]]
        else:
            t = [src.val_id[k]]
            t.extend(term(i) for i in p.inputs)
            for a in p.attributes.values():
                if a.type == GRAPH:
                    t.append(body(a.as_graph()))
                elif a.type == GRAPHS:
                    t.extend(body(b) for b in a.as_graphs())
        memo[k] = t
        return t

    return [term(src.vals[o]) for o in outs]


def value_parts(v):
    """The mutable objects a value holds (a copy must not share them): type objects down to the innermost element
    type, the shape, the metadata containers.  Tensors may be shared."""
    t = v.type
    while t is not None:
        yield "type", t
        t = getattr(t, "elem_type", None) if isinstance(t, (ir.SequenceType, ir.OptionalType)) else None
    if v.shape is not None:
        yield "shape", v.shape
    yield "metadata", v.metadata_props
    yield "metadata", v.meta


def shared_objects(src: Src, res) -> list:
    """Kinds of objects of the extracted graph that ARE objects of the source (must be empty)."""
    bad = []
    oid = src.obj_ids
    seen = set()

    def walk(gr, top):
        if id(gr) in oid:
            bad.append("graph")
        for v in list(gr.inputs) + list(gr.outputs) + list(gr.initializers.values()):
            if id(v) in oid:
                bad.append("value:graph-interface")
            else:
                bad.extend(f"value-part:{src.part_ids[id(o)]}" for _, o in value_parts(v) if id(o) in src.part_ids)
        for n in gr:
            if id(n) in oid:
                bad.append("node")
            for v in n.inputs:
                if v is not None and id(v) in oid:
                    bad.append("value:node-input")
            for v in n.outputs:
                if id(v) in oid:
                    bad.append("value:node-output")
                else:
                    bad.extend(f"value-part:{src.part_ids[id(o)]}" for _, o in value_parts(v) if id(o) in src.part_ids)
            for dc in n.device_configurations:
                for spec in dc.sharding_specs:
                    if spec.value is not None and id(spec.value) in oid:
                        bad.append("value:sharding-spec")
            for a in n.attributes.values():
                if a.type == GRAPH:
                    subs = [a.as_graph()]
                elif a.type == GRAPHS:
                    subs = list(a.as_graphs())
                else:
                    continue
                for b in subs:
                    if id(b) not in seen:
                        seen.add(id(b))
                        walk(b, False)

    walk(res, True)
    return sorted(set(bad))


# ------------------------------------------------------------------------------------------- one cut
def run_cut(src: Src, ins: list, outs: list, target: str, by: str):
    """Call the real extract. Returns (graph or None, exception or None)."""
    if by == "obj":
        a_in = [src.vals[v] for v in ins]
        a_out = [src.vals[v] for v in outs]
    else:
        a_in = [vname(v) for v in ins]
        a_out = [vname(v) for v in outs]
    try:
        return ir.convenience.extract(src.target(target), a_in, a_out), None
    except Exception as e:  # noqa: BLE001 - any exception is "raises"
        return None, e


def judge(src: Src, ins: list, outs: list, exp: list, den: dict, target: str, res, exc):
    """Compare one outcome with the specification's.  Returns (violations, divergences): lists of
    (class, message).  Violations are breaches of the property; divergences are model/code differences the
    property does not forbid."""
    vio, div = [], []
    exp_raise, exp_nodes, exp_inits = bool(exp[0]), exp[1], exp[2]
    if exc is not None:
        if not exp_raise:
            vio.append(("raises-on-bounded-region", f"{type(exc).__name__}: {str(exc)[:160]}"))
        else:
            root = exc
            while root.__cause__ is not None:
                root = root.__cause__
            if not (isinstance(exc, ValueError) and "not properly bounded" in str(exc)):
                # documented: ValueError from the frontier check; anything else is still "raises"
                front = set(exp[3]) if len(exp) > 3 else set()
                why = "uncovered-output" if front & set(outs) else "uncovered-capture" if front else "?"
                div.append((f"raise-not-from-frontier-check:{type(exc).__name__}<-{type(root).__name__}:{why}",
                            "the frontier check let the region pass, the cloner rejected it"))
        return vio, div
    if exp_raise:
        front = exp[3] if len(exp) > 3 else "?"
        vio.append(("no-raise-on-uncovered-value", f"uncovered {front}; returned nodes {[n.op_type for n in res]}"))
        sh = shared_objects(src, res)
        if sh:
            vio.append(("shares-" + sh[0].split(":")[0], ",".join(sh)))
        return vio, div
    got_nodes = [_node_num(n) for n in res]
    if got_nodes != exp_nodes:
        if sorted(got_nodes) == sorted(exp_nodes):
            vio.append(("nodes-order", f"got {got_nodes} expected {exp_nodes}"))
        elif set(exp_nodes) - set(got_nodes):
            vio.append(("nodes-missing", f"got {got_nodes} expected {exp_nodes}"))
        else:
            vio.append(("nodes-extra", f"got {got_nodes} expected {exp_nodes}"))
    got_inits = sorted(int(k[1:]) for k in res.initializers)
    for k, v in res.initializers.items():
        if v.name != k:
            vio.append(("init-key", f"{k} != {v.name}"))
        elif v.const_value is None:
            vio.append(("init-without-tensor", k))
    missing = set(exp_inits) - set(got_inits)
    if missing:
        vio.append(("init-missing", f"got {got_inits} expected {sorted(exp_inits)}"))
    extra = set(got_inits) - set(exp_inits)
    if extra:
        boundary_inits = {v for v in ins if v in src.init_ids}
        allowed = set() if target == "function" else boundary_inits
        if extra - boundary_inits:
            div.append(("init-extra-unneeded", f"got {got_inits} expected {sorted(exp_inits)}"))
        elif extra != allowed - set(exp_inits):
            div.append(("init-extra-boundary", f"got {got_inits} expected {sorted(exp_inits)} (+boundary)"))
    elif target != "function" and ({v for v in ins if v in src.init_ids} - set(exp_inits)):
        div.append(("init-boundary-not-listed", f"got {got_inits}"))
    if [v.name for v in res.inputs] != [vname(v) for v in ins]:
        vio.append(("interface-inputs", f"{[v.name for v in res.inputs]} vs {ins}"))
    if [v.name for v in res.outputs] != [vname(v) for v in outs]:
        vio.append(("interface-outputs", f"{[v.name for v in res.outputs]} vs {outs}"))
    sh = shared_objects(src, res)
    if sh:
        vio.append(("shares-" + sh[0].split(":")[0], ",".join(sh)))
    weak = result_terms(res, ins, den)
    want = [den[str(o)] for o in outs]
    if weak != want:
        flat = json.dumps(weak)
        cls = "den-dangling" if "[-1]" in flat else "den-differs"
        vio.append((cls, f"terms {flat[:200]} expected {json.dumps(want)[:200]}"))
    else:
        free = result_terms(res, ins, None)
        if free != source_free_terms(src, ins, outs):
            div.append(("boundary-input-shadowed", "a boundary input produced by a needed node is recomputed, not read"))
    return vio, div


def judge_captures(src: Src, caps, target: str):
    """analyze_implicit_usage vs Captures(g) for every nested graph."""
    vio = []
    want = {}
    if isinstance(caps, dict):
        want = {int(g): set(vs) for g, vs in caps.items()}
    elif isinstance(caps, list):            # TLC prints a function over 1..n as an array (never here) or [] when empty
        want = {i + 1: set(vs) for i, vs in enumerate(caps)}
    try:
        got = analyze_implicit_usage(src.target(target))
    except Exception as e:  # noqa: BLE001
        return [("captures-raises", f"{type(e).__name__}: {str(e)[:120]}")]
    gid = {id(g): k for k, g in src.graphs.items()}
    got_n = {}
    for g, vs in got.items():
        got_n[gid.get(id(g), -1)] = {src.val_id.get(id(v), -1) for v in vs}
    if set(got_n) != set(want):
        vio.append(("captures-keys", f"graphs {sorted(got_n)} expected {sorted(want)}"))
    for g in want:
        if g in got_n and got_n[g] != want[g]:
            cls = "captures-missing" if want[g] - got_n[g] else "captures-extra"
            vio.append((cls, f"g{g}: got {sorted(got_n[g])} expected {sorted(want[g])}"))
    return vio


# ------------------------------------------------------------------------------------------- features
def features(rec: dict, ins, outs, exp) -> tuple:
    I_nested = len(rec["o"]) > 1
    owners = set(rec["o"][1:])
    need = exp[1]
    cuts_edge = any(prod(v) for v in ins)
    return (
        "raise" if exp[0] else "ok",
        "body-needed" if any(n in owners for n in need) else ("nested" if I_nested else "flat"),
        "cuts-edge" if cuts_edge else "no-edge-cut",
        "inits" if exp[2] else "no-inits",
        min(len(need), 3),
        "multi-out" if max(rec["n"]) > 1 else "single-out",
    )


def nontrivial(feat: tuple) -> bool:
    return feat[0] == "raise" or feat[1] == "body-needed" or feat[2] == "cuts-edge"


# ------------------------------------------------------------------------------------------- workers
def _variants_for(idx: int, policy: str, seed: int):
    if policy == "all":
        return VARIANTS
    rest = VARIANTS[1:]
    return [VARIANTS[0], rest[(idx + seed) % len(rest)]]


def process_record(rec: dict, policy: str, seed: int, stride: int, out: dict) -> None:
    """Replay every cut of one emitted instance."""
    nested = len(rec["o"]) > 1
    modes = ["graph", "graphs"] if nested else ["graph"]
    srcs = {m: Src(rec, m) for m in modes}
    den = rec["den"]
    label = "nested" if nested else "flat"
    inst_key = dict(g=rec["g"], o=rec["o"], n=rec["n"], i=rec["i"], l=rec["l"])
    # capture analysis (declared for ir.Graph), on every attribute mode
    for m, src in srcs.items():
        for target in ("graph",):
            out["calls"] += 1
            for cls, msg in judge_captures(src, rec["caps"], target):
                sig = f"C18:implicit-usage:{cls}"
                out["findings"].setdefault(sig, dict(kind="captures", instance=inst_key, mode=m, target=target,
                                                     caps=rec["caps"], message=f"{sig} {msg}"))
    if nested:
        out["kinds"].add(("captures", "nonempty" if any(rec["caps"].values()) else "empty",
                          max((len(v) for v in rec["caps"].values()), default=0)))
    for idx, (ins, outs, exp) in enumerate(rec["cuts"]):
        if stride > 1 and (idx + seed) % stride:
            out["skipped"] += 1
            continue
        out["cuts"] += 1
        feat = features(rec, ins, outs, exp)
        if nontrivial(feat):
            out["kinds"].add(feat)
        if len(out["samples"]) < 3 and nontrivial(feat) and feat not in out["sample_feats"]:
            out["sample_feats"].add(feat)
            out["samples"].append(dict(instance=inst_key, ins=ins, outs=outs,
                                       expected=dict(raises=bool(exp[0]), nodes=exp[1], initializers=exp[2])))
        variants = _variants_for(idx, policy, seed)
        for vi, (target, by) in enumerate(variants):
            mode = modes[(idx + vi) % len(modes)] if policy != "all" else None
            for m in ([mode] if mode else modes):
                src = srcs[m]
                res, exc = run_cut(src, ins, outs, target, by)
                out["calls"] += 1
                vio, div = judge(src, ins, outs, exp, den, target, res, exc)
                for cls, msg in vio:
                    sig = f"C18:extract:{cls}:{label}"
                    out["vio_count"][sig] = out["vio_count"].get(sig, 0) + 1
                    out["findings"].setdefault(sig, dict(kind="extract", instance=inst_key, mode=m, target=target, by=by,
                                                         ins=ins, outs=outs, expected=exp, den=den,
                                                         message=f"{sig} extract({target}, by {by}, ins={ins}, outs={outs}): {msg}"))
                for cls, msg in div:
                    out["div"][cls] = out["div"].get(cls, 0) + 1
                    out["div_sample"].setdefault(cls, dict(instance=inst_key, ins=ins, outs=outs, target=target, by=by, note=msg))
    for m, src in srcs.items():
        if not src.unchanged():
            sig = "C18:extract:source-mutated:" + label
            out["findings"].setdefault(sig, dict(kind="source", instance=inst_key, mode=m,
                                                 cuts=[[c[0], c[1]] for c in rec["cuts"]],
                                                 message=f"{sig}: uses()/node lists of the source changed after extracting from it"))


def history_step(prev: dict, rec: dict, seed: int, out: dict) -> None:
    """The same source OBJECTS, extracted from, edited, extracted from again: an instance is built as `prev`, some of its
    cuts are extracted, then its node inputs are rewired in place (Node.replace_input_with) so that it becomes `rec`, and
    cuts of `rec` are extracted and judged against TLC's expectations for `rec` (nothing remembered from the earlier
    extractions may show)."""
    if len(rec["o"]) < 2 or prev["i"] == rec["i"]:
        return
    if any(len(a) != len(b) for a, b in zip(prev["i"], rec["i"])):
        return
    mode = "graphs" if (seed + len(rec["cuts"])) % 2 else "graph"
    src = Src(prev, mode)
    warm = [c for c in prev["cuts"] if not c[2][0]][:3] or prev["cuts"][:1]
    for ins, outs, _exp in warm:
        run_cut(src, ins, outs, "graph", "obj")
    judge_captures(src, prev["caps"], "graph")
    for n, (a, b) in enumerate(zip(prev["i"], rec["i"]), start=1):
        for j, (x, y) in enumerate(zip(a, b)):
            if x != y:
                src.nodes[n].replace_input_with(j, src.vals[y] if y else None)
    src.I = rec
    src.uses0 = src._uses()
    out["history_steps"] = out.get("history_steps", 0) + 1
    inst_key = dict(g=rec["g"], o=rec["o"], n=rec["n"], i=rec["i"], l=rec["l"], edited_from=prev["i"])
    for cls, msg in judge_captures(src, rec["caps"], "graph"):
        sig = f"C18:implicit-usage:{cls}:after-edit"
        out["findings"].setdefault(sig, dict(kind="history", instance=inst_key, mode=mode, message=f"{sig} {msg}"))
    picked = [c for k, c in enumerate(rec["cuts"]) if (k + seed) % max(1, len(rec["cuts"]) // 4) == 0][:6]
    for ins, outs, exp in picked:
        res, exc = run_cut(src, ins, outs, "graph", "obj")
        out["calls"] += 1
        vio, _div = judge(src, ins, outs, exp, rec["den"], "graph", res, exc)
        for cls, msg in vio:
            sig = f"C18:extract:{cls}:after-edit"
            out["vio_count"][sig] = out["vio_count"].get(sig, 0) + 1
            out["findings"].setdefault(sig, dict(kind="history", instance=inst_key, mode=mode, ins=ins, outs=outs, expected=exp,
                                                 message=f"{sig} after rewiring the source in place, extract(ins={ins}, outs={outs}): {msg}"))


def _new_out() -> dict:
    return dict(calls=0, cuts=0, skipped=0, instances=0, kinds=set(), findings={}, vio_count={}, div={}, div_sample={},
                samples=[], sample_feats=set(), unparsed=0)


def _work(args):
    path, offsets, policy, seed, stride = args
    out = _new_out()
    last: dict = {}      # shape of an instance -> the previous record of that shape seen by this worker
    with open(path, "rb") as f:
        for off in offsets:
            f.seek(off)
            line = f.readline().decode("utf-8", "replace").rstrip("\n")
            try:
                rec = json.loads(json.loads(line))
            except ValueError:
                out["unparsed"] += 1
                continue
            out["instances"] += 1
            process_record(rec, policy, seed, stride, out)
            shape = json.dumps([rec["g"], rec["o"], rec["n"], rec["l"]])
            if shape in last:
                history_step(last[shape], rec, seed, out)
            last[shape] = rec
    out.pop("sample_feats")
    return out


def record_offsets(path: str) -> list:
    offs = []
    with open(path, "rb") as f:
        pos = 0
        for line in f:
            if line[:2] == b'"{':
                offs.append((pos, len(line)))
            pos += len(line)
    return offs


def replay_file(path: str, *, policy: str, seed: int, stride: int = 1, nproc: int | None = None) -> dict:
    """Replay all records of a TLC output file on ``nproc`` processes; merge the outcomes."""
    offs = record_offsets(path)
    nproc = nproc or os.cpu_count() or 4
    # big records first, round-robin into small chunks => balanced work
    offs.sort(key=lambda x: -x[1])
    nchunks = max(1, min(len(offs), nproc * 8))
    chunks = [[o for o, _ in offs[i::nchunks]] for i in range(nchunks)]
    total = _new_out()
    total.pop("sample_feats")
    if nproc == 1 or len(offs) <= 2:
        results = [_work((path, c, policy, seed, stride)) for c in chunks]
    else:
        with mp.get_context("fork").Pool(nproc) as pool:
            results = pool.map(_work, [(path, c, policy, seed, stride) for c in chunks], chunksize=1)
    for r in results:
        for k in ("calls", "cuts", "skipped", "instances", "unparsed"):
            total[k] += r[k]
        total["history_steps"] = total.get("history_steps", 0) + r.get("history_steps", 0)
        total["kinds"] |= r["kinds"]
        for sig, d in r["findings"].items():
            total["findings"].setdefault(sig, d)
        for sig, c in r["vio_count"].items():
            total["vio_count"][sig] = total["vio_count"].get(sig, 0) + c
        for cls, c in r["div"].items():
            total["div"][cls] = total["div"].get(cls, 0) + c
        for cls, d in r["div_sample"].items():
            total["div_sample"].setdefault(cls, d)
        for s in r["samples"]:
            if len(total["samples"]) < 3:
                total["samples"].append(s)
    total["records"] = len(offs)
    return total


# ------------------------------------------------------------------------------- auxiliary: concrete evaluation
_UN = ("Neg", "Relu", "Abs", "Sin")
_BIN = ("Add", "Mul", "Sub", "Max")


def concretizable(rec: dict) -> bool:
    return (len(rec["o"]) == 1 and max(rec["n"]) == 1 and all(1 <= len(i) <= 2 and 0 not in i for i in rec["i"]))


def _concretize(graph) -> None:
    """Give every node OpN of a (fresh) graph a real ONNX operator of the same arity."""
    for node in graph:
        n = _node_num(node)
        node.op_type = _UN[n % 4] if len(node.inputs) == 1 else _BIN[n % 4]


def _run_model(graph, feeds: dict):
    import onnx
    from onnx.reference import ReferenceEvaluator

    for v in list(graph.inputs) + list(graph.outputs):
        v.type = ir.TensorType(ir.DataType.FLOAT)
        v.shape = ir.Shape([3])
    proto = ir.serde.serialize_model(ir.Model(graph, ir_version=10))
    sess = ReferenceEvaluator(proto)
    names = [o.name for o in proto.graph.output]
    got = sess.run(None, {i.name: feeds[i.name] for i in proto.graph.input if i.name in feeds})
    return dict(zip(names, got))


def evaluate_cut(rec: dict, ins: list, outs: list, rng) -> tuple:
    """Evaluate the source and the extracted graph with onnx's ReferenceEvaluator on a concrete
    instantiation (auxiliary to the Herbrand comparison). Returns (status, message)."""
    src = Src(rec, "graph")
    for i in src.init_ids:
        src.vals[i].const_value = ir.tensor(rng.standard_normal(3).astype(np.float32), name=vname(i))
    res, exc = run_cut(src, ins, outs, "graph", "obj")
    if exc is not None:
        return "raised", ""
    full = src.root.clone()
    _concretize(full)
    node_outs = [o for n in full for o in n.outputs]
    full.outputs.clear()
    full.outputs.extend(node_outs)
    feeds = {v.name: rng.standard_normal(3).astype(np.float32) for v in full.inputs}
    env = dict(feeds)
    env.update({k: v.const_value.numpy() for k, v in full.initializers.items()})
    env.update(_run_model(full, feeds))
    _concretize(res)
    got = _run_model(res, {vname(v): env[vname(v)] for v in ins})
    for o in outs:
        if not np.allclose(got[vname(o)], env[vname(o)], rtol=1e-5, atol=1e-6, equal_nan=True):
            return "differs", f"output {vname(o)}: extracted {got[vname(o)]} source {env[vname(o)]}"
    return "equal", ""
