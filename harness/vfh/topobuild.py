"""Binding for C12: build a TopoSort instance with real onnx_ir objects, sort it through one of the
public entry points and observe the node order of every graph.

An abstract instance (specs/sort/TopoSort.tla) is the list ``[gOf, owner, order, ins]``:
``gOf[n-1]`` graph of node n, ``owner[g-1]`` node owning graph g (0 for graph 1), ``order[g-1]``
initial node list of graph g, ``ins[n-1]`` producers of the inputs of node n.

Concretisation (everything that the abstract instance leaves open is chosen deterministically
from ``variant``, a number derived from the run seed, the instance and the run index):
  * the creation order of the Node objects (object identity / id()-based hashes differ per run),
  * the number of outputs of every node and which output a user refers to (multi-output nodes),
  * extra inputs that the algorithm must ignore, inserted at arbitrary positions: ``None``, a graph
    input, an initializer, the output of a node that is in no graph, the output of a node of an
    unrelated graph,
  * extra CONSUMERS that the algorithm must ignore: nodes that are in no graph of the forest (removed without
    ``safe=True``, or members of an unrelated graph) and still use an output of a node of the forest,
  * the order of the real inputs when the spec enumerated input multisets (``shuffle_inputs``),
  * how graphs are attached to their owner: one GRAPH attribute per graph or one GRAPHS attribute
    for two, attribute names whose alphabetical order differs from their insertion order, scalar
    attributes in between.
"""

from __future__ import annotations

import json
import random
import sys
import zlib

APIS_ROOT = ("graph", "function", "pass", "pass_func")


def variant_of(seed: int, inst, run: int) -> int:
    return zlib.crc32(json.dumps([seed, inst, run], separators=(",", ":")).encode())


class Built:
    __slots__ = ("graphs", "nodes", "name2id", "keep")

    def __init__(self, graphs, nodes, name2id, keep):
        self.graphs, self.nodes, self.name2id, self.keep = graphs, nodes, name2id, keep

    def orders(self):
        n2i = self.name2id
        return [[n2i.get(nd.name, -1) for nd in g] for g in self.graphs]


def build(inst, variant: int, shuffle_inputs: bool = False, feature: str | None = None) -> Built:
    import onnx_ir as ir

    gOf, owner, order, ins = inst
    n, ng = len(gOf), len(owner)
    rng = random.Random(variant)

    nout = [rng.choice((1, 1, 1, 2, 3)) for _ in range(n)]
    # ---- concrete input lists: ("p", producer, output index) | ("x", kind) -------------------
    plans = []
    for i in range(n):
        ps = list(ins[i])
        if shuffle_inputs:
            rng.shuffle(ps)
        plan = [("p", p, rng.randrange(nout[p - 1])) for p in ps]
        for _ in range(rng.choice((0, 0, 0, 1, 1, 2))):
            plan.insert(rng.randrange(len(plan) + 1), ("x", rng.choice(("none", "gin", "init", "detached", "foreign"))))
        plans.append(plan)

    # ---- values and nodes that lie outside the forest ----------------------------------------
    gins = [ir.Value(name=f"gin{g + 1}") for g in range(ng)]
    inits = [ir.Value(name=f"init{g + 1}", const_value=ir.tensor([1.0], name=f"init{g + 1}")) for g in range(ng)]
    detached = ir.Node("", "Detached", [], num_outputs=1, name="detached")
    foreign_node = ir.Node("", "Foreign", [], num_outputs=1, name="foreign")
    foreign_graph = ir.Graph([], [], nodes=[foreign_node], name="foreign_graph")

    # ---- nodes, created in a permuted order, inputs wired afterwards (cycles are allowed) -----
    creation = list(range(n))
    rng.shuffle(creation)
    nodes = [None] * n
    for i in creation:
        nodes[i] = ir.Node("", "Op", [None] * len(plans[i]), num_outputs=nout[i], name=f"n{i + 1}")
    for i in range(n):
        for j, item in enumerate(plans[i]):
            if item[0] == "p":
                val = nodes[item[1] - 1].outputs[item[2]]
            else:
                kind = item[1]
                g = gOf[i] - 1
                val = {
                    "none": None,
                    "gin": gins[g],
                    "init": inits[g],
                    "detached": detached.outputs[0],
                    "foreign": foreign_node.outputs[0],
                }[kind]
            if val is not None:
                nodes[i].replace_input_with(j, val)

    # ---- consumers outside the forest: uses() of a node's outputs that are not dependencies of the sort ----
    outside_users = []
    for i in range(n):
        if rng.random() < 0.35:
            user = ir.Node("", "OutsideUser", [nodes[i].outputs[rng.randrange(nout[i])]], num_outputs=1, name=f"ou{i + 1}")
            outside_users.append(user)
            if rng.random() < 0.5:
                foreign_graph.append(user)

    # ---- graphs (any creation order), then the graph attributes of the owners ----------------
    gorder = list(range(ng))
    rng.shuffle(gorder)
    graphs = [None] * ng
    for g in gorder:
        members = [nodes[m - 1] for m in order[g]]
        outs = [members[-1].outputs[0]] if members and rng.random() < 0.5 else []
        graphs[g] = ir.Graph([gins[g]], outs, nodes=members, initializers=[inits[g]], name=f"g{g + 1}")
    owned: dict = {}
    for g in range(1, ng):
        owned.setdefault(owner[g], []).append(g)
    for o, gs in owned.items():
        node = nodes[o - 1]
        style = rng.randrange(4)
        if rng.random() < 0.5:
            node.attributes.add(ir.AttrInt64("k0", 7))
        if len(gs) >= 2 and style == 0:
            node.attributes.add(ir.AttrGraphs("bodies", [graphs[g] for g in gs]))
        else:
            # insertion order = graph id order; the names sort the other way round for style 1
            for pos, g in enumerate(gs):
                name = f"{'zyx'[pos]}_body" if style == 1 else f"body{pos}"
                node.attributes.add(ir.AttrGraph(name, graphs[g]))
                if style == 2:
                    node.attributes.add(ir.AttrString(f"s{pos}", "x"))
        if rng.random() < 0.3:
            node.attributes.add(ir.AttrFloat32("alpha", 0.5))
    if feature == "refattr" and n:
        # a reference attribute of type GRAPH (legal inside a function body): no nested nodes
        nodes[rng.randrange(n)].attributes.add(ir.RefAttr("ref_body", "fn_attr", ir.AttributeType.GRAPH))
    elif feature == "refattrs" and n:
        nodes[rng.randrange(n)].attributes.add(ir.RefAttr("ref_bodies", "fn_attr", ir.AttributeType.GRAPHS))
    name2id = {f"n{i + 1}": i + 1 for i in range(n)}
    return Built(graphs, nodes, name2id, (detached, foreign_graph, gins, inits, outside_users))


def run_api(b: Built, api: str, r: int = 1):
    """Sort through `api` starting at graph r; return (outcome, orders after, pass 'modified' or None)."""
    import onnx_ir as ir

    modified = None
    try:
        if api == "graph":
            b.graphs[r - 1].sort()
        elif api == "function":
            fn = ir.Function("verif", "fn", graph=b.graphs[0], attributes=[])
            fn.sort()
        elif api == "pass":
            from onnx_ir.passes.common import TopologicalSortPass

            model = ir.Model(b.graphs[0], ir_version=10)
            modified = bool(TopologicalSortPass()(model).modified)
        elif api == "pass_func":
            from onnx_ir.passes.common import TopologicalSortPass

            fn = ir.Function("verif", "fn", graph=b.graphs[0], attributes=[])
            main = ir.Graph([], [], nodes=[ir.Node("verif", "fn", [], name="call")], name="main")
            model = ir.Model(main, ir_version=10, functions=[fn])
            modified = bool(TopologicalSortPass()(model).modified)
        else:  # pragma: no cover
            raise AssertionError(api)
        out = "ok"
    except ValueError:
        out = "ValueError"
    except Exception as e:  # noqa: BLE001  any other exception type is an observation, judged by TLC
        out = "other:" + type(e).__name__
    return out, b.orders(), modified


def observe(inst, r: int, api: str, variant: int, shuffle_inputs=False, feature=None):
    b = build(inst, variant, shuffle_inputs, feature)
    before = b.orders()
    if before != [list(o) for o in inst[2]]:
        raise RuntimeError(f"concretiser built the wrong initial order: {before} for {inst}")
    return run_api(b, api, r)


def observe_history(inst, variant: int, shuffle_inputs=False):
    """sort -> rewire in place -> sort again, on the SAME objects: the first sort's result becomes the order of a new
    instance whose first node of some graph additionally consumes an output of that graph's last node (node lists
    untouched by the edit).  Returns (new instance, runs) for TLC to judge against SortedAt(new instance, 1), or None."""
    b = build(inst, variant, shuffle_inputs)
    out1, after1, _ = run_api(b, "graph", 1)
    if out1 != "ok":
        return None
    gOf, owner, _order, ins = inst
    pick = next((m for m in after1 if len(m) >= 2), None)
    if pick is None:
        return None
    a, c = pick[0], pick[-1]
    node_a, node_c = b.nodes[a - 1], b.nodes[c - 1]
    k = len(node_a.inputs)
    node_a.resize_inputs(k + 1)
    node_a.replace_input_with(k, node_c.outputs[0])
    ins2 = [list(x) for x in ins]
    ins2[a - 1] = ins2[a - 1] + [c]
    out2, after2, _ = run_api(b, "graph", 1)
    return [gOf, owner, after1, ins2], [["graph", 0, out2, after2]]


def expected_of(inst, res_r):
    """TLC's result for one start graph -> (outcome, orders)."""
    if res_r == 0:
        return "ValueError", [list(o) for o in inst[2]]
    return "ok", [list(o) for o in res_r]


# --------------------------------------------------------------------------------------------
# features of an instance (classification only: evidence counters, never a verdict)
def features(inst, res):
    gOf, owner, order, ins = inst
    n, ng = len(gOf), len(owner)
    depth2 = any(owner[g] and gOf[owner[g] - 1] != 1 for g in range(1, ng))
    cross = any(gOf[p - 1] != gOf[i] for i in range(n) for p in ins[i])
    rep = any(len(set(x)) < len(x) for x in ins)
    r1 = res[0]
    cls = "cycle" if r1 == 0 else ("same" if [list(o) for o in r1] == [list(o) for o in order] else "changed")
    sub_only = cls == "changed" and list(r1[0]) == list(order[0])
    return n, ng, depth2, cross, rep, cls, sub_only


def process_lines(args):
    """Worker: replay a chunk of TLC-emitted instances.  Returns counters, mismatching observations
    (to be judged by TLC), a sample of conforming observations, feature keys and C14 statistics."""
    lines, seed, mode, shuffle_inputs, sample_every, max_obs = args
    out = {
        "instances": 0, "runs": 0, "mismatch": [], "sample": [], "keys": set(), "nontrivial": 0,
        "c14": {"changed": 0, "flag_false_but_changed": 0, "flag_true_unchanged": 0, "sub_only_false": 0, "example": None},
        "errors": [], "history": [],
    }
    for idx, line in lines:
        try:
            rec = json.loads(json.loads(line))
        except ValueError:
            continue
        inst, res = rec[:4], rec[4]
        out["instances"] += 1
        f = features(inst, res)
        nontrivial = f[0] >= 2 and (f[5] != "same" or f[3])
        out["keys"].add(f)
        out["nontrivial"] += 1 if nontrivial else 0
        plan = []
        for r in range(1, len(res) + 1):
            if r == 1:
                if mode == "all":
                    plan += [(1, "graph", 0), (1, "graph", 1), (1, "function", 2), (1, "pass", 3), (1, "pass_func", 4)]
                else:
                    second = APIS_ROOT[idx % 4]
                    plan += [(1, "graph", 0), (1, second, 1)]
            else:
                plan += [(r, "graph", 0), (r, "graph", 1)] if mode == "all" else [(r, "graph", idx % 2)]
        bad = {}
        good = {}
        for r, api, run in plan:
            variant = variant_of(seed, inst, run)
            try:
                got = observe(inst, r, api, variant, shuffle_inputs)
            except Exception as e:  # noqa: BLE001
                out["errors"].append(f"{type(e).__name__}: {e} on {inst} r={r} api={api}")
                continue
            out["runs"] += 1
            exp = expected_of(inst, res[r - 1])
            entry = [api, run, got[0], got[1]]
            (good if (got[0], got[1]) == exp else bad).setdefault(r, []).append(entry)
            if api in ("pass", "pass_func") and got[0] == "ok":
                changed = got[1] != [list(o) for o in inst[2]]
                c = out["c14"]
                c["changed"] += changed
                if changed and got[2] is False:
                    c["flag_false_but_changed"] += 1
                    if got[1][0] == list(inst[2][0]):
                        c["sub_only_false"] += 1
                        if c["example"] is None or len(inst[0]) < len(c["example"]["inst"][0]):
                            c["example"] = {"inst": inst, "after": got[1], "api": api, "modified": got[2]}
                if (not changed) and got[2] is True:
                    c["flag_true_unchanged"] += 1
        if idx % 5 == 0 and len(out["history"]) < max_obs and res[0] != 0:
            try:
                h = observe_history(inst, variant_of(seed, inst, 9), shuffle_inputs)
            except Exception as e:  # noqa: BLE001
                out["errors"].append(f"{type(e).__name__}: {e} on {inst} (history)")
                h = None
            if h is not None:
                out["runs"] += 1
                out["history"].append([h[0], 1, h[1], {"history_of": inst}])
        for r, entries in bad.items():
            if len(out["mismatch"]) < max_obs:
                out["mismatch"].append([inst, r, entries + good.get(r, [])])
        if not bad and sample_every and idx % sample_every == 0:
            for r, entries in good.items():
                out["sample"].append([inst, r, entries])
    return out


# --------------------------------------------------------------------------------------------
def _child_main(argv):
    """Subprocess entry (different PYTHONHASHSEED): python -m vfh.topobuild <in.json> <out.json>."""
    with open(argv[0]) as f:
        job = json.load(f)
    res = []
    for inst, r, api, variant, shuffle_inputs in job["items"]:
        out, after, _ = observe(inst, r, api, variant, shuffle_inputs)
        res.append([out, after])
    import os

    with open(argv[1], "w") as f:
        json.dump({"hashseed": os.environ.get("PYTHONHASHSEED"), "results": res}, f)


if __name__ == "__main__":
    _child_main(sys.argv[1:])
