SPECIFICATION Spec
INVARIANT Report
INVARIANT MechOK
CHECK_DEADLOCK FALSE
