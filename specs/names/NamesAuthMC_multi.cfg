\* focus: multi-node adds (extend / insert_before / insert_after / Graph(nodes=...)), 2 op types
CONSTANTS
  NG = 2
  Focus = {"Node", "Graph", "Extend", "InsertBefore", "InsertAfter", "Remove", "SetValName"}
  Seeds = {4, 5}
  NPool = {"<none>", "node_Op_0"}
  OutSel = {1, 5, 6, 8}
  NodeGraphs = {0, 1}
  OpGraphs = {1, 2}
  Ops = {"Op", "Id"}
  SetV = {"val_1"}
  SetN = {"<none>"}
  MaxNodes = 2
  MaxDepth = 4
  EmitOn = TRUE
INIT Init
NEXT Next
VIEW View
CONSTRAINT Bound
ACTION_CONSTRAINT EmitA
INVARIANT InvFresh
INVARIANT InvKept
INVARIANT InvMech
PROPERTY NeverShrink
PROPERTY RejectAtomic
