\* focus: create / append / remove / re-add with user renames in between, 3 nodes
CONSTANTS
  NG = 2
  Focus = {"Node", "Append", "Remove", "SetNodeName", "SetValName"}
  Seeds = {2, 3}
  NPool = {"<none>", "node_Op_1"}
  OutSel = {2, 3, 4}
  NodeGraphs = {0, 1}
  OpGraphs = {1, 2}
  Ops = {"Op"}
  SetV = {"<none>"}
  SetN = {"<none>"}
  MaxNodes = 3
  MaxDepth = 4
  EmitOn = TRUE
INIT Init
NEXT Next
VIEW View
CONSTRAINT Bound
ACTION_CONSTRAINT EmitA
INVARIANT InvFresh
INVARIANT InvKept
INVARIANT InvMech
PROPERTY NeverShrink
PROPERTY RejectAtomic
