\* the transcription executed one visit per step (<=2 values): mechanism invariant at every step, and the
\* small-step and big-step semantics agree
CONSTANTS
  Layouts = {0, 2, 3, 5}
  Tops = {"graph", "function"}
  Family = "value"
  MinV = 1
  MaxV = 2
  Kinds = {"in", "init", "ii", "out"}
  OutKinds = {"out", "init"}
  VPoolB = {"<none>", "v", "v_1"}
  NPoolB = {"n"}
  SmallStep = TRUE
  EmitOn = FALSE
SPECIFICATION Spec
INVARIANT InvStack
INVARIANT InvRunAgrees
CHECK_DEADLOCK FALSE
