\* thorough: node family with a larger pool and three-scope layouts
CONSTANTS
  Layouts = {1, 3, 4, 5, 6, 7, 8, 9, 10, 11, 21, 22, 23}
  Tops = {"graph", "function"}
  Family = "node"
  MinV = 0
  MaxV = 0
  Kinds = {"in"}
  OutKinds = {}
  VPoolB = {"v"}
  NPoolB = {"<none>", "", "node", "node_1", "node_1_1", "n"}
  SmallStep = TRUE
  EmitOn = TRUE
SPECIFICATION Spec
INVARIANT Emit
INVARIANT InvStack
CHECK_DEADLOCK FALSE
