----------------------------- MODULE NamesFixMC -----------------------------
(***************************************************************************)
(* Part B design model: NameFixPass._fix_graph_names executed step by step *)
(* (one visit of the traversal per step) on EVERY small scoped naming      *)
(* instance.  Stage "names": a structure was chosen (Init), the names are  *)
(* chosen next; stage "run": the transcription runs to completion.         *)
(* Structures are emitted once (["S", key, lists]); every finished run     *)
(* emits ["R", key, names before, predicted result, clauses of the         *)
(* post-condition the predicted result breaks].                            *)
(* The post-conditions are NOT listed as invariants of this model: the     *)
(* transcription of the pinned algorithm does not satisfy all of them      *)
(* (that is what the check reports, on the real pass); the mechanism       *)
(* invariant FStackOK is.                                                  *)
(***************************************************************************)
EXTENDS Names, Json

CONSTANTS Layouts,   \* ids into Layout(_)
          Tops,      \* subset of {"graph", "function"}
          Family,    \* "value": names of values vary, nodes are well named; "node": the converse
          MinV, MaxV,\* number of values (value family)
          Kinds,     \* role kinds offered: subset of {"in", "init", "ii", "out"}
          OutKinds,  \* role kinds that may additionally be listed in graph.outputs
          VPoolB,    \* names of values before the pass
          NPoolB,    \* names of nodes before the pass (node family)
          SmallStep, \* TRUE: one visit per step; FALSE: the whole run in one step
          EmitOn

VARIABLES I, fs, stage
vars == <<I, fs, stage>>

\* nodeG, hold  (tuples a .cfg cannot spell)
Layout(id) ==
  CASE id = 0  -> [nodeG |-> <<>>,        hold |-> <<0>>]
    [] id = 1  -> [nodeG |-> <<1>>,       hold |-> <<0>>]
    [] id = 2  -> [nodeG |-> <<1>>,       hold |-> <<0, 1>>]       \* subgraph without nodes
    [] id = 3  -> [nodeG |-> <<1, 2>>,    hold |-> <<0, 1>>]
    [] id = 4  -> [nodeG |-> <<1, 1>>,    hold |-> <<0>>]
    [] id = 5  -> [nodeG |-> <<1, 1>>,    hold |-> <<0, 2>>]       \* a node precedes the holder
    [] id = 6  -> [nodeG |-> <<1, 1>>,    hold |-> <<0, 1>>]       \* a node follows the holder
    [] id = 7  -> [nodeG |-> <<1, 1, 2>>, hold |-> <<0, 2>>]
    [] id = 8  -> [nodeG |-> <<1, 2, 1>>, hold |-> <<0, 1>>]
    [] id = 9  -> [nodeG |-> <<1, 2, 2>>, hold |-> <<0, 1>>]
    [] id = 10 -> [nodeG |-> <<1, 1, 1>>, hold |-> <<0>>]
    [] id = 11 -> [nodeG |-> <<1, 1, 1>>, hold |-> <<0, 2>>]
    \* three scopes (thorough): sibling subgraphs of one node, and nesting of depth 3
    [] id = 20 -> [nodeG |-> <<1>>,       hold |-> <<0, 1, 1>>]
    [] id = 21 -> [nodeG |-> <<1, 2, 3>>, hold |-> <<0, 1, 1>>]
    [] id = 22 -> [nodeG |-> <<1, 2, 3>>, hold |-> <<0, 1, 2>>]
    [] id = 23 -> [nodeG |-> <<1, 2>>,    hold |-> <<0, 1, 2>>]

KindRank(k) == CASE k = "in" -> 1 [] k = "ii" -> 2 [] k = "init" -> 3 [] k = "out" -> 4
RoleIdx(r) == KindRank(r.k) * 100 + r.g * 10 + r.n
Roles(top, L) ==
  LET G == 1..Len(L.hold) IN
  {[k |-> k, g |-> g, n |-> 0] : k \in Kinds \cap {"in"}, g \in G}
    \cup {[k |-> k, g |-> g, n |-> 0] : k \in Kinds \cap {"init", "ii"}, g \in {h \in G : ~(h = 1 /\ top = "function")}}
    \cup {[k |-> k, g |-> 0, n |-> n] : k \in Kinds \cap {"out"}, n \in 1..Len(L.nodeG)}

GoodNames == <<"n1", "n2", "n3", "n4">>

Struct(top, lid, vr, vo) ==
  [top |-> top, lid |-> lid, nodeG |-> Layout(lid).nodeG, hold |-> Layout(lid).hold, vrole |-> vr, vout |-> vo,
   vname |-> <<>>, nname |-> <<>>]

StructOK(S) ==
  /\ Len(S.vout) = Len(S.vrole)
  /\ \A v \in DOMAIN S.vrole : S.vrole[v] \in Roles(S.top, Layout(S.lid))
  /\ \A v \in DOMAIN S.vrole : S.vout[v] => S.vrole[v].k \in OutKinds
  \* values are interchangeable up to their names: canonical order
  /\ \A v \in 1..(Len(S.vrole) - 1) :
        /\ RoleIdx(S.vrole[v]) <= RoleIdx(S.vrole[v + 1])
        /\ (S.vrole[v] = S.vrole[v + 1] /\ S.vout[v]) => S.vout[v + 1]

Key(S) == <<S.top, S.lid, [v \in DOMAIN S.vrole |-> <<S.vrole[v].k, S.vrole[v].g, S.vrole[v].n>>], S.vout>>

NameChoices(S) ==
  IF Family = "value"
  THEN {[S EXCEPT !.vname = vn, !.nname = SubSeq(GoodNames, 1, Len(S.nodeG))] :
          vn \in {f \in [1..Len(S.vrole) -> VPoolB] :
                    \* initializers are dict entries: named, and distinct within a graph
                    /\ \A v \in DOMAIN f : FIsInit(S, v) => ~Blank(f[v])
                    /\ \A v, w \in DOMAIN f : (v < w /\ FIsInit(S, v) /\ FIsInit(S, w) /\ S.vrole[v].g = S.vrole[w].g)
                                                 => f[v] # f[w]}}
  ELSE {[S EXCEPT !.nname = nn] : nn \in [1..Len(S.nodeG) -> NPoolB]}

Idle == [pc |-> 0]

Init == /\ \E top \in Tops, lid \in Layouts :
             \E nv \in (IF Family = "value" THEN MinV..MaxV ELSE {0}) :
               \E vr \in [1..nv -> Roles(top, Layout(lid))], vo \in [1..nv -> BOOLEAN] :
                  /\ StructOK(Struct(top, lid, vr, vo))
                  /\ I = Struct(top, lid, vr, vo)
        /\ fs = Idle
        /\ stage = "names"

Next ==
  \/ /\ stage = "names"
     /\ \E J \in NameChoices(I) : I' = J /\ fs' = FInit(J)
     /\ stage' = "run"
  \/ /\ stage = "run" /\ ~FDone(fs)
     /\ fs' = IF SmallStep THEN FStep(I, fs) ELSE FRunFrom(I, fs)
     /\ UNCHANGED <<I, stage>>

Spec == Init /\ [][Next]_vars

Pre == [vname |-> I.vname, nname |-> I.nname, sig |-> "s"]
Post == [vname |-> fs.vname, nname |-> fs.nname, keys |-> fs.keys, sig |-> "s",
         out |-> IF fs.raised THEN "raise" ELSE "ok"]

StructRec(S) ==
  [top |-> S.top,
   hold |-> S.hold,
   gin |-> [g \in 1..FNG(S) |-> FInputs(S, g)], gout |-> [g \in 1..FNG(S) |-> FOutputs(S, g)],
   ginit |-> [g \in 1..FNG(S) |-> FInits(S, g)], gnodes |-> [g \in 1..FNG(S) |-> FNodes(S, g)],
   nin |-> [n \in 1..FNN(S) |-> FNodeIns(S, n)], nout |-> [n \in 1..FNN(S) |-> FNodeOuts(S, n)],
   nsub |-> [n \in 1..FNN(S) |-> FSubs(S, n)], nv |-> FNV(S),
   raw |-> [top |-> S.top, nodeG |-> S.nodeG, hold |-> S.hold, vrole |-> S.vrole, vout |-> S.vout]]

Emit ==
  EmitOn =>
    /\ stage = "names" => PrintT(ToJson(<<"S", Key(I), StructRec(I)>>))
    /\ (stage = "run" /\ FDone(fs)) =>
          PrintT(ToJson(<<"R", Key(I), I.vname, I.nname, FResult(fs), FBroken(I, Pre, Post)>>))

InvStack == stage = "run" => FStackOK(I, fs)
\* small-step and big-step semantics agree (checked where SmallStep is on)
InvRunAgrees == (stage = "run" /\ FDone(fs)) => FResult(fs) = FResult(FRun(I))
=============================================================================
