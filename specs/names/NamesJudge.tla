------------------------------ MODULE NamesJudge ------------------------------
(***************************************************************************)
(* The verdict on OBSERVED results of the real code (parts B and C).       *)
(*                                                                         *)
(* JUDGE_FILE:                                                             *)
(*  { "structs": [ raw instance structure (top,nodeG,hold,vrole,vout) ],   *)
(*    "fix": [ [sidx, pre, post, cf] ]   pre  = {vname,nname,sig}          *)
(*                                       post = {vname,nname,keys,sig,out} *)
(*                                       cf: also check conformance with   *)
(*                                       the transcription (FRun)          *)
(*    "ren": [ [pre, pairs, post, out] ] pre/post = {vname,vinit,cname,keys}*)
(*  }                                                                      *)
(* For every "fix" record TLC evaluates the post-conditions of the pass    *)
(* (FBroken) on the observed names; for every "ren" record AllOrNothing.   *)
(* Reports: ["F", idx, broken clauses, conforms]   ["R", idx, holds]       *)
(***************************************************************************)
EXTENDS Names, Json, IOUtils

Data == JsonDeserialize(IOEnv.JUDGE_FILE)
NFix == Len(Data.fix)
NRen == Len(Data.ren)

VARIABLES part, idx, done, rep
vars == <<part, idx, done, rep>>

Init == /\ \/ part = "fix" /\ idx \in 1..NFix
           \/ part = "ren" /\ idx \in 1..NRen
        /\ done = FALSE
        /\ rep = <<>>

InstOf(o) == Data.structs[o[1]] @@ [vname |-> o[2].vname, nname |-> o[2].nname]

JudgeFix(o) ==
  LET I == InstOf(o)
      b == FBroken(I, o[2], o[3])
      r == FResult(FRun(I))
      cf == IF o[4] THEN r.out = o[3].out /\ r.vname = o[3].vname /\ r.nname = o[3].nname /\ r.keys = o[3].keys
            ELSE TRUE
  IN <<"F", idx, b, cf>>

JudgeRen(o) == <<"R", idx, RAllOrNothing(o[1], o[2], o[3], o[4])>>

Next == /\ ~done
        /\ rep' = IF part = "fix" THEN JudgeFix(Data.fix[idx]) ELSE JudgeRen(Data.ren[idx])
        /\ done' = TRUE
        /\ UNCHANGED <<part, idx>>

Spec == Init /\ [][Next]_vars
Report == done => PrintT(ToJson(rep))
=============================================================================
