------------------------------ MODULE NamesJudge ------------------------------
(***************************************************************************)
(* The verdict on OBSERVED results of the real code (parts B and C).       *)
(*                                                                         *)
(* JUDGE_FILE:                                                             *)
(*  { "structs": [ raw instance structure (top,nodeG,hold,vrole,vout) ],   *)
(*    "fix": [ [sidx, pre, post, cf] ]   pre  = {vname,nname,sig}          *)
(*                                       post = {vname,nname,keys,sig,out} *)
(*                                       cf: also check conformance with   *)
(*                                       the transcription (FRun)          *)
(*    "ren": [ [pre, pairs, post, out] ] pre/post = {vname,vinit,cname,keys}*)
(*  }                                                                      *)
(* For every "fix" record TLC evaluates the post-conditions of the pass    *)
(* (FBroken) on the observed names; for every "ren" record AllOrNothing.   *)
(* Reports: ["F", idx, broken clauses, conforms]   ["R", idx, holds]       *)
(***************************************************************************)
EXTENDS Names, Json, IOUtils

\* Measured: TLC evaluates this file-backed constant once per worker (the file is opened #workers times),
\* and a LET-bound or parameterised variant is re-evaluated on every use.  The harness therefore keeps
\* judge files small (batches) instead.
Data == JsonDeserialize(IOEnv.JUDGE_FILE)

\* The input record travels in the state (inp).
VARIABLES part, idx, inp, done, rep
vars == <<part, idx, inp, done, rep>>

Init == /\ \/ \E i \in 1..Len(Data.fix) : part = "fix" /\ idx = i /\ inp = <<Data.structs[Data.fix[i][1]], Data.fix[i]>>
           \/ \E i \in 1..Len(Data.ren) : part = "ren" /\ idx = i /\ inp = <<0, Data.ren[i]>>
        /\ done = FALSE
        /\ rep = <<>>

JudgeFix(S, o) ==
  LET I == S @@ [vname |-> o[2].vname, nname |-> o[2].nname]
      b == FBroken(I, o[2], o[3])
      cf == IF o[4]
            THEN LET r == FResult(FRun(I)) IN
                 r.out = o[3].out /\ r.vname = o[3].vname /\ r.nname = o[3].nname /\ r.keys = o[3].keys
            ELSE TRUE
  IN <<"F", idx, b, cf>>

JudgeRen(o) == <<"R", idx, RAllOrNothing(o[1], o[2], o[3], o[4])>>

Next == /\ ~done
        /\ rep' = IF part = "fix" THEN JudgeFix(inp[1], inp[2]) ELSE JudgeRen(inp[2])
        /\ done' = TRUE
        /\ UNCHANGED <<part, idx, inp>>

Spec == Init /\ [][Next]_vars
Report == done => PrintT(ToJson(rep))
=============================================================================
