------------------------------ MODULE NamesJudge ------------------------------
(***************************************************************************)
(* The verdict on OBSERVED results of the real code (parts B and C).       *)
(*                                                                         *)
(* JUDGE_FILE:                                                             *)
(*  { "structs": [ raw instance structure (top,nodeG,hold,vrole,vout) ],   *)
(*    "fix": [ [sidx, pre, post, cf] ]   pre  = {vname,nname,sig}          *)
(*                                       post = {vname,nname,keys,sig,out} *)
(*                                       cf: also check conformance with   *)
(*                                       the transcription (FRun)          *)
(*    "ren": [ [pre, pairs, post, out] ] pre/post = {vname,vinit,cname,keys}*)
(*  }                                                                      *)
(* For every "fix" record TLC evaluates the post-conditions of the pass    *)
(* (FBroken) on the observed names; for every "ren" record AllOrNothing.   *)
(* Reports: ["F", idx, broken clauses, conforms]   ["R", idx, holds]       *)
(***************************************************************************)
EXTENDS Names, Json, IOUtils

\* An operator WITH a parameter: TLC evaluates zero-arity constant definitions once per worker at start-up
\* (measured: the file was opened once per worker), which multiplies parse time and memory.  Load is only
\* called from Init (LET-bound, one evaluation, main thread).
Load(f) == JsonDeserialize(f)

\* The input record travels in the state (inp), so that only the initial-state computation touches the file.
VARIABLES part, idx, inp, done, rep
vars == <<part, idx, inp, done, rep>>

Init == LET D == Load(IOEnv.JUDGE_FILE) IN
        /\ \/ \E i \in 1..Len(D.fix) : part = "fix" /\ idx = i /\ inp = <<D.structs[D.fix[i][1]], D.fix[i]>>
           \/ \E i \in 1..Len(D.ren) : part = "ren" /\ idx = i /\ inp = <<0, D.ren[i]>>
        /\ done = FALSE
        /\ rep = <<>>

JudgeFix(S, o) ==
  LET I == S @@ [vname |-> o[2].vname, nname |-> o[2].nname]
      b == FBroken(I, o[2], o[3])
      cf == IF o[4]
            THEN LET r == FResult(FRun(I)) IN
                 r.out = o[3].out /\ r.vname = o[3].vname /\ r.nname = o[3].nname /\ r.keys = o[3].keys
            ELSE TRUE
  IN <<"F", idx, b, cf>>

JudgeRen(o) == <<"R", idx, RAllOrNothing(o[1], o[2], o[3], o[4])>>

Next == /\ ~done
        /\ rep' = IF part = "fix" THEN JudgeFix(inp[1], inp[2]) ELSE JudgeRen(inp[2])
        /\ done' = TRUE
        /\ UNCHANGED <<part, idx, inp>>

Spec == Init /\ [][Next]_vars
Report == done => PrintT(ToJson(rep))
=============================================================================
