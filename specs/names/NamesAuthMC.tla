---------------------------- MODULE NamesAuthMC ----------------------------
(***************************************************************************)
(* Part A design model: every add / remove / re-add / rename history over  *)
(* a small pool of graphs, nodes and names (explicit names shaped like     *)
(* generated ones included).  hist and last are hidden by VIEW; EmitA is   *)
(* an always-true ACTION_CONSTRAINT printing one JSON line per explored    *)
(* transition (history, outcome, predicted observable names), which the    *)
(* harness replays on real ir.Graph / ir.Node / ir.Value objects.          *)
(***************************************************************************)
EXTENDS Names, Json

CONSTANTS NG, VPool, NPool, InPool, InitPool, Ops, SetV, SetN,
          MaxNodes, MaxOuts, MaxIns, MaxDepth, EmitOn

VARIABLES st, last, hist
vars == <<st, last, hist>>
View == st

C(op) == [ANoCall EXCEPT !.op = op]
Compact(c) == <<c.op, c.g, c.n, c.ns, c.opt, c.name, c.names, c.names2, c.v>>

SeqsUpTo(S, k) == UNION {[1..m -> S] : m \in 0..k}
N == 1..Len(st.nName)
V == 1..Len(st.vName)
Built == {g \in 1..NG : st.built[g]}
Detached == {n \in N : st.nGraph[n] = 0}

Calls ==
  \* Graph(inputs, (), nodes=ns, initializers=...) for the next graph not yet constructed
  {[C("Graph") EXCEPT !.g = g, !.names = ins, !.names2 = ws, !.ns = ns] :
       g \in {x \in 1..NG : ~st.built[x] /\ \A y \in 1..(x - 1) : st.built[y]},
       ins \in SeqsUpTo(InPool, MaxIns), ws \in SeqsUpTo(InitPool, 1),
       ns \in {<<>>} \cup {<<n>> : n \in Detached}}
  \cup
  \* Node(op, outputs / num_outputs, name=, graph=)
  (IF Len(st.nName) < MaxNodes
   THEN {[C("Node") EXCEPT !.opt = o, !.name = nm, !.names = outs, !.g = g] :
            o \in Ops, nm \in NPool, outs \in SeqsUpTo(VPool, MaxOuts), g \in {0} \cup Built}
   ELSE {})
  \cup {[C("Append") EXCEPT !.g = g, !.n = n] : g \in Built, n \in N}
  \cup {[C("Extend") EXCEPT !.g = x[1], !.ns = <<x[2], x[3]>>] : x \in {y \in Built \X N \X N : y[2] # y[3]}}
  \cup {[C(o) EXCEPT !.g = x[1], !.n = x[2], !.ns = <<x[3]>>] :
            o \in {"InsertBefore", "InsertAfter"}, x \in {y \in Built \X N \X N : y[2] # y[3]}}
  \cup {[C("Remove") EXCEPT !.g = g, !.ns = <<n>>] : g \in Built, n \in N}
  \cup {[C("SetNodeName") EXCEPT !.n = n, !.name = x] : n \in N, x \in SetN}
  \cup {[C("SetValName") EXCEPT !.v = v, !.name = x] : v \in {w \in V : ~st.vInit[w]}, x \in SetV}

Init == st = AEmpty(NG) /\ last = [c |-> ANoCall, out |-> "init"] /\ hist = <<>>

Next == \E c \in Calls :
          LET r == AApply(st, c) IN
          /\ st' = r.s
          /\ last' = [c |-> c, out |-> r.out]
          /\ hist' = Append(hist, Compact(c))

Bound == TLCGet("level") <= MaxDepth + 1

EmitA == EmitOn => PrintT(ToJson([h |-> hist', o |-> last'.out, p |-> AObs(st')]))

InvFresh == AFresh(st)
InvKept == AKept(st)
InvMech == AMech(st)
NeverShrink == [][ANeverShrink(st, st')]_vars
RejectAtomic == [][last'.out # "ok" => AObs(st') = AObs(st)]_vars
=============================================================================
