---------------------------- MODULE NamesAuthMC ----------------------------
(***************************************************************************)
(* Part A design model: every add / remove / re-add / rename history over  *)
(* a small pool of graphs, nodes and names (explicit names shaped like     *)
(* generated ones included).  hist and last are hidden by VIEW; EmitA is   *)
(* an always-true ACTION_CONSTRAINT printing one JSON line per explored    *)
(* transition (history, outcome, predicted observable names), which the    *)
(* harness replays on real ir.Graph / ir.Node / ir.Value objects.          *)
(***************************************************************************)
EXTENDS Names, Json

CONSTANTS NG,        \* number of graphs
          Focus,     \* op names enabled in this configuration
          Seeds,     \* ids of the construction histories to start from
          NPool,     \* names given to new nodes
          OutSel,    \* ids (into OutChoices) of the output-name tuples given to new nodes
          NodeGraphs,\* graph= argument of Node(): subset of 0..NG
          OpGraphs,  \* graphs on which append/extend/insert/remove are attempted
          Ops,       \* op_types
          SetV, SetN,\* names assigned later by the user (value.name = x / node.name = x)
          MaxNodes, MaxDepth, EmitOn

VARIABLES st, last, hist
vars == <<st, last, hist>>
\* the number of calls made is part of the fingerprint, so that the bounded exploration (and hence the set of
\* replayed transitions) does not depend on the order in which parallel workers reach a state
View == <<st, Len(hist)>>

C(op) == [ANoCall EXCEPT !.op = op]
Compact(c) == <<c.op, c.g, c.n, c.ns, c.opt, c.name, c.names, c.names2, c.v>>

\* tuples a .cfg file cannot spell
OutChoices == << <<>>, <<None>>, <<"val_0">>, <<"val_1", None>>, <<None, "val_1">>, <<None, None>>, <<"a">>,
                 <<"val_2">>, <<"a", "a">> >>

\* construction histories: Graph(inputs, (), nodes=(), initializers=...) for every graph
G(g, ins, ws) == [C("Graph") EXCEPT !.g = g, !.names = ins, !.names2 = ws]
Seed(id) ==
  CASE id = 1 -> <<G(1, <<>>, <<>>), G(2, <<>>, <<>>)>>
    [] id = 2 -> <<G(1, <<None>>, <<"val_1">>), G(2, <<"val_0">>, <<>>)>>
    [] id = 3 -> <<G(1, <<"val_0", None>>, <<>>), G(2, <<>>, <<"val_0">>)>>
    [] id = 4 -> <<G(1, <<"val_1">>, <<"val_0">>), G(2, <<None, None>>, <<>>)>>
    [] id = 5 -> <<G(1, <<>>, <<>>)>>            \* graph 2 is constructed later, with nodes

RECURSIVE ApplyAll(_, _)
ApplyAll(s, q) == IF q = <<>> THEN s ELSE ApplyAll(AApply(s, Head(q)).s, Tail(q))

N == 1..Len(st.nName)
V == 1..Len(st.vName)
Built == {g \in 1..NG : st.built[g]}
OG == OpGraphs \cap Built
Detached == {n \in N : st.nGraph[n] = 0}
Pairs == {y \in N \X N : y[1] # y[2]}
On(op, S) == IF op \in Focus THEN S ELSE {}

Calls ==
  \* Graph(inputs, (), nodes=ns) for a graph not constructed by the seed
  On("Graph", {[C("Graph") EXCEPT !.g = g, !.names = ins, !.ns = ns] :
       g \in {x \in 1..NG : ~st.built[x]}, ins \in {<<>>, <<None>>, <<"val_0">>},
       ns \in {<<n>> : n \in Detached} \cup {<<y[1], y[2]>> : y \in {z \in Pairs : z[1] \in Detached /\ z[2] \in Detached}}})
  \cup
  \* Node(op, outputs / num_outputs, name=, graph=)
  On("Node", IF Len(st.nName) < MaxNodes
   THEN {[C("Node") EXCEPT !.opt = o, !.name = nm, !.names = OutChoices[k], !.g = g] :
            o \in Ops, nm \in NPool, k \in OutSel, g \in NodeGraphs \cap ({0} \cup Built)}
   ELSE {})
  \cup On("Append", {[C("Append") EXCEPT !.g = g, !.n = n] : g \in OG, n \in N})
  \cup On("Extend", {[C("Extend") EXCEPT !.g = g, !.ns = <<y[1], y[2]>>] : g \in OG, y \in Pairs})
  \cup UNION {On(o, {[C(o) EXCEPT !.g = g, !.n = y[1], !.ns = <<y[2]>>] : g \in OG, y \in Pairs}) :
                 o \in {"InsertBefore", "InsertAfter"}}
  \cup On("Remove", {[C("Remove") EXCEPT !.g = g, !.ns = <<n>>] : g \in OG, n \in N})
  \cup On("SetNodeName", {[C("SetNodeName") EXCEPT !.n = n, !.name = x] : n \in N, x \in SetN})
  \cup On("SetValName", {[C("SetValName") EXCEPT !.v = v, !.name = x] : v \in {w \in V : ~st.vInit[w]}, x \in SetV})

Init == \E id \in Seeds :
          /\ st = ApplyAll(AEmpty(NG), Seed(id))
          /\ hist = [i \in 1..Len(Seed(id)) |-> Compact(Seed(id)[i])]
          /\ last = [c |-> ANoCall, out |-> "init"]

Next == \E c \in Calls :
          LET r == AApply(st, c) IN
          /\ st' = r.s
          /\ last' = [c |-> c, out |-> r.out]
          /\ hist' = Append(hist, Compact(c))

Bound == TLCGet("level") <= MaxDepth + 1

EmitA == EmitOn => PrintT(ToJson([h |-> hist', o |-> last'.out, p |-> AObs(st')]))

InvFresh == AFresh(st)
InvKept == AKept(st)
InvMech == AMech(st)
NeverShrink == [][ANeverShrink(st, st')]_vars
RejectAtomic == [][last'.out # "ok" => AObs(st') = AObs(st)]_vars
=============================================================================
