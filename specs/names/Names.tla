-------------------------------- MODULE Names --------------------------------
(***************************************************************************)
(* C15 - naming in onnx_ir.  Three parts, all written as pure operators    *)
(* (state, arguments) -> state so that the same definitions serve the      *)
(* design models (Names*MC), trace validation (NamesAuthTrace) and the     *)
(* judge that evaluates the post-conditions on observed results            *)
(* (NamesJudge).                                                           *)
(*                                                                         *)
(*  A  name authority  (_name_authority.py, Graph.__init__/append/extend/  *)
(*     insert_*/remove, Node(graph=...))                         prefix A  *)
(*  F  NameFixPass._fix_graph_names  (passes/common/naming.py +            *)
(*     traversal.RecursiveGraphIterator)                         prefix F  *)
(*  R  convenience.rename_values                                 prefix R  *)
(*                                                                         *)
(* Python's None is the string "<none>"; objects are numbered from 1 in    *)
(* creation order; 0 means "no object".                                    *)
(***************************************************************************)
EXTENDS Integers, Sequences, FiniteSets, TLC

None == "<none>"
Blank(x) == x = None \/ x = ""          \* `not name`
SetOfSeq(q) == {q[i] : i \in DOMAIN q}
NInSeq(q, e) == \E i \in DOMAIN q : q[i] = e
Ids(n) == [i \in 1..n |-> i]
RECURSIVE FlatSeq(_)
FlatSeq(qq) == IF qq = <<>> THEN <<>> ELSE Head(qq) \o FlatSeq(Tail(qq))
Injective(q) == \A i, j \in DOMAIN q : i # j => q[i] # q[j]

(***************************************************************************)
(* A. NAME AUTHORITY                                                       *)
(*                                                                         *)
(* Mechanism (hidden in the code): per graph cntV, cntN, seenV, seenN.     *)
(* Ghost: everV, everN = every name the graph has registered or assigned.  *)
(* Step verdicts: fresh (every name generated in the last call was not in  *)
(* the ghost set at the moment it was generated), kept (no explicit name   *)
(* was altered by the last add-like call).                                 *)
(***************************************************************************)
ValGen(k) == "val_" \o ToString(k)
NodeGen(op, k) == "node_" \o op \o "_" \o ToString(k)

\* `while True: name = f"val_{counter}"; counter += 1; if name not in names: return name`
RECURSIVE FirstFreeV(_, _)
FirstFreeV(seen, k) == IF ValGen(k) \in seen THEN FirstFreeV(seen, k + 1) ELSE k
RECURSIVE FirstFreeN(_, _, _)
FirstFreeN(seen, op, k) == IF NodeGen(op, k) \in seen THEN FirstFreeN(seen, op, k + 1) ELSE k

AEmpty(ng) ==
  [ cntV |-> [g \in 1..ng |-> 0], cntN |-> [g \in 1..ng |-> 0],
    seenV |-> [g \in 1..ng |-> {}], seenN |-> [g \in 1..ng |-> {}],
    everV |-> [g \in 1..ng |-> {}], everN |-> [g \in 1..ng |-> {}],
    built |-> [g \in 1..ng |-> FALSE],
    gIn |-> [g \in 1..ng |-> <<>>], gInit |-> [g \in 1..ng |-> <<>>],
    nName |-> <<>>, nOp |-> <<>>, nOuts |-> <<>>, nGraph |-> <<>>,
    vName |-> <<>>, vInit |-> <<>>,
    fresh |-> TRUE, kept |-> TRUE ]

ANoCall == [op |-> "", g |-> 0, n |-> 0, ns |-> <<>>, opt |-> "", name |-> None,
            names |-> <<>>, names2 |-> <<>>, v |-> 0]

AAddOps == {"Graph", "Node", "Append", "Extend", "InsertBefore", "InsertAfter"}

\* what is observable through the public API
AObs(s) == [vName |-> s.vName, nName |-> s.nName, nGraph |-> s.nGraph]

\* register_or_name_value / register_or_name_node for one item it = [k |-> "v"|"n", id |-> _]
ARegItem(s, g, it) ==
  IF it.k = "v"
  THEN LET nm0 == s.vName[it.id] IN
       IF nm0 = None
       THEN LET k == FirstFreeV(s.seenV[g], s.cntV[g])
                nm == ValGen(k)
            IN [s EXCEPT !.vName[it.id] = nm, !.cntV[g] = k + 1, !.seenV[g] = @ \cup {nm},
                         !.fresh = @ /\ (nm \notin s.everV[g]), !.everV[g] = @ \cup {nm}]
       ELSE [s EXCEPT !.seenV[g] = @ \cup {nm0}, !.everV[g] = @ \cup {nm0}]
  ELSE LET nm0 == s.nName[it.id] IN
       IF nm0 = None
       THEN LET k == FirstFreeN(s.seenN[g], s.nOp[it.id], s.cntN[g])
                nm == NodeGen(s.nOp[it.id], k)
            IN [s EXCEPT !.nName[it.id] = nm, !.cntN[g] = k + 1, !.seenN[g] = @ \cup {nm},
                         !.fresh = @ /\ (nm \notin s.everN[g]), !.everN[g] = @ \cup {nm}]
       ELSE [s EXCEPT !.seenN[g] = @ \cup {nm0}, !.everN[g] = @ \cup {nm0}]

RECURSIVE ARegAll(_, _, _)
ARegAll(s, g, items) == IF items = <<>> THEN s ELSE ARegAll(ARegItem(s, g, Head(items)), g, Tail(items))

AVItems(vs) == [i \in 1..Len(vs) |-> [k |-> "v", id |-> vs[i]]]
\* _set_node_graph_to_self_and_assign_names: the node, then its outputs in order
ANodeItems(s, n) == <<[k |-> "n", id |-> n]>> \o AVItems(s.nOuts[n])
ANodesItems(s, ns) == FlatSeq([i \in 1..Len(ns) |-> ANodeItems(s, ns[i])])

\* ---- object creation part of a call (no registration yet) --------------------------------
ACreate(s, c) ==
  LET nv == Len(s.vName) IN
  CASE c.op = "Graph" ->
         LET ni == Len(c.names)
             nw == Len(c.names2)
         IN [s EXCEPT !.vName = @ \o c.names \o c.names2,
                      !.vInit = @ \o [i \in 1..ni |-> FALSE] \o [i \in 1..nw |-> TRUE],
                      !.gIn[c.g] = [i \in 1..ni |-> nv + i],
                      !.gInit[c.g] = [i \in 1..nw |-> nv + ni + i],
                      !.built[c.g] = TRUE]
    [] c.op = "Node" ->
         LET k == Len(c.names) IN
         [s EXCEPT !.vName = @ \o c.names, !.vInit = @ \o [i \in 1..k |-> FALSE],
                   !.nName = Append(@, c.name), !.nOp = Append(@, c.opt),
                   !.nOuts = Append(@, [i \in 1..k |-> nv + i]), !.nGraph = Append(@, 0)]
    [] OTHER -> s

\* nodes a call adds to graph c.g
AAdded(s0, c) ==
  CASE c.op = "Node" -> IF c.g = 0 THEN <<>> ELSE <<Len(s0.nName)>>
    [] c.op \in {"Graph", "Extend", "InsertBefore", "InsertAfter"} -> c.ns
    [] c.op = "Append" -> <<c.n>>
    [] OTHER -> <<>>

\* a ValueError before anything is changed
ARejects(s0, c) ==
  CASE c.op \in {"Append", "Extend", "InsertBefore", "InsertAfter", "Graph", "Node"} ->
         \/ \E i \in DOMAIN AAdded(s0, c) : s0.nGraph[AAdded(s0, c)[i]] \notin {0, c.g}
         \/ (c.op \in {"InsertBefore", "InsertAfter"} /\ s0.nGraph[c.n] # c.g)
    [] c.op = "Remove" -> \E i \in DOMAIN c.ns : s0.nGraph[c.ns[i]] # c.g
    [] OTHER -> FALSE

\* items registered by an accepted call, in the code's order
AItems(s0, c) ==
  IF c.op = "Graph" THEN AVItems(s0.gIn[c.g]) \o AVItems(s0.gInit[c.g]) \o ANodesItems(s0, c.ns)
  ELSE ANodesItems(s0, AAdded(s0, c))

AKeptBetween(s0, s1) ==
  /\ \A v \in DOMAIN s0.vName : s0.vName[v] # None => s1.vName[v] = s0.vName[v]
  /\ \A n \in DOMAIN s0.nName : s0.nName[n] # None => s1.nName[n] = s0.nName[n]

AApply(s, c) ==
  LET sA == [s EXCEPT !.fresh = TRUE, !.kept = TRUE]
      s0 == ACreate(sA, c)
  IN
  IF ARejects(s0, c) THEN [s |-> sA, out |-> "raise"]
  ELSE
  CASE c.op \in AAddOps ->
         LET added == AAdded(s0, c)
             s1 == ARegAll(s0, c.g, AItems(s0, c))
             s2 == [s1 EXCEPT !.nGraph = [m \in DOMAIN @ |-> IF NInSeq(added, m) THEN c.g ELSE @[m]],
                              !.kept = AKeptBetween(s0, s1)]
         IN [s |-> s2, out |-> "ok"]
    [] c.op = "Remove" ->
         [s |-> [sA EXCEPT !.nGraph = [m \in DOMAIN @ |-> IF NInSeq(c.ns, m) THEN 0 ELSE @[m]]], out |-> "ok"]
    [] c.op = "SetNodeName" -> [s |-> [sA EXCEPT !.nName[c.n] = c.name], out |-> "ok"]
    [] c.op = "SetValName" -> [s |-> [sA EXCEPT !.vName[c.v] = c.name], out |-> "ok"]

\* ---- the property (first sentence of C15) and the mechanism invariant ---------------------
AFresh(s) == s.fresh
AKept(s) == s.kept
AMech(s) ==
  \A g \in DOMAIN s.cntV :
     /\ s.everV[g] \subseteq s.seenV[g] /\ s.everN[g] \subseteq s.seenN[g]
     /\ \A k \in 0..(s.cntV[g] - 1) : ValGen(k) \in s.seenV[g]
ANeverShrink(s, t) ==
  \A g \in DOMAIN s.cntV :
     /\ s.seenV[g] \subseteq t.seenV[g] /\ s.seenN[g] \subseteq t.seenN[g]
     /\ s.cntV[g] <= t.cntV[g] /\ s.cntN[g] <= t.cntN[g]

\* ---- the same property evaluated on OBSERVED names only -----------------------------------
\* oe = [v |-> per-graph set, n |-> per-graph set] is the ghost computed from observed names;
\* s0 supplies structure and the names before the call; post is the observed AObs after it.
\* Returns [oe, bad] where bad is the sequence of items whose generated name was not fresh.
RECURSIVE AObsFold(_, _, _, _, _, _)
AObsFold(oe, bad, s0, g, items, post) ==
  IF items = <<>> THEN [oe |-> oe, bad |-> bad]
  ELSE LET it == Head(items)
           pre == IF it.k = "v" THEN s0.vName[it.id] ELSE s0.nName[it.id]
           now == IF it.k = "v" THEN post.vName[it.id] ELSE post.nName[it.id]
           isbad == pre = None /\ (now = None \/ now \in oe[it.k][g])
           oe1 == [oe EXCEPT ![it.k][g] = @ \cup {now}]
       IN AObsFold(oe1, IF isbad THEN Append(bad, <<it.k, it.id, now>>) ELSE bad, s0, g, Tail(items), post)

AObsKept(s0, post) ==
  /\ \A v \in DOMAIN s0.vName : (s0.vName[v] # None /\ v \in DOMAIN post.vName) => post.vName[v] = s0.vName[v]
  /\ \A n \in DOMAIN s0.nName : (s0.nName[n] # None /\ n \in DOMAIN post.nName) => post.nName[n] = s0.nName[n]

(***************************************************************************)
(* F. NAME FIXING                                                          *)
(*                                                                         *)
(* Instance I:                                                             *)
(*   top    "graph" | "function"   kind of graph 1                         *)
(*   nodeG  <<graph of node n>>    nodes of a graph are ordered by id      *)
(*   hold   <<0, h2, ...>>         graph g>1 is a GRAPH attribute of node  *)
(*                                 hold[g] (attributes ordered by g)       *)
(*   vrole  <<[k, g, n]>>          k: "in" | "init" | "ii" (input and      *)
(*                                 initializer) of graph g, or "out" of    *)
(*                                 node n                                  *)
(*   vout   <<BOOLEAN>>            listed in graph.outputs of its graph    *)
(*   vname, nname                  names before the pass                   *)
(* Lists are in id order.  Every node takes as inputs all values visible   *)
(* at its position (so every legal capture of an outer value occurs).      *)
(***************************************************************************)
FNV(I) == Len(I.vrole)
FNN(I) == Len(I.nodeG)
FNG(I) == Len(I.hold)
FHome(I, v) == IF I.vrole[v].k = "out" THEN I.nodeG[I.vrole[v].n] ELSE I.vrole[v].g
FIsInit(I, v) == I.vrole[v].k \in {"init", "ii"}
FInputs(I, g) == SelectSeq(Ids(FNV(I)), LAMBDA v : I.vrole[v].k \in {"in", "ii"} /\ I.vrole[v].g = g)
FOutputs(I, g) == SelectSeq(Ids(FNV(I)), LAMBDA v : I.vout[v] /\ FHome(I, v) = g)
FInits(I, g) == SelectSeq(Ids(FNV(I)), LAMBDA v : FIsInit(I, v) /\ I.vrole[v].g = g)
FNodes(I, g) == SelectSeq(Ids(FNN(I)), LAMBDA n : I.nodeG[n] = g)
FNodeOuts(I, n) == SelectSeq(Ids(FNV(I)), LAMBDA v : I.vrole[v].k = "out" /\ I.vrole[v].n = n)
FSubs(I, n) == SelectSeq(Ids(FNG(I)), LAMBDA h : I.hold[h] = n)
FHasInits(I, g) == ~(g = 1 /\ I.top = "function")     \* isinstance(graph_like, ir.Graph)

\* values of enclosing scopes that a (sorted, valid) model may reference from graph g: inputs and
\* initializers of the enclosing graphs and outputs of enclosing nodes that precede the holder
RECURSIVE FVisible(_, _)
FVisible(I, g) ==
  IF I.hold[g] = 0 THEN {}
  ELSE LET p == I.nodeG[I.hold[g]] IN
       SetOfSeq(FInputs(I, p)) \cup SetOfSeq(FInits(I, p))
         \cup {v \in 1..FNV(I) : I.vrole[v].k = "out" /\ I.nodeG[I.vrole[v].n] = p /\ I.vrole[v].n < I.hold[g]}
         \cup FVisible(I, p)
FOwn(I, g) == SetOfSeq(FInputs(I, g)) \cup SetOfSeq(FInits(I, g))
                \cup {v \in 1..FNV(I) : I.vrole[v].k = "out" /\ I.nodeG[I.vrole[v].n] = g}
FNodeInSet(I, n) ==
  LET g == I.nodeG[n] IN
  SetOfSeq(FInputs(I, g)) \cup SetOfSeq(FInits(I, g))
    \cup {v \in 1..FNV(I) : I.vrole[v].k = "out" /\ I.nodeG[I.vrole[v].n] = g /\ I.vrole[v].n < n}
    \cup FVisible(I, g)
FNodeIns(I, n) == SelectSeq(Ids(FNV(I)), LAMBDA v : v \in FNodeInSet(I, n))

\* ---- the visit program: traversal.RecursiveGraphIterator with the enter/exit callbacks ----
FOps(tag, q) == [i \in 1..Len(q) |-> [op |-> tag, x |-> q[i]]]
\* enter_graph(g): push scopes, then inputs, outputs and (for a Graph) initializers
FEnter(I, g) == <<[op |-> "push", x |-> g]>> \o FOps("val", FInputs(I, g)) \o FOps("val", FOutputs(I, g))
                  \o (IF FHasInits(I, g) THEN FOps("val", FInits(I, g)) ELSE <<>>)
FExit(g) == <<[op |-> "pop", x |-> g]>>
RECURSIVE FWalk(_, _)
RECURSIVE FNodeWalk(_, _)
\* _recursive_node_iter(graph): enter, nodes (each followed by its subgraphs), exit
FWalk(I, g) == FEnter(I, g) \o FlatSeq([i \in 1..Len(FNodes(I, g)) |-> FNodeWalk(I, FNodes(I, g)[i])]) \o FExit(g)
\* loop body for a node (name, inputs, outputs), then _iterate_subgraphs: enter_graph(sub), a NEW
\* RecursiveGraphIterator(sub) which enters sub a second time, exits it, then exit_graph(sub)
FNodeWalk(I, n) ==
  <<[op |-> "nname", x |-> n]>> \o FOps("val", FNodeIns(I, n)) \o FOps("val", FNodeOuts(I, n))
    \o FlatSeq([j \in 1..Len(FSubs(I, n)) |-> FEnter(I, FSubs(I, n)[j]) \o FWalk(I, FSubs(I, n)[j]) \o FExit(FSubs(I, n)[j])])
FProg(I) == FWalk(I, 1)

\* ---- counters: collections.Counter as a set of [b, k] ---------------------------------------
CntOf(c, b) == LET m == {r \in c : r.b = b} IN IF m = {} THEN 0 ELSE (CHOOSE r \in m : TRUE).k
CntSet(c, b, k) == {r \in c : r.b # b} \cup {[b |-> b, k |-> k]}

\* _find_and_record_next_unique_name
RECURSIVE FFindFrom(_, _, _, _)
FFindFrom(pref, used, k, cur) ==
  IF cur \in used THEN FFindFrom(pref, used, k + 1, pref \o "_" \o ToString(k + 1)) ELSE [name |-> cur, k |-> k]
FFind(pref, used, c) == FFindFrom(pref, used, CntOf(c, pref), pref)

FKeys0(I) == [g \in 1..FNG(I) |-> IF FHasInits(I, g)
                                  THEN [i \in 1..Len(FInits(I, g)) |-> <<I.vname[FInits(I, g)[i]], FInits(I, g)[i]>>]
                                  ELSE <<>>]

FInit(I) ==
  [ pc |-> 1, prog |-> FProg(I),
    stV |-> <<{}>>, stN |-> <<{}>>,          \* dummy bottom scopes
    cV |-> {}, cN |-> {}, seen |-> {},
    vname |-> I.vname, nname |-> I.nname, keys |-> FKeys0(I),
    raised |-> FALSE, mod |-> FALSE ]

FDone(s) == s.raised \/ s.pc > Len(s.prog)

\* Value.name = new  (initializer guard, re-keying by pop + insert at the end)
FRename(I, s, v, new) ==
  IF FIsInit(I, v) /\ FHasInits(I, I.vrole[v].g)
  THEN LET g == I.vrole[v].g IN
       IF \E i \in DOMAIN s.keys[g] : s.keys[g][i][1] = new /\ s.keys[g][i][2] # v
       THEN [s EXCEPT !.raised = TRUE]
       ELSE [s EXCEPT !.vname[v] = new, !.seen = @ \cup {v}, !.mod = TRUE,
                      !.keys[g] = SelectSeq(@, LAMBDA e : e[2] # v) \o <<<<new, v>>>>]
  ELSE [s EXCEPT !.vname[v] = new, !.seen = @ \cup {v}, !.mod = TRUE]

\* _process_value
FProcVal(I, s, v) ==
  IF v \in s.seen THEN s
  ELSE LET nm == s.vname[v]
           top == Len(s.stV)
           used == s.stV[top]
       IN IF ~Blank(nm) /\ nm \notin used
          THEN [s EXCEPT !.stV[top] = used \cup {nm}, !.seen = @ \cup {v}]
          ELSE LET pref == IF Blank(nm) THEN "v" ELSE nm
                   r == FFind(pref, used, s.cV)
                   s1 == [s EXCEPT !.stV[top] = used \cup {r.name}, !.cV = CntSet(@, pref, r.k)]
               IN FRename(I, s1, v, r.name)

\* _assign_node_name / _fix_duplicate_node_name
FProcNode(I, s, n) ==
  LET nm == s.nname[n]
      top == Len(s.stN)
      used == s.stN[top]
  IN IF ~Blank(nm) /\ nm \notin used
     THEN [s EXCEPT !.stN[top] = used \cup {nm}]
     ELSE LET pref == IF Blank(nm) THEN "node" ELSE nm
              r == FFind(pref, used, s.cN)
          IN [s EXCEPT !.stN[top] = used \cup {r.name}, !.cN = CntSet(@, pref, r.k),
                       !.nname[n] = r.name, !.mod = TRUE]

FStep(I, s) ==
  LET e == s.prog[s.pc]
      t == CASE e.op = "push" -> [s EXCEPT !.stV = Append(@, @[Len(@)]), !.stN = Append(@, {})]
             [] e.op = "pop" -> [s EXCEPT !.stV = SubSeq(@, 1, Len(@) - 1), !.stN = SubSeq(@, 1, Len(@) - 1)]
             [] e.op = "val" -> FProcVal(I, s, e.x)
             [] e.op = "nname" -> FProcNode(I, s, e.x)
  IN IF t.raised THEN t ELSE [t EXCEPT !.pc = @ + 1]

RECURSIVE FRunFrom(_, _)
FRunFrom(I, s) == IF FDone(s) THEN s ELSE FRunFrom(I, FStep(I, s))
FRun(I) == FRunFrom(I, FInit(I))
FResult(s) == [vname |-> s.vname, nname |-> s.nname, keys |-> s.keys,
               out |-> IF s.raised THEN "raise" ELSE "ok", mod |-> s.mod]

\* NameFixPass.call(model): the main graph and then every function of the model are top levels of
\* their own - each is run with fresh counters, scope stacks and seen set, whatever happened in the
\* tops before it; the pass raises at the first top that raises (later tops untouched) and reports
\* modified iff some top was modified.  tops = <<I_main, I_f1, ...>>.
RECURSIVE FModelFrom(_, _, _)
FModelFrom(tops, k, acc) ==
  IF k > Len(tops) THEN acc
  ELSE LET r == FResult(FRun(tops[k]))
       IN IF r.out = "raise" THEN Append(acc, r)   \* tops k+1.. keep their names
          ELSE FModelFrom(tops, k + 1, Append(acc, r))
FModel(tops) == FModelFrom(tops, 1, <<>>)
FModelModified(tops) == \E k \in DOMAIN FModel(tops) : FModel(tops)[k].mod
FModelRaises(tops) == \E k \in DOMAIN FModel(tops) : FModel(tops)[k].out = "raise"

\* mechanism invariant of the transcription: the scope stacks mirror the nesting and every value
\* seen so far in a still-open scope has its current name recorded in the innermost open scope set
FStackOK(I, s) ==
  /\ Len(s.stV) = Len(s.stN) /\ Len(s.stV) >= 1
  /\ \A i \in 1..(Len(s.stV) - 1) : s.stV[i] \subseteq s.stV[i + 1]     \* a scope starts as a copy of its parent
  /\ (~s.raised /\ s.pc > Len(s.prog)) => (Len(s.stV) = 1 /\ s.stV[1] = {} /\ s.seen = 1..FNV(I))

\* ---- post-conditions of the pass (second sentence of C15) -----------------------------------
\* pre = [vname, nname, sig], post = [vname, nname, keys, sig, out]; sig = digest of everything but names
PNonEmpty(I, post) == (\A v \in 1..FNV(I) : ~Blank(post.vname[v])) /\ (\A n \in 1..FNN(I) : ~Blank(post.nname[n]))
PUniqueInGraph(I, post) ==
  \A g \in 1..FNG(I) : \A v, w \in FOwn(I, g) : v # w => post.vname[v] # post.vname[w]
PVisibleDistinct(I, post) ==
  \A g \in 1..FNG(I) : \A v \in FOwn(I, g) : \A w \in FVisible(I, g) : post.vname[v] # post.vname[w]
PNodeUnique(I, post) ==
  \A g \in 1..FNG(I) : \A n, m \in SetOfSeq(FNodes(I, g)) : n # m => post.nname[n] # post.nname[m]
PInitKeyed(I, post) ==
  \A g \in 1..FNG(I) :
     LET ks == post.keys[g] IN
     /\ \A i \in DOMAIN ks : ks[i][1] = post.vname[ks[i][2]]
     /\ Injective([i \in DOMAIN ks |-> ks[i][1]])
     /\ {ks[i][2] : i \in DOMAIN ks} = (IF FHasInits(I, g) THEN SetOfSeq(FInits(I, g)) ELSE {})
POnlyNames(pre, post) == pre.sig = post.sig
\* weakest reading of "already unique": non-empty and carried by no other value (node) of the whole
\* graph-like that is being fixed, whatever the scope
PKeptV(I, pre, post) ==
  \A v \in 1..FNV(I) :
     (~Blank(pre.vname[v]) /\ \A w \in 1..FNV(I) : w # v => pre.vname[w] # pre.vname[v]) => post.vname[v] = pre.vname[v]
PKeptN(I, pre, post) ==
  \A n \in 1..FNN(I) :
     (~Blank(pre.nname[n]) /\ \A m \in 1..FNN(I) : m # n => pre.nname[m] # pre.nname[n]) => post.nname[n] = pre.nname[n]

FBroken(I, pre, post) ==
  IF post.out # "ok" THEN <<"Completes">>
  ELSE (IF PNonEmpty(I, post) THEN <<>> ELSE <<"NonEmpty">>)
    \o (IF PUniqueInGraph(I, post) THEN <<>> ELSE <<"UniqueInGraph">>)
    \o (IF PVisibleDistinct(I, post) THEN <<>> ELSE <<"VisibleDistinct">>)
    \o (IF PNodeUnique(I, post) THEN <<>> ELSE <<"NodeUnique">>)
    \o (IF PInitKeyed(I, post) THEN <<>> ELSE <<"InitKeyed">>)
    \o (IF POnlyNames(pre, post) THEN <<>> ELSE <<"OnlyNames">>)
    \o (IF PKeptV(I, pre, post) THEN <<>> ELSE <<"UniqueKept:value">>)
    \o (IF PKeptN(I, pre, post) THEN <<>> ELSE <<"UniqueKept:node">>)

(***************************************************************************)
(* R. BULK RENAME  convenience.rename_values(values, names)                *)
(*                                                                         *)
(* State: vname, vinit (graph whose initializer the value is, 0 if none),  *)
(* cname (name of the backing tensor, None when there is none), keys       *)
(* (per graph: the initializer dict as a sequence of <<key, value>>).      *)
(* pairs = <<<<value, name>>, ...>>.  A name None models a non-string.     *)
(* The action validates first (reject => unchanged); an accepted call then *)
(* executes the mechanism (pop all, rename all, re-add all), whose own     *)
(* failure modes are modelled so that TLC checks that validation suffices. *)
(***************************************************************************)
RChecksAll == {"type", "conflict", "empty", "duptarget", "exists"}

\* first occurrences, in order
RECURSIVE ROrdered(_, _)
ROrdered(pairs, done) ==
  IF pairs = <<>> THEN <<>>
  ELSE IF Head(pairs)[1] \in done THEN ROrdered(Tail(pairs), done)
       ELSE <<Head(pairs)>> \o ROrdered(Tail(pairs), done \cup {Head(pairs)[1]})

RWhyNot(s, pairs, checks) ==
  LET ord == ROrdered(pairs, {})
      ip(g) == SelectSeq(ord, LAMBDA p : s.vinit[p[1]] = g)
      rset(g) == {ip(g)[i][1] : i \in DOMAIN ip(g)}
      G == DOMAIN s.keys
  IN
  IF "type" \in checks /\ \E i \in DOMAIN pairs : pairs[i][2] = None THEN "type"
  ELSE IF "conflict" \in checks /\ \E i, j \in DOMAIN pairs : i < j /\ pairs[i][1] = pairs[j][1] /\ pairs[i][2] # pairs[j][2]
  THEN "conflict"
  ELSE IF "empty" \in checks /\ \E g \in G : \E i \in DOMAIN ip(g) : ip(g)[i][2] = "" THEN "empty"
  ELSE IF "duptarget" \in checks /\ \E g \in G : \E i, j \in DOMAIN ip(g) : i # j /\ ip(g)[i][2] = ip(g)[j][2] THEN "duptarget"
  ELSE IF "exists" \in checks /\ \E g \in G : \E i \in DOMAIN ip(g) : \E j \in DOMAIN s.keys[g] :
            /\ s.keys[g][j][1] = ip(g)[i][2]
            /\ s.keys[g][j][2] # ip(g)[i][1]
            /\ s.keys[g][j][2] \notin rset(g)
  THEN "exists"
  ELSE "ok"

\* mechanism, one primitive at a time; a state with out # "ok" is a late failure (partial effects)
RPop(r, v) ==
  IF r.out # "ok" THEN r
  ELSE LET g == r.s.vinit[v] IN
       IF ~\E j \in DOMAIN r.s.keys[g] : r.s.keys[g][j][1] = r.s.vname[v]
       THEN [r EXCEPT !.out = "late:KeyError"]
       ELSE LET old == (CHOOSE j \in DOMAIN r.s.keys[g] : r.s.keys[g][j][1] = r.s.vname[v]) IN
            [r EXCEPT !.s.vinit[r.s.keys[g][old][2]] = 0,
                      !.s.keys[g] = SelectSeq(@, LAMBDA e : e[1] # r.s.vname[v])]
RSet(r, v, nm) ==
  IF r.out # "ok" THEN r
  ELSE [r EXCEPT !.s.vname[v] = nm, !.s.cname[v] = IF @ = None THEN None ELSE nm]
\* graph.initializers.add(value): empty key rejected; an existing key is silently replaced in place
RAdd(r, g, v) ==
  IF r.out # "ok" THEN r
  ELSE LET nm == r.s.vname[v] IN
       IF nm = "" THEN [r EXCEPT !.out = "late:ValueError"]
       ELSE IF \E j \in DOMAIN r.s.keys[g] : r.s.keys[g][j][1] = nm
       THEN LET j == CHOOSE j \in DOMAIN r.s.keys[g] : r.s.keys[g][j][1] = nm IN
            [r EXCEPT !.s.vinit[r.s.keys[g][j][2]] = 0, !.s.vinit[v] = g, !.s.keys[g][j] = <<nm, v>>]
       ELSE [r EXCEPT !.s.vinit[v] = g, !.s.keys[g] = Append(@, <<nm, v>>)]

RECURSIVE RFoldPop(_, _)
RFoldPop(r, q) == IF q = <<>> THEN r ELSE RFoldPop(RPop(r, Head(q)[1]), Tail(q))
RECURSIVE RFoldSet(_, _)
RFoldSet(r, q) == IF q = <<>> THEN r ELSE RFoldSet(RSet(r, Head(q)[1], Head(q)[2]), Tail(q))
RECURSIVE RFoldAdd(_, _)
RFoldAdd(r, q) == IF q = <<>> THEN r ELSE RFoldAdd(RAdd(r, Head(q)[2], Head(q)[1]), Tail(q))

\* graphs in order of first appearance (dict insertion order of initializer_pairs_by_graph)
RECURSIVE RGraphOrder(_, _, _)
RGraphOrder(s, ord, done) ==
  IF ord = <<>> THEN <<>>
  ELSE LET g == s.vinit[Head(ord)[1]] IN
       IF g = 0 \/ g \in done THEN RGraphOrder(s, Tail(ord), done)
       ELSE <<g>> \o RGraphOrder(s, Tail(ord), done \cup {g})

RRename(s, pairs, checks) ==
  LET why == RWhyNot(s, pairs, checks) IN
  IF why # "ok" THEN [s |-> s, out |-> "reject:" \o why]
  ELSE LET ord == ROrdered(pairs, {})
           go == RGraphOrder(s, ord, {})
           \* <<value, graph>> of the renamed initializers, grouped by graph
           iv == FlatSeq([x \in 1..Len(go) |->
                    LET q == SelectSeq(ord, LAMBDA p : s.vinit[p[1]] = go[x]) IN [i \in 1..Len(q) |-> <<q[i][1], go[x]>>]])
           r1 == RFoldPop([s |-> s, out |-> "ok"], iv)
           r2 == RFoldSet(r1, ord)
       IN RFoldAdd(r2, iv)

RKeysOK(s) ==
  \A g \in DOMAIN s.keys :
     /\ \A i \in DOMAIN s.keys[g] : s.keys[g][i][1] = s.vname[s.keys[g][i][2]] /\ s.vinit[s.keys[g][i][2]] = g
     /\ Injective([i \in DOMAIN s.keys[g] |-> s.keys[g][i][1]])
     /\ {s.keys[g][i][2] : i \in DOMAIN s.keys[g]} = {v \in DOMAIN s.vinit : s.vinit[v] = g}

\* the property (third sentence of C15) on any before/after pair, modelled or observed
RAllOrNothing(pre, pairs, post, out) ==
  \/ /\ out = "ok"
     /\ \A i \in DOMAIN pairs : post.vname[pairs[i][1]] = pairs[i][2]
     /\ post.vinit = pre.vinit
     /\ RKeysOK(post)
  \/ /\ out # "ok"
     /\ post = pre
=============================================================================
