\* the validation without the "an initializer outside the renamed set holds the name" check:
\* TLC must report InvAllOrNothing violated (the mechanism silently replaces the bystander)
CONSTANTS
  NVals = 3
  Targets = {"a", "b"}
  CurNames = {"a", "b"}
  LongDistinct = TRUE
  MaxPairs = 1
  InitGraphs = {0, 1}
  TensorChoices = {FALSE}
  Checks = {"type", "conflict", "empty", "duptarget"}
  EmitOn = FALSE
SPECIFICATION Spec
INVARIANT InvAllOrNothing
CHECK_DEADLOCK FALSE
