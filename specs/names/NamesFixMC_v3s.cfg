\* thorough: three scopes (sibling subgraphs, nesting depth 3)
CONSTANTS
  Layouts = {20, 21, 22, 23}
  Tops = {"graph", "function"}
  Family = "value"
  MinV = 1
  MaxV = 3
  Kinds = {"in", "init", "ii", "out"}
  OutKinds = {"out"}
  VPoolB = {"<none>", "v", "v_1"}
  NPoolB = {"n"}
  SmallStep = FALSE
  EmitOn = TRUE
SPECIFICATION Spec
INVARIANT Emit
INVARIANT InvStack
CHECK_DEADLOCK FALSE
