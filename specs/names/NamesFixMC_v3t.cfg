\* thorough: as v3 with the empty string in the pool
CONSTANTS
  Layouts = {0, 1, 2, 3, 5, 6, 7, 8, 9}
  Tops = {"graph", "function"}
  Family = "value"
  MinV = 1
  MaxV = 3
  Kinds = {"in", "init", "ii", "out"}
  OutKinds = {"out", "init"}
  VPoolB = {"<none>", "", "v", "v_1"}
  NPoolB = {"n"}
  SmallStep = FALSE
  EmitOn = TRUE
SPECIFICATION Spec
INVARIANT Emit
INVARIANT InvStack
CHECK_DEADLOCK FALSE
