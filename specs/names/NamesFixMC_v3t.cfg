CONSTANTS
  Layouts = {0, 1, 2, 3, 5, 6, 7, 8, 9, 20, 21, 22, 23}
  Tops = {"graph", "function"}
  Family = "value"
  MinV = 1
  MaxV = 3
  Kinds = {"in", "init", "ii", "out"}
  OutKinds = {"out", "init", "in", "ii"}
  VPoolB = {"<none>", "", "v", "v_1", "w"}
  NPoolB = {"n"}
  SmallStep = FALSE
  EmitOn = TRUE
SPECIFICATION Spec
INVARIANT Emit
INVARIANT InvStack
CHECK_DEADLOCK FALSE
