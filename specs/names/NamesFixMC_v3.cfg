\* quick: value family, 1..3 values, all two-scope layouts, graph and function tops
CONSTANTS
  Layouts = {0, 1, 2, 3, 5, 6, 7, 8}
  Tops = {"graph", "function"}
  Family = "value"
  MinV = 1
  MaxV = 3
  Kinds = {"in", "init", "ii", "out"}
  OutKinds = {"out", "init"}
  VPoolB = {"<none>", "v", "v_1"}
  NPoolB = {"n"}
  SmallStep = FALSE
  EmitOn = TRUE
SPECIFICATION Spec
INVARIANT Emit
INVARIANT InvStack
CHECK_DEADLOCK FALSE
