\* quick: node family, 1..3 nodes over all layouts, node names vary
CONSTANTS
  Layouts = {1, 3, 4, 5, 6, 7, 8, 9, 10, 11}
  Tops = {"graph", "function"}
  Family = "node"
  MinV = 0
  MaxV = 0
  Kinds = {"in"}
  OutKinds = {}
  VPoolB = {"v"}
  NPoolB = {"<none>", "", "node", "node_1"}
  SmallStep = TRUE
  EmitOn = TRUE
SPECIFICATION Spec
INVARIANT Emit
INVARIANT InvStack
CHECK_DEADLOCK FALSE
