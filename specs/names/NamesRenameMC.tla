---------------------------- MODULE NamesRenameMC ----------------------------
(***************************************************************************)
(* Part C design model: convenience.rename_values on every small instance. *)
(* Init enumerates the objects (3 values, initializers of graph 1 / 2 or   *)
(* not, current names, backed by a tensor or not); the single step applies *)
(* one call rename_values(values, names) for EVERY assignment of at most   *)
(* MaxPairs (value, name) pairs (swaps, 3-cycles, duplicates, "",          *)
(* conflicting duplicates, non-strings).  The step is validation +         *)
(* mechanism (Names!RRename); AllOrNothing is an invariant of the model:   *)
(* TLC checks that the validation makes the mechanism atomic.  Every       *)
(* explored call is printed and replayed on real objects.                  *)
(***************************************************************************)
EXTENDS Names, Json

CONSTANTS NVals, Targets, CurNames, MaxPairs, LongDistinct, InitGraphs, TensorChoices, Checks, EmitOn

VARIABLES pre, call, post, out
vars == <<pre, call, post, out>>

Start(vi, vn, vc) ==
  [vname |-> vn, vinit |-> vi, cname |-> [v \in 1..NVals |-> IF vc[v] \/ vi[v] # 0 THEN vn[v] ELSE None],
   keys |-> [g \in 1..2 |-> LET q == SelectSeq(Ids(NVals), LAMBDA v : vi[v] = g) IN [i \in 1..Len(q) |-> <<vn[q[i]], q[i]>>]]]

Init ==
  /\ \E vi \in [1..NVals -> InitGraphs], vn \in [1..NVals -> CurNames], vc \in [1..NVals -> TensorChoices] :
        \* initializers of one graph are dict entries: distinct names; canonical: value 1 is called "a";
        \* only non-initializers vary in having a tensor (initializers always have one here)
        /\ \A v, w \in 1..NVals : (v < w /\ vi[v] # 0 /\ vi[v] = vi[w]) => vn[v] # vn[w]
        /\ vn[1] = "a"
        /\ \A v \in 1..NVals : (vi[v] # 0 => ~vc[v]) /\ (v > 1 => ~vc[v])
        /\ \A v \in 1..NVals : vi[v] = 2 => v = NVals
        /\ pre = Start(vi, vn, vc)
  /\ call = <<>> /\ post = pre /\ out = "init"

\* LongDistinct: sequences of 3 and more pairs name pairwise different values (permutations, cycles);
\* shorter ones are arbitrary (duplicates and conflicting duplicates included)
PairSeqs == {ps \in UNION {[1..m -> (1..NVals) \X Targets] : m \in 1..MaxPairs} :
               (LongDistinct /\ Len(ps) >= 3) => \A i, j \in DOMAIN ps : i # j => ps[i][1] # ps[j][1]}

Next ==
  /\ out = "init"
  /\ \E ps \in PairSeqs :
        LET r == RRename(pre, ps, Checks) IN
        /\ call' = ps
        /\ post' = r.s
        /\ out' = r.out
  /\ UNCHANGED pre

Spec == Init /\ [][Next]_vars

Emit == (EmitOn /\ out # "init") => PrintT(ToJson(<<pre, call, post, out>>))

InvAllOrNothing == out # "init" => RAllOrNothing(pre, call, post, IF out = "ok" THEN "ok" ELSE "raise")
InvKeys == RKeysOK(pre) /\ (out = "ok" => RKeysOK(post))
=============================================================================
