CONSTANTS
  NG = 2
  VPool = {"<none>", "a", "val_0", "val_1"}
  NPool = {"<none>", "node_Op_0"}
  InPool = {"<none>", "val_0"}
  InitPool = {"val_1"}
  Ops = {"Op"}
  SetV = {"<none>", "val_2"}
  SetN = {"<none>", "node_Op_1"}
  MaxNodes = 2
  MaxOuts = 2
  MaxIns = 1
  MaxDepth = 5
  EmitOn = TRUE
INIT Init
NEXT Next
VIEW View
CONSTRAINT Bound
ACTION_CONSTRAINT EmitA
INVARIANT InvFresh
INVARIANT InvKept
INVARIANT InvMech
PROPERTY NeverShrink
PROPERTY RejectAtomic
