CONSTANTS
  NVals = 3
  Targets = {"a", "b", "c", ""}
  CurNames = {"a", "b", "c"}
  LongDistinct = TRUE
  MaxPairs = 3
  InitGraphs = {0, 1, 2}
  TensorChoices = {FALSE}
  Checks = {"type", "conflict", "empty", "duptarget", "exists"}
  EmitOn = TRUE
SPECIFICATION Spec
INVARIANT Emit
INVARIANT InvAllOrNothing
INVARIANT InvKeys
CHECK_DEADLOCK FALSE
