\* quick: value family, exactly 4 values, flat graph and graph with a one-node subgraph
CONSTANTS
  Layouts = {0, 3}
  Tops = {"graph"}
  Family = "value"
  MinV = 4
  MaxV = 4
  Kinds = {"in", "init", "out"}
  OutKinds = {"out"}
  VPoolB = {"<none>", "v", "v_1"}
  NPoolB = {"n"}
  SmallStep = FALSE
  EmitOn = TRUE
SPECIFICATION Spec
INVARIANT Emit
INVARIANT InvStack
CHECK_DEADLOCK FALSE
