--------------------------- MODULE NamesAuthTrace ---------------------------
(***************************************************************************)
(* Trace validation (code -> specification) for the name authority.        *)
(*                                                                         *)
(* TRACE_FILE: {"ng": n, "traces": [[{"c": <call>, "out": "ok"|"raise",    *)
(*                                    "post": <AObs after the call>}]]}    *)
(* recorded from real ir.Graph / ir.Function objects, one event per call.  *)
(*                                                                         *)
(* For every trace the model is stepped along the logged calls; an event   *)
(* conforms when outcome and observable names equal the model's.           *)
(* Independently, the property is evaluated BY TLC ON THE OBSERVED NAMES:   *)
(* the ghost set oe (every name the graph registered or assigned) is       *)
(* rebuilt from the observed names of the items each add-like call         *)
(* registers; a name that appears on a previously unnamed item must not be *)
(* in oe (Fresh), and no item that had a name may change it (Kept).        *)
(* Reports (JSON):  ["acc",tid]  ["div",tid,l]  ["fresh",tid,l,items]      *)
(*                  ["kept",tid,l]                                         *)
(***************************************************************************)
EXTENDS Names, Json, IOUtils

Data == JsonDeserialize(IOEnv.TRACE_FILE)
Traces == Data.traces
NGr == Data.ng

VARIABLES tid, l, st, oe, conf, rep
vars == <<tid, l, st, oe, conf, rep>>

CallOf(t) == [op |-> t[1], g |-> t[2], n |-> t[3], ns |-> t[4], opt |-> t[5], name |-> t[6],
              names |-> t[7], names2 |-> t[8], v |-> t[9]]
T == Traces[tid]

Oe0 == [v |-> [g \in 1..NGr |-> {}], n |-> [g \in 1..NGr |-> {}]]

Init == /\ tid \in 1..Len(Traces)
        /\ l = 1
        /\ st = AEmpty(NGr)
        /\ oe = Oe0
        /\ conf = TRUE
        /\ rep = <<>>

\* judgement of event e against the (conforming) model pre-state: uses the model only for structure
\* and for the names before the call; everything judged is observed
Judge(e) ==
  LET c == CallOf(e.c)
      s0 == ACreate(st, c)
      items == IF e.out = "ok" /\ c.op \in AAddOps THEN AItems(s0, c) ELSE <<>>
      f == AObsFold(oe, <<>>, s0, c.g, items, e.post)
      keptOK == (c.op \in AAddOps) => AObsKept(IF e.out = "ok" THEN s0 ELSE st, e.post)
  IN [oe |-> f.oe, bad |-> f.bad, kept |-> keptOK]

Next ==
  /\ l <= Len(T)
  /\ conf
  /\ LET e == T[l]
         r == AApply(st, CallOf(e.c))
         j == Judge(e)
         ok == (e.out = r.out) /\ AObs(r.s) = e.post
     IN /\ conf' = ok
        /\ st' = IF ok THEN r.s ELSE st
        /\ oe' = j.oe
        /\ rep' = (IF j.bad # <<>> THEN <<<<"fresh", tid, l, j.bad>>>> ELSE <<>>)
                    \o (IF ~j.kept THEN <<<<"kept", tid, l>>>> ELSE <<>>)
                    \o (IF ~ok THEN <<<<"div", tid, l>>>> ELSE <<>>)
                    \o (IF ok /\ l = Len(T) THEN <<<<"acc", tid>>>> ELSE <<>>)
  /\ l' = l + 1
  /\ UNCHANGED tid

Spec == Init /\ [][Next]_vars

\* evaluated once per distinct state; always TRUE, reports through PrintT
Report == \A i \in DOMAIN rep : PrintT(ToJson(rep[i]))

\* while a trace conforms the model state is a state of the design: its invariants hold, and the
\* ghost rebuilt from observations is the model's ghost
MechOK == conf => (AMech(st) /\ AFresh(st) /\ AKept(st) /\ oe.v = st.everV /\ oe.n = st.everN)
=============================================================================
