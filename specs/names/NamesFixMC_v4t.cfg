\* thorough: exactly 4 values, all two-scope layouts
CONSTANTS
  Layouts = {0, 1, 2, 3, 5, 6, 7, 8}
  Tops = {"graph", "function"}
  Family = "value"
  MinV = 4
  MaxV = 4
  Kinds = {"in", "init", "ii", "out"}
  OutKinds = {"out", "init"}
  VPoolB = {"<none>", "v", "v_1"}
  NPoolB = {"n"}
  SmallStep = FALSE
  EmitOn = TRUE
SPECIFICATION Spec
INVARIANT Emit
INVARIANT InvStack
CHECK_DEADLOCK FALSE
