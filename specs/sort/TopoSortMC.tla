----------------------------- MODULE TopoSortMC -----------------------------
(***************************************************************************)
(* Enumeration (or random generation, with -simulate) of TopoSort          *)
(* instances.  An instance is built stepwise so that the work is spread    *)
(* over TLC's workers and, under -simulate, a random walk is a random      *)
(* instance:                                                               *)
(*   Random = FALSE: Init picks a shape of TopoSortGen!Shapes, Choose      *)
(*     picks the inputs of node 1, 2, ... (exhaustive enumeration);        *)
(*   Random = TRUE : Init picks the numbers of nodes and graphs, Grow      *)
(*     assigns the nodes to graphs, Owners picks the owners of the nested  *)
(*     graphs, Place builds a permutation of the nodes (the initial        *)
(*     orders), Choose picks the inputs.                                   *)
(* The step Sort then evaluates the algorithm for every start graph and    *)
(* keeps the results in the state, on which the theorems are invariants.   *)
(* Sort prints   [gOf, owner, order, ins, res]   (res[r] = the orders of   *)
(* all graphs after sorting graph r, or 0 when a cycle is reported) as     *)
(* one JSON line; the harness rebuilds the instance with real onnx_ir      *)
(* objects and compares.                                                   *)
(***************************************************************************)
EXTENDS TopoSortGen, TLC, Json

CONSTANTS AllRoots,   \* TRUE: sort from every graph of the forest, FALSE: only from graph 1
          Random,
          EmitOn

VARIABLES inst, phase, perm, k, done, res, fails
vars == <<inst, phase, perm, k, done, res, fails>>

Roots(I) == IF AllRoots THEN GraphsOf(I) ELSE {1}

Init == /\ IF Random
           THEN /\ k \in MinN..MaxN             \* the number of nodes, until phase "ins"
                /\ \E ng \in 1..MaxG :
                     /\ k = 0 => ng = 1
                     /\ inst = [gOf |-> <<>>, owner |-> [g \in 1..ng |-> 0],
                                order |-> [g \in 1..ng |-> <<>>], ins |-> <<>>]
                /\ phase = "grow"
           ELSE /\ inst \in Shapes
                /\ k = 0
                /\ phase = "ins"
        /\ perm = <<>>
        /\ done = FALSE
        /\ res = <<>>
        /\ fails = <<>>

\* node Len(gOf)+1 goes to some graph (node 1 to the outermost graph, which may not stay empty)
Grow == /\ phase = "grow"
        /\ IF Len(inst.gOf) < k
           THEN /\ \E g \in GraphsOf(inst) :
                     inst' = [inst EXCEPT !.gOf = Append(@, IF Len(inst.gOf) = 0 THEN 1 ELSE g)]
                /\ phase' = phase
           ELSE /\ phase' = "owners"
                /\ inst' = inst
        /\ UNCHANGED <<perm, k, done, res, fails>>

Owners == /\ phase = "owners"
          /\ \E o \in OwnersFor(k, Len(inst.owner)) :
               LET J == [inst EXCEPT !.owner = o] IN
               /\ \A g \in 2..Len(o) : J.gOf[o[g]] # g /\ GDepth(J, g) <= MaxDepth
               /\ inst' = [J EXCEPT !.ins = [i \in 1..k |-> <<>>]]
          /\ phase' = "place"
          /\ UNCHANGED <<perm, k, done, res, fails>>

Place == /\ phase = "place"
         /\ IF Len(perm) = Len(inst.gOf)
            THEN /\ inst' = [inst EXCEPT !.order = [g \in GraphsOf(inst) |->
                                                      SelectSeq(perm, LAMBDA x : inst.gOf[x] = g)]]
                 /\ phase' = "ins"
                 /\ k' = 0
                 /\ perm' = perm
            ELSE /\ \E x \in NodesOf(inst) \ TsRange(perm) : perm' = Append(perm, x)
                 /\ UNCHANGED <<inst, phase, k>>
         /\ UNCHANGED <<done, res, fails>>

Choose == /\ phase = "ins"
          /\ k < Len(inst.gOf)
          /\ \E s \in InSeqs(inst, k + 1) : inst' = [inst EXCEPT !.ins[k + 1] = s]
          /\ k' = k + 1
          /\ UNCHANGED <<phase, perm, done, res, fails>>

Out(R) == IF R.ok THEN R.order ELSE 0

\* res[r]   = SortedAt(inst, r)
\* fails[r] = the clauses of the property that res[r] does not satisfy (must be none)
Sort == /\ phase = "ins"
        /\ k = Len(inst.gOf)
        /\ ~done
        /\ res' = [r \in Roots(inst) |-> SortedAt(inst, r)]
        /\ LET A == Analysis(inst)
           IN fails' = [r \in Roots(inst) |->
                          FailedA(inst, A, r, res'[r])
                          \o (IF res'[r].ok <=> ~CyclicA(inst, A, r) THEN <<>> ELSE <<"CycleExact">>)]
        /\ done' = TRUE
        /\ EmitOn => PrintT(ToJson(<<inst.gOf, inst.owner, inst.order, inst.ins,
                                     [r \in Roots(inst) |-> Out(res'[r])]>>))
        /\ UNCHANGED <<inst, phase, perm, k>>

Next == Grow \/ Owners \/ Place \/ Choose \/ Sort
Spec == Init /\ [][Next]_vars

\* ---- theorems about the algorithm, for every instance and every start graph ------------
Failed(c) == \E r \in DOMAIN fails : c \in TsRange(fails[r])
InvWellFormed  == phase = "ins" => WellFormed(inst)
InvTopo        == ~Failed("Topo")
InvOwnNodes    == ~Failed("OwnNodes")
InvStable      == ~Failed("Stable")
InvCycleAtomic == ~Failed("CycleAtomic")
\* the algorithm reports a cycle exactly when the dependencies are cyclic ...
InvCycleExact  == ~Failed("CycleExact")
\* ... and never touches a graph outside the subtree it was started on
InvScope       == done => \A r \in Roots(inst) :
                            \A g \in GraphsOf(inst) \ Scope(inst, r) : res[r].order[g] = inst.order[g]
\* sorting twice changes nothing the second time (consequence of Topo + Stable)
InvIdempotent  == done => \A r \in Roots(inst) :
                            res[r].ok => SortedAt([inst EXCEPT !.order = res[r].order], r) = res[r]
\* reference characterisations
InvRefGlobal   == done => \A r \in Roots(inst) : RefGlobal(inst, r) = res[r]
\* (holds up to 3 nodes only - see the comment at TopoSort!RefPerGraph; listed in the <=3 cfgs)
InvRefPerGraph == done => \A r \in Roots(inst) : RefPerGraph(inst, r) = res[r]
InvCyclicDef   == done => \A r \in Roots(inst) : Cyclic(inst, r) <=> ~HasTopoOrder(inst, r)
=============================================================================
