----------------------------- MODULE TopoSortMC -----------------------------
(***************************************************************************)
(* Enumeration (or random generation, with -simulate) of TopoSort          *)
(* instances.  An instance is built stepwise - shape, then the inputs of   *)
(* node 1, 2, ... - so that the work is spread over TLC's workers; the     *)
(* step Sort then evaluates the algorithm for every start graph and keeps  *)
(* the results in the state, on which the theorems are invariants.         *)
(* Sort prints   [gOf, owner, order, ins, res]   (res[r] = the orders of   *)
(* all graphs after sorting graph r, or 0 when a cycle is reported) as     *)
(* one JSON line; the harness rebuilds the instance with real onnx_ir      *)
(* objects and compares.                                                   *)
(***************************************************************************)
EXTENDS TopoSortGen, TLC, Json

CONSTANTS AllRoots,   \* TRUE: sort from every graph of the forest, FALSE: only from graph 1
          CheckRef,   \* TRUE: also check the reference characterisations (small scope)
          EmitOn

VARIABLES inst, k, done, res
vars == <<inst, k, done, res>>

Roots(I) == IF AllRoots THEN GraphsOf(I) ELSE {1}

Init == /\ inst \in Shapes
        /\ k = 0
        /\ done = FALSE
        /\ res = <<>>

Choose == /\ k < Len(inst.gOf)
          /\ \E s \in InSeqs(inst, k + 1) : inst' = [inst EXCEPT !.ins[k + 1] = s]
          /\ k' = k + 1
          /\ UNCHANGED <<done, res>>

Out(R) == IF R.ok THEN R.order ELSE 0

Sort == /\ k = Len(inst.gOf)
        /\ ~done
        /\ res' = [r \in Roots(inst) |-> SortedAt(inst, r)]
        /\ done' = TRUE
        /\ EmitOn => PrintT(ToJson(<<inst.gOf, inst.owner, inst.order, inst.ins,
                                     [r \in Roots(inst) |-> Out(res'[r])]>>))
        /\ UNCHANGED <<inst, k>>

Next == Choose \/ Sort
Spec == Init /\ [][Next]_vars

\* ---- theorems about the algorithm, for every instance and every start graph ------------
InvWellFormed  == WellFormed(inst)
InvTopo        == done => \A r \in Roots(inst) : PTopo(inst, r, res[r])
InvOwnNodes    == done => \A r \in Roots(inst) : POwnNodes(inst, r, res[r])
InvStable      == done => \A r \in Roots(inst) : PStable(inst, r, res[r])
InvCycleAtomic == done => \A r \in Roots(inst) : PCycleAtomic(inst, r, res[r])
\* the algorithm reports a cycle exactly when the dependencies are cyclic, and never touches a
\* graph outside the subtree it was started on
InvCycleExact  == done => \A r \in Roots(inst) :
                            /\ res[r].ok <=> ~Cyclic(inst, r)
                            /\ \A g \in GraphsOf(inst) \ Scope(inst, r) : res[r].order[g] = inst.order[g]
\* sorting twice changes nothing the second time (consequence of Topo + Stable)
InvIdempotent  == done => \A r \in Roots(inst) :
                            res[r].ok => SortedAt([inst EXCEPT !.order = res[r].order], r) = res[r]
\* reference characterisations
InvRefGlobal   == (done /\ CheckRef) => \A r \in Roots(inst) : RefGlobal(inst, r) = res[r]
InvRefPerGraph == (done /\ CheckRef) => \A r \in Roots(inst) : RefPerGraph(inst, r) = res[r]
InvCyclicDef   == (done /\ CheckRef) => \A r \in Roots(inst) : Cyclic(inst, r) <=> ~HasTopoOrder(inst, r)
=============================================================================
