---------------------------- MODULE TopoSortSteps ----------------------------
(***************************************************************************)
(* Graph.sort as a step-wise action system (documentation and cross-check  *)
(* of the one-shot operator SortedAt of TopoSort.tla on the small scope).  *)
(* One action per block of the method, one step per loop iteration:        *)
(*                                                                         *)
(*   Gen, Call  choose the instance and the graph sort() is called on       *)
(*   Collect    nodes = list(RecursiveGraphIterator(self)); the dicts      *)
(*   AddPreds   one iteration of "for node in nodes" (inputs, then graph   *)
(*              attributes): node_predecessors[node], node_depth[p] += 1   *)
(*   Heapify    priority_queue = nodes of depth 0                          *)
(*   Pop        one iteration of "while priority_queue"                    *)
(*   Check      num_of_sorted_nodes != len(nodes) -> ValueError            *)
(*   Relink     one iteration of "for graph, sorted_nodes in               *)
(*              sorted_nodes_by_graph.items()" - the dict is keyed by a    *)
(*              set comprehension, so ANY order of the graphs is possible  *)
(*                                                                         *)
(* `order` is the only variable standing for state of the library (the     *)
(* node lists of the graphs); everything else is local to the call.        *)
(***************************************************************************)
EXTENDS TopoSortGen, TLC

CONSTANT AllRoots

VARIABLES I, r,          \* the instance and the graph sort() is called on
          pc,
          order,         \* node lists of all graphs
          L, idx,        \* nodes, position of each node in it
          P, depth,      \* node_predecessors, node_depth
          kk,            \* loop counter of the predecessor loop
          heap,          \* content of priority_queue
          by, cnt,       \* sorted_nodes_by_graph, num_of_sorted_nodes
          todo,          \* keys of sorted_nodes_by_graph not yet re-linked
          outcome        \* "none" | "ok" | "ValueError"
vars == <<I, r, pc, order, L, idx, P, depth, kk, heap, by, cnt, todo, outcome>>

\* the instance is generated stepwise (shape, then the inputs of node 1, 2, ...) as in TopoSortMC
Init == /\ I \in Shapes
        /\ r = 0
        /\ pc = "gen"
        /\ order = I.order
        /\ L = <<>> /\ idx = <<>> /\ P = <<>> /\ depth = <<>> /\ kk = 0
        /\ heap = {} /\ by = <<>> /\ cnt = 0 /\ todo = {} /\ outcome = "none"

Gen == /\ pc = "gen"
       /\ kk < Len(I.gOf)
       /\ \E s \in InSeqs(I, kk + 1) : I' = [I EXCEPT !.ins[kk + 1] = s]
       /\ kk' = kk + 1
       /\ UNCHANGED <<r, pc, order, L, idx, P, depth, heap, by, cnt, todo, outcome>>

Call == /\ pc = "gen"
        /\ kk = Len(I.gOf)
        /\ r' \in (IF AllRoots THEN GraphsOf(I) ELSE {1})
        /\ pc' = "collect"
        /\ UNCHANGED <<I, order, L, idx, P, depth, kk, heap, by, cnt, todo, outcome>>

Collect == /\ pc = "collect"
           /\ L' = IterGraph([I EXCEPT !.order = order], r)
           /\ idx' = IndexOf(L')
           /\ P' = [n \in TsRange(L') |-> <<>>]
           /\ depth' = [n \in TsRange(L') |-> 0]
           /\ by' = [g \in {I.gOf[n] : n \in TsRange(L')} |-> <<>>]
           /\ kk' = 1
           /\ pc' = "preds"
           /\ UNCHANGED <<I, r, order, heap, cnt, todo, outcome>>

\* add_predecessor for every entry of s, in order
RECURSIVE AddAll(_, _, _, _)
AddAll(st, child, s, j) ==     \* st = [P, depth]
  IF j > Len(s) THEN st
  ELSE IF s[j] \notin DOMAIN st.depth THEN AddAll(st, child, s, j + 1)
  ELSE AddAll([P |-> [st.P EXCEPT ![child] = Append(@, s[j])],
               depth |-> [st.depth EXCEPT ![s[j]] = @ + 1]], child, s, j + 1)

AddPreds == /\ pc = "preds"
            /\ kk <= Len(L)
            /\ LET n    == L[kk]
                   subs == SubgraphsOf(I, n)
                   st1  == AddAll([P |-> P, depth |-> depth], n, I.ins[n], 1)
                   st2  == AddAll(st1, n, TsFlat([j \in DOMAIN subs |-> order[subs[j]]]), 1)
               IN P' = st2.P /\ depth' = st2.depth
            /\ kk' = kk + 1
            /\ UNCHANGED <<I, r, pc, order, L, idx, heap, by, cnt, todo, outcome>>

Heapify == /\ pc = "preds"
           /\ kk > Len(L)
           /\ heap' = {n \in TsRange(L) : depth[n] = 0}
           /\ pc' = "pop"
           /\ UNCHANGED <<I, r, order, L, idx, P, depth, kk, by, cnt, todo, outcome>>

Pop == /\ pc = "pop"
       /\ heap # {}
       /\ LET cur == HeapTop(heap, idx)
              rel == Release([depth |-> depth, heap |-> heap \ {cur}], P[cur], 1)
          IN /\ by' = [by EXCEPT ![I.gOf[cur]] = Append(@, cur)]
             /\ depth' = rel.depth
             /\ heap' = rel.heap
       /\ cnt' = cnt + 1
       /\ UNCHANGED <<I, r, pc, order, L, idx, P, kk, todo, outcome>>

Check == /\ pc = "pop"
         /\ heap = {}
         /\ IF cnt # Len(L)
            THEN outcome' = "ValueError" /\ pc' = "done" /\ todo' = todo
            ELSE outcome' = outcome /\ pc' = "relink" /\ todo' = DOMAIN by
         /\ UNCHANGED <<I, r, order, L, idx, P, depth, kk, heap, by, cnt>>

Relink == /\ pc = "relink"
          /\ \E g \in todo :
               /\ order' = [order EXCEPT ![g] = ExtendWith(@, TsRev(by[g]), 1)]
               /\ todo' = todo \ {g}
          /\ UNCHANGED <<I, r, pc, L, idx, P, depth, kk, heap, by, cnt, outcome>>

Return == /\ pc = "relink"
          /\ todo = {}
          /\ outcome' = "ok"
          /\ pc' = "done"
          /\ UNCHANGED <<I, r, order, L, idx, P, depth, kk, heap, by, cnt, todo>>

Done == pc = "done" /\ UNCHANGED vars      \* so that a deadlock = a call that cannot finish

Next == Gen \/ Call \/ Collect \/ AddPreds \/ Heapify \/ Pop \/ Check \/ Relink \/ Return \/ Done
Spec == Init /\ [][Next]_vars

\* ---- what TLC checks ------------------------------------------------------------------
\* the call returns exactly what the one-shot operator says, whatever the order of the re-linking
FinalIsSorted == pc = "done" => Result(outcome = "ok", order) = SortedAt(I, r)
\* nothing is re-linked before the cycle check has passed; an error leaves every order untouched
AtomicUntilChecked == /\ pc \notin {"gen", "relink", "done"} => order = I.order
                      /\ outcome = "ValueError" => order = I.order
\* the data built by the first loop is what the one-shot operator uses
PredsAreSpec == pc = "pop" /\ cnt = 0 =>
                  /\ P = PredLists(I, L)
                  /\ depth = DepthOf(P, L)
\* counters never go below zero, a queued node has no pending user, no node is queued twice
HeapOK == pc = "pop" =>
            /\ \A n \in TsRange(L) : depth[n] \in Nat
            /\ \A n \in heap : depth[n] = 0 /\ \A g \in DOMAIN by : n \notin TsRange(by[g])
            /\ cnt = Len(TsFlat([j \in 1..Len(I.owner) |-> IF j \in DOMAIN by THEN by[j] ELSE <<>>]))
\* a result satisfies the property
FinalHolds == pc = "done" => Holds(I, r, Result(outcome = "ok", order))
=============================================================================
