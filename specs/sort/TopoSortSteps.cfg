CONSTANTS
  MinN = 0
  MaxN = 3
  MaxG = 3
  MaxDepth = 2
  MaxIn = 2
  InOrdered = TRUE
  OrderMode = "canon"
  Acyclic = FALSE
  AllRoots = TRUE
SPECIFICATION Spec
CHECK_DEADLOCK TRUE
INVARIANT FinalIsSorted
INVARIANT AtomicUntilChecked
INVARIANT PredsAreSpec
INVARIANT HeapOK
INVARIANT FinalHolds
