CONSTANTS
  MinN = 4
  MaxN = 4
  MaxG = 3
  MaxDepth = 2
  MaxIn = 2
  InOrdered = FALSE
  OrderMode = "canon"
  Acyclic = FALSE
  AllRoots = TRUE
  Random = FALSE
  EmitOn = TRUE
INIT Init
NEXT Next
CHECK_DEADLOCK FALSE
INVARIANT InvTopo
INVARIANT InvOwnNodes
INVARIANT InvStable
INVARIANT InvCycleAtomic
INVARIANT InvCycleExact
INVARIANT InvScope
