CONSTANTS
  MinN = 5
  MaxN = 7
  MaxG = 3
  MaxDepth = 2
  MaxIn = 1
  InOrdered = TRUE
  OrderMode = "canon"
  Acyclic = FALSE
  AllRoots = TRUE
  Random = TRUE
  EmitOn = TRUE
INIT Init
NEXT Next
CHECK_DEADLOCK FALSE
INVARIANT InvTopo
INVARIANT InvOwnNodes
INVARIANT InvStable
INVARIANT InvCycleAtomic
INVARIANT InvCycleExact
INVARIANT InvScope
INVARIANT InvIdempotent
INVARIANT InvRefGlobal
