CONSTANTS
  MinN = 0
  MaxN = 3
  MaxG = 3
  MaxDepth = 2
  MaxIn = 2
  InOrdered = FALSE
  OrderMode = "canon"
  Acyclic = FALSE
  AllRoots = FALSE
SPECIFICATION Spec
CHECK_DEADLOCK TRUE
INVARIANT FinalIsSorted
INVARIANT AtomicUntilChecked
INVARIANT PredsAreSpec
INVARIANT HeapOK
INVARIANT FinalHolds
