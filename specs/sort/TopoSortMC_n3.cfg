CONSTANTS
  MinN = 0
  MaxN = 3
  MaxG = 3
  MaxDepth = 2
  MaxIn = 2
  Canon = FALSE
  AllRoots = TRUE
  CheckRef = TRUE
  EmitOn = TRUE
INIT Init
NEXT Next
CHECK_DEADLOCK FALSE
INVARIANT InvWellFormed
INVARIANT InvTopo
INVARIANT InvOwnNodes
INVARIANT InvStable
INVARIANT InvCycleAtomic
INVARIANT InvCycleExact
INVARIANT InvIdempotent
INVARIANT InvRefGlobal
INVARIANT InvRefPerGraph
INVARIANT InvCyclicDef
