CONSTANTS
  MinN = 0
  MaxN = 3
  MaxG = 3
  MaxDepth = 2
  MaxIn = 2
  InOrdered = TRUE
  OrderMode = "all"
  Acyclic = FALSE
  AllRoots = TRUE
  Random = FALSE
  EmitOn = TRUE
INIT Init
NEXT Next
CHECK_DEADLOCK FALSE
INVARIANT InvTopo
INVARIANT InvOwnNodes
INVARIANT InvStable
INVARIANT InvCycleAtomic
INVARIANT InvCycleExact
INVARIANT InvScope
INVARIANT InvIdempotent
INVARIANT InvRefGlobal
INVARIANT InvCyclicDef
INVARIANT InvRefPerGraph
