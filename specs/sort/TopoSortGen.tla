----------------------------- MODULE TopoSortGen -----------------------------
(***************************************************************************)
(* Complete generator of TopoSort instances up to a bound.                 *)
(*                                                                         *)
(* A SHAPE is an instance without inputs: the number of nodes, the         *)
(* partition of the nodes into <= MaxG graphs, the node owning each nested *)
(* graph (nesting depth <= MaxDepth) and the node order of every graph.    *)
(* OrderMode = "all"  : every assignment of the labelled nodes to graphs   *)
(*   and every permutation of every graph (the literal enumeration).       *)
(* OrderMode = "canon": one representative per isomorphism class of shapes *)
(*   - the nodes are labelled in recursive-iterator order (order[g]        *)
(*   ascending); "every permutation" is then covered by letting the use    *)
(*   edges range over all possibilities.                                   *)
(* OrderMode = "asc"  : labelled nodes, ascending orders only (the random  *)
(*   generator of TopoSortMC permutes them afterwards).                    *)
(* Graph labels carry no information except the attribute order of two     *)
(* graphs owned by the same node; the other symmetric duplicates are cut.  *)
(* Inputs: for every node every sequence of <= MaxIn producers among the   *)
(* nodes of its own graph and of the enclosing graphs (self loops, cycles, *)
(* cycles through subgraphs and repeated inputs included).                 *)
(* InOrdered = FALSE keeps one representative per multiset of inputs.      *)
(* Acyclic = TRUE keeps only the inputs that respect the node labels read  *)
(* as ranks (a producer has a smaller label than the user, or than the     *)
(* node of the producer's graph that encloses the user): every instance    *)
(* generated is acyclic, and every acyclic instance is generated up to     *)
(* relabelling.                                                            *)
(***************************************************************************)
EXTENDS TopoSort

CONSTANTS MinN, MaxN,     \* number of nodes
          MaxG,           \* number of graphs (<= 3)
          MaxDepth,       \* nesting depth (<= 2)
          MaxIn,          \* inputs with a producer per node
          InOrdered,      \* TRUE: every input SEQUENCE; FALSE: every input MULTISET (non-decreasing
                          \* sequences; the order of the inputs is then chosen by the concretiser)
          OrderMode,      \* "all" | "canon" | "asc"
          Acyclic

ASSUME /\ MaxG \in 1..3 /\ MaxDepth \in 0..2 /\ MinN \in Nat /\ MaxN \in Nat
       /\ OrderMode \in {"all", "canon", "asc"} /\ InOrdered \in BOOLEAN /\ Acyclic \in BOOLEAN

Canon == OrderMode = "canon"

OwnersFor(n, ng) == {o \in [1..ng -> 0..n] : o[1] = 0 /\ \A g \in 2..ng : o[g] >= 1}

OrdersFor(n, ng, gOf) ==
  IF OrderMode # "all" THEN {[g \in 1..ng |-> SelectSeq(TsIota(n), LAMBDA x : gOf[x] = g)]}
  ELSE {[g \in 1..ng |-> SelectSeq(p, LAMBDA x : gOf[x] = g)] : p \in TsPerms(1..n)}

ShapeOK(I) ==
  LET ng == Len(I.owner) IN
  /\ \A g \in 2..ng : I.gOf[I.owner[g]] # g /\ GDepth(I, g) <= MaxDepth
  \* graph labels: a graph of depth 2 is graph 3; two graphs of the outermost graph owned by
  \* different nodes are numbered by their owners
  /\ ng >= 2 => I.gOf[I.owner[2]] = 1
  /\ (ng = 3 /\ I.gOf[I.owner[3]] = 1 /\ I.owner[2] # I.owner[3]) => I.owner[2] < I.owner[3]
  /\ Canon => IterGraph(I, 1) = TsIota(Len(I.gOf))

ShapesN(n) ==
  {I \in UNION {UNION {UNION {
        {[gOf |-> gOf, owner |-> owner, order |-> order, ins |-> [i \in 1..n |-> <<>>]]
           : order \in OrdersFor(n, ng, gOf)}
        : owner \in OwnersFor(n, ng)}
        : gOf \in [1..n -> 1..ng]}
        : ng \in 1..MaxG}
     : ShapeOK(I)}

Shapes == UNION {ShapesN(n) : n \in MinN..MaxN}

\* the node of graph g that is, or encloses, node m
RECURSIVE Lift(_, _, _)
Lift(I, m, g) == IF I.gOf[m] = g THEN m ELSE Lift(I, I.owner[I.gOf[m]], g)

Producers(I, n) ==
  IF Acyclic THEN {p \in Visible(I, n) : p < Lift(I, n, I.gOf[p])} ELSE Visible(I, n)

InSeqs(I, n) ==
  LET all == UNION {[1..l -> Producers(I, n)] : l \in 0..MaxIn}
  IN IF InOrdered THEN all ELSE {s \in all : \A i \in 1..(Len(s) - 1) : s[i] <= s[i + 1]}

\* all instances (used only on the small scope; the model checker builds them stepwise instead)
RECURSIVE WithIns(_, _)
WithIns(Is, n) ==
  IF Is = {} \/ n > Len((CHOOSE I \in Is : TRUE).gOf) THEN Is
  ELSE WithIns(UNION {{[I EXCEPT !.ins[n] = s] : s \in InSeqs(I, n)} : I \in Is}, n + 1)
AllInstances == UNION {WithIns(ShapesN(n), 1) : n \in MinN..MaxN}
=============================================================================
