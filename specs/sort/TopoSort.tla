------------------------------ MODULE TopoSort ------------------------------
(***************************************************************************)
(* Graph.sort of onnx_ir (src/onnx_ir/_core.py), property C12.             *)
(*                                                                         *)
(* An INSTANCE is a forest of graphs with their node lists and the         *)
(* producer of every node input:                                           *)
(*   I.gOf   : Seq(graph)      gOf[n]   = graph that directly holds node n *)
(*                             (nodes are 1..Len(I.gOf))                   *)
(*   I.owner : Seq(node | 0)   owner[g] = node holding graph g in a graph  *)
(*                             attribute; 0 for graph 1, the outermost one *)
(*                             (graphs are 1..Len(I.owner)); when a node   *)
(*                             owns several graphs their attribute order   *)
(*                             is the order of the graph ids               *)
(*   I.order : Seq(Seq(node))  order[g] = list(graph g) before the call    *)
(*   I.ins   : Seq(Seq(node))  ins[n]   = producers of the inputs of n, in *)
(*                             input order, one entry per input occurrence *)
(*                             (None inputs and inputs without a producer  *)
(*                             in the forest are concretisation detail:    *)
(*                             the algorithm skips them; so are CONSUMERS  *)
(*                             outside the forest - a node in no graph of  *)
(*                             the forest that still uses an output of a   *)
(*                             node of the forest constrains nothing)      *)
(* A node may use values produced in its own graph or in any enclosing     *)
(* graph (ONNX scoping); sorting may start at any graph r of the forest    *)
(* (then the producers outside r's subtree are "outside the sorted set").  *)
(*                                                                         *)
(* This module is constant-level: the algorithm as ONE recursive operator  *)
(* SortedAt(I, r), transcribed statement by statement from Graph.sort, the *)
(* five clauses of the property as predicates over (instance, result), and *)
(* two reference characterisations.  TopoSortSteps.tla gives the same      *)
(* algorithm as a step-wise action system; TopoSortMC.tla enumerates       *)
(* instances; TopoSortTrace.tla evaluates the clauses on results observed  *)
(* from the real library.                                                  *)
(***************************************************************************)
EXTENDS Naturals, Sequences, FiniteSets

NodesOf(I)  == 1..Len(I.gOf)
GraphsOf(I) == 1..Len(I.owner)

\* ---- small sequence helpers (own names: community modules are on the classpath) ---------
TsRange(s) == {s[i] : i \in DOMAIN s}
TsRev(s) == [i \in 1..Len(s) |-> s[Len(s) + 1 - i]]
TsPos(s, x) == CHOOSE i \in DOMAIN s : s[i] = x
TsInj(s) == \A i, j \in DOMAIN s : s[i] = s[j] => i = j
TsIota(k) == [i \in 1..k |-> i]
RECURSIVE TsFlat(_)
TsFlat(ss) == IF ss = <<>> THEN <<>> ELSE Head(ss) \o TsFlat(Tail(ss))

\* ---- structure of the forest ---------------------------------------------------------
NodesIn(I, g) == {n \in NodesOf(I) : I.gOf[n] = g}
Parent(I, g) == I.gOf[I.owner[g]]                      \* g # 1

\* nesting depth of graph g (graph 1 has depth 0); >= 99 when the ownership chain does not reach 1
RECURSIVE GDepthF(_, _, _)
GDepthF(I, g, fuel) ==
  IF g = 1 THEN 0
  ELSE IF fuel = 0 \/ I.owner[g] \notin NodesOf(I) THEN 99
  ELSE 1 + GDepthF(I, Parent(I, g), fuel - 1)
GDepth(I, g) == GDepthF(I, g, Len(I.owner))

\* g and all graphs enclosing it (well-formed instances only)
RECURSIVE AncGraphs(_, _)
AncGraphs(I, g) == IF g = 1 THEN {1} ELSE {g} \cup AncGraphs(I, Parent(I, g))

\* r and all graphs nested in it = the graphs visited by sorting graph r
Scope(I, r) == {g \in GraphsOf(I) : r \in AncGraphs(I, g)}
\* the graph attributes of node n, in attribute order
SubgraphsOf(I, n) == SelectSeq(TsIota(Len(I.owner)), LAMBDA g : I.owner[g] = n)
\* n and every node nested anywhere inside n
Nest(I, n) == {n} \cup {m \in NodesOf(I) : \E g \in AncGraphs(I, I.gOf[m]) : I.owner[g] = n}
\* producers a node may legally refer to
Visible(I, n) == {p \in NodesOf(I) : I.gOf[p] \in AncGraphs(I, I.gOf[n])}

WellFormed(I) ==
  /\ Len(I.owner) >= 1 /\ I.owner[1] = 0
  /\ Len(I.order) = Len(I.owner) /\ Len(I.ins) = Len(I.gOf)
  /\ \A n \in NodesOf(I) : I.gOf[n] \in GraphsOf(I)
  /\ \A g \in GraphsOf(I) : g # 1 => I.owner[g] \in NodesOf(I) /\ GDepth(I, g) < 99
  /\ \A g \in GraphsOf(I) : TsInj(I.order[g]) /\ TsRange(I.order[g]) = NodesIn(I, g)
  /\ \A n \in NodesOf(I) : TsRange(I.ins[n]) \subseteq Visible(I, n)

(***************************************************************************)
(* THE ALGORITHM, as Graph.sort implements it.                             *)
(***************************************************************************)

\* (0) traversal.RecursiveGraphIterator(graph): a node, then the nodes of its graph attributes in
\*     attribute order, depth first
RECURSIVE IterGraph(_, _), IterNodes(_, _, _), IterSubs(_, _)
IterGraph(I, g) == IterNodes(I, I.order[g], 1)
IterNodes(I, s, k) ==
  IF k > Len(s) THEN <<>>
  ELSE <<s[k]>> \o IterSubs(I, SubgraphsOf(I, s[k])) \o IterNodes(I, s, k + 1)
IterSubs(I, gs) == IF gs = <<>> THEN <<>> ELSE IterGraph(I, Head(gs)) \o IterSubs(I, Tail(gs))

\* nodes = list(RecursiveGraphIterator(self)); neg_node_index = {node: -i}
NodeList(I, r) == IterGraph(I, r)
IndexOf(L) == [n \in TsRange(L) |-> TsPos(L, n) - 1]

\* (1) node_predecessors[n]: producers of the inputs (those in `nodes`), one entry per occurrence,
\*     then every node directly contained in a graph attribute of n
PredList(I, S, n) ==
  SelectSeq(I.ins[n], LAMBDA p : p \in S)
  \o SelectSeq(TsFlat([k \in DOMAIN SubgraphsOf(I, n) |-> I.order[SubgraphsOf(I, n)[k]]]),
               LAMBDA p : p \in S)
PredLists(I, L) == [n \in TsRange(L) |-> PredList(I, TsRange(L), n)]

\*     node_depth[p] += 1 per entry
RECURSIVE AddEntries(_, _, _)
AddEntries(d, s, k) == IF k > Len(s) THEN d ELSE AddEntries([d EXCEPT ![s[k]] = @ + 1], s, k + 1)
RECURSIVE BuildDepth(_, _, _, _)
BuildDepth(d, P, L, k) ==
  IF k > Len(L) THEN d ELSE BuildDepth(AddEntries(d, P[L[k]], 1), P, L, k + 1)
DepthOf(P, L) == BuildDepth([n \in TsRange(L) |-> 0], P, L, 1)

\* (2) heapq on (-index, node): the heap is abstracted to its content, heappop = largest index
HeapTop(heap, idx) == CHOOSE x \in heap : \A y \in heap : idx[y] <= idx[x]

\* (3) for predecessor_node in node_predecessors[current]: depth -= 1; push when it reaches 0
\*     (depths are kept in Nat: an entry is only ever released after having been counted)
RECURSIVE Release(_, _, _)
Release(st, s, k) ==
  IF k > Len(s) THEN st
  ELSE LET p  == s[k]
           d1 == st.depth[p] - 1
       IN Release([depth |-> [st.depth EXCEPT ![p] = d1],
                   heap  |-> IF d1 = 0 THEN st.heap \cup {p} ELSE st.heap], s, k + 1)

\*     while priority_queue: pop, append to sorted_nodes_by_graph[node.graph], release predecessors
RECURSIVE PopLoop(_, _, _, _)
PopLoop(I, P, idx, st) ==   \* st = [heap, depth, by (graph -> popped nodes), cnt]
  IF st.heap = {} THEN st
  ELSE LET cur == HeapTop(st.heap, idx)
           rel == Release([depth |-> st.depth, heap |-> st.heap \ {cur}], P[cur], 1)
       IN PopLoop(I, P, idx, [heap |-> rel.heap, depth |-> rel.depth,
                              by |-> [st.by EXCEPT ![I.gOf[cur]] = Append(@, cur)],
                              cnt |-> st.cnt + 1])

\* (5) graph.extend(nodes): a node that is already in the list is moved to the end
MoveToEnd(ord, n) == SelectSeq(ord, LAMBDA x : x # n) \o <<n>>
RECURSIVE ExtendWith(_, _, _)
ExtendWith(ord, s, k) == IF k > Len(s) THEN ord ELSE ExtendWith(MoveToEnd(ord, s[k]), s, k + 1)

Result(ok, order) == [ok |-> ok, order |-> order]

SortedAt(I, r) ==
  LET L    == NodeList(I, r)
      S    == TsRange(L)
      idx  == IndexOf(L)
      P    == PredLists(I, L)
      d0   == DepthOf(P, L)
      fin  == PopLoop(I, P, idx, [heap  |-> {n \in S : d0[n] = 0},
                                  depth |-> d0,
                                  by    |-> [g \in GraphsOf(I) |-> <<>>],
                                  cnt   |-> 0])
  IN \* (4) cycle check BEFORE any relinking
     IF fin.cnt # Len(L) THEN Result(FALSE, I.order)
     ELSE Result(TRUE, [g \in GraphsOf(I) |->
                          IF fin.by[g] = <<>> THEN I.order[g]      \* not a key of sorted_nodes_by_graph
                          ELSE ExtendWith(I.order[g], TsRev(fin.by[g]), 1)])

Sorted(I) == SortedAt(I, 1)

(***************************************************************************)
(* THE PROPERTY (C12), clause by clause, over an instance I, the graph r   *)
(* on which sort() was called and a result R = [ok, order].                *)
(* The dependency analysis of an instance (A == Analysis(I)) is computed   *)
(* once and passed around; the plain operators below take it implicitly.   *)
(***************************************************************************)

\* dependencies inside graph g: p must precede n when n, or a node nested anywhere inside n, uses a
\* value produced by p (p, n both directly in g)
DepOf(I, g) ==
  LET S    == NodesIn(I, g)
      used == [n \in S |-> UNION {TsRange(I.ins[m]) : m \in Nest(I, n)}]
  IN {e \in S \X S : e[1] \in used[e[2]]}

\* transitive closure of a relation over the nodes listed in s (Warshall)
RECURSIVE TsClose(_, _, _)
TsClose(R, s, k) ==
  IF k > Len(s) THEN R
  ELSE TsClose(R \cup {e \in TsRange(s) \X TsRange(s) : <<e[1], s[k]>> \in R /\ <<s[k], e[2]>> \in R},
               s, k + 1)
CyclicRel(D, s) == \E e \in TsClose(D, s, 1) : e[1] = e[2]

Analysis(I) ==
  LET dep == [g \in GraphsOf(I) |-> DepOf(I, g)]
  IN [dep |-> dep,
      cyc |-> [g \in GraphsOf(I) |-> CyclicRel(dep[g], I.order[g])]]

TopoRel(D, ord) == \A e \in D : TsPos(ord, e[1]) < TsPos(ord, e[2])
TopoA(I, A, r, order) == \A g \in Scope(I, r) : TopoRel(A.dep[g], order[g])
CyclicA(I, A, r) == \E g \in Scope(I, r) : A.cyc[g]

OwnNodes(I, order) ==
  /\ Len(order) = Len(I.order)
  /\ \A g \in GraphsOf(I) :
        /\ Len(order[g]) = Len(I.order[g])
        /\ TsRange(order[g]) = NodesIn(I, g)

\* "every node comes after the producers, located in the same graph, of every value used by it or
\*  by any node nested inside it" (sorting succeeds whenever such an order exists)
PTopoA(I, A, r, R) == (~CyclicA(I, A, r)) => (R.ok /\ OwnNodes(I, R.order) /\ TopoA(I, A, r, R.order))
\* "each graph keeps exactly its own nodes"
POwnNodes(I, r, R) == OwnNodes(I, R.order)
\* "a graph already in such an order is left exactly as it was"
PStableA(I, A, r, R) == TopoA(I, A, r, I.order) => (R.ok /\ R.order = I.order)
\* "if the dependencies contain a cycle a ValueError is raised and no graph's order changes"
PCycleAtomicA(I, A, r, R) == /\ CyclicA(I, A, r) => ~R.ok
                             /\ ~R.ok => R.order = I.order
\* (Determ - the result is a function of structure and previous order - holds of SortedAt by
\*  construction; for the code it is checked on repeated observations in TopoSortTrace.)

FailedA(I, A, r, R) ==
  LET own == POwnNodes(I, r, R) IN
     (IF own THEN <<>> ELSE <<"OwnNodes">>)
  \o (IF own /\ ~PTopoA(I, A, r, R) THEN <<"Topo">> ELSE <<>>)
  \o (IF own /\ ~PStableA(I, A, r, R) THEN <<"Stable">> ELSE <<>>)
  \o (IF PCycleAtomicA(I, A, r, R) THEN <<>> ELSE <<"CycleAtomic">>)

\* the same without an explicit analysis
Topo(I, r, order)     == TopoA(I, Analysis(I), r, order)
Cyclic(I, r)          == CyclicA(I, Analysis(I), r)
PTopo(I, r, R)        == PTopoA(I, Analysis(I), r, R)
PStable(I, r, R)      == PStableA(I, Analysis(I), r, R)
PCycleAtomic(I, r, R) == PCycleAtomicA(I, Analysis(I), r, R)
FailedClauses(I, r, R) == FailedA(I, Analysis(I), r, R)
Holds(I, r, R) == FailedClauses(I, r, R) = <<>>

(***************************************************************************)
(* REFERENCE CHARACTERISATIONS.                                            *)
(* TakeLast: repeatedly take, among the not yet taken elements of S all of *)
(* whose successors are taken, the one with the largest key.               *)
(***************************************************************************)
RECURSIVE TakeLast(_, _, _, _)
TakeLast(S, succ, key, taken) ==
  LET done  == TsRange(taken)
      avail == {n \in S \ done : succ[n] \subseteq done}
  IN IF avail = {} THEN taken
     ELSE TakeLast(S, succ, key, Append(taken, CHOOSE x \in avail : \A y \in avail : key[y] <= key[x]))

\* (a) global: over the recursive-iterator list, successors = users and the enclosing node, no
\*     counters, no heap; then each graph's taken nodes reversed
RefGlobal(I, r) ==
  LET L     == NodeList(I, r)
      S     == TsRange(L)
      succ  == [n \in S |-> {m \in S : n \in TsRange(I.ins[m]) \/ I.owner[I.gOf[n]] = m}]
      taken == TakeLast(S, succ, [n \in S |-> TsPos(L, n)], <<>>)
  IN IF Len(taken) # Len(L) THEN Result(FALSE, I.order)
     ELSE Result(TRUE, [g \in GraphsOf(I) |->
                          IF g \in Scope(I, r)
                          THEN TsRev(SelectSeq(taken, LAMBDA n : I.gOf[n] = g)) ELSE I.order[g]])

\* (b) per graph, independently of every other graph: repeatedly take the LAST node of the graph's
\*     own previous order none of whose dependants (DepOf) remains; reverse.
\*     NOT A THEOREM.  RefPerGraph = SortedAt holds for every instance with <= 3 nodes (TLC,
\*     InvRefPerGraph) and whenever there is a single graph, but TLC refutes it with 4 nodes:
\*       order = <<<<3, 1, 2>>, <<4>>>>, node 3 owns graph 2, ins[3] = <<1, 1>>, ins[4] = <<2, 2>>
\*       SortedAt gives <<2, 1, 3>> for graph 1, RefPerGraph gives <<1, 2, 3>>.
\*     Nodes 1 and 2 do not depend on each other, yet their order is swapped: node 2 is released
\*     by the nested node 4, which is queued after the enclosing node 3 has already released
\*     node 1.  Both results satisfy the property (the clause Stable only speaks about orders that
\*     are already topological); the operator is kept as the "ideal" stable order for comparison.
RefGraph(I, g) ==
  LET S    == NodesIn(I, g)
      D    == DepOf(I, g)
      succ == [p \in S |-> {n \in S : <<p, n>> \in D}]
  IN TakeLast(S, succ, [n \in S |-> TsPos(I.order[g], n)], <<>>)
RefPerGraph(I, r) ==
  LET ref == [g \in GraphsOf(I) |-> IF g \in Scope(I, r) THEN RefGraph(I, g) ELSE I.order[g]]
  IN IF \E g \in Scope(I, r) : Len(ref[g]) # Len(I.order[g]) THEN Result(FALSE, I.order)
     ELSE Result(TRUE, [g \in GraphsOf(I) |-> IF g \in Scope(I, r) THEN TsRev(ref[g]) ELSE I.order[g]])

\* a Topo order exists (used to cross-check the definition of Cyclic on the small scope)
RECURSIVE TsPerms(_)
TsPerms(S) == IF S = {} THEN {<<>>} ELSE UNION {{<<x>> \o p : p \in TsPerms(S \ {x})} : x \in S}
HasTopoOrder(I, r) ==
  \A g \in Scope(I, r) : \E ord \in TsPerms(NodesIn(I, g)) : TopoRel(DepOf(I, g), ord)
=============================================================================
