---------------------------- MODULE TopoSortTrace ----------------------------
(***************************************************************************)
(* Validation (code -> specification) of results OBSERVED on the real      *)
(* onnx_ir library.  The file named by the environment variable OBS_FILE   *)
(* holds  {"obs": [ [gOf, owner, order, ins, r, runs], ... ]}  where       *)
(*   gOf, owner, order, ins  the instance that was built with real objects *)
(*   r                       the graph on which sort() was called          *)
(*   runs                    [api, run, outcome, after] for every          *)
(*                           execution (Graph.sort, Function.sort, the     *)
(*                           pass; fresh objects every time): outcome is   *)
(*                           "ok" | "ValueError" | "other:<Type>", after   *)
(*                           the node lists of all graphs after the call   *)
(* For every observation TLC evaluates the clauses of the property on the  *)
(* observed result and prints                                              *)
(*   ["v", id, wellformed, determ, [failed clauses per run], [conforms     *)
(*    per run]]                                                            *)
(* determ   = all executions of this instance gave the same result         *)
(* conforms = the observed result is exactly SortedAt(instance, r)         *)
(* A failed clause is a violation of C12; a non-conforming result that     *)
(* satisfies every clause is only a divergence from the model.             *)
(***************************************************************************)
EXTENDS TopoSort, TLC, Json, IOUtils

Data == JsonDeserialize(IOEnv.OBS_FILE)
Obs == Data.obs

VARIABLES id, judged
vars == <<id, judged>>

InstOf(o) == [gOf |-> o[1], owner |-> o[2], order |-> o[3], ins |-> o[4]]
Observed(run) == Result(run[3] = "ok", run[4])

\* the orders the code left behind are lists of node ids, one list per graph
Shaped(I, run) == /\ Len(run[4]) = Len(I.order)
                  /\ \A g \in DOMAIN run[4] : \A i \in DOMAIN run[4][g] : run[4][g][i] \in Nat

Verdict(o) ==
  LET I    == InstOf(o)
      r    == o[5]
      runs == o[6]
      wf   == WellFormed(I) /\ r \in GraphsOf(I)
      A    == Analysis(I)
      S    == SortedAt(I, r)
  IN IF ~wf THEN <<"v", id, FALSE, TRUE, <<>>, <<>>>>
     ELSE <<"v", id, TRUE,
            \A i, j \in DOMAIN runs : runs[i][3] = runs[j][3] /\ runs[i][4] = runs[j][4],
            [j \in DOMAIN runs |->
               IF ~Shaped(I, runs[j]) THEN <<"OwnNodes">>
               ELSE FailedA(I, A, r, Observed(runs[j]))
                    \o (IF runs[j][3] \in {"ok", "ValueError"} THEN <<>> ELSE <<"ExceptionType">>)],
            [j \in DOMAIN runs |-> Observed(runs[j]) = S]>>

Init == id \in 1..Len(Obs) /\ judged = FALSE

Judge == /\ ~judged
         /\ judged' = TRUE
         /\ PrintT(ToJson(Verdict(Obs[id])))
         /\ UNCHANGED id

Next == Judge
Spec == Init /\ [][Next]_vars
=============================================================================
