\* focus: node list of a graph: append/extend/insert/remove/move, node construction into a graph
CONSTANTS
  NG = 2
  InitNames <- Names4
  InitConsts <- Consts4
  NamePool = {"a", "b"}
  Focus = {"NodePrepend","NodeAppend","GAppend","GExtend","GInsertBefore","GInsertAfter","GRemove","NewNode"}
  SeedIds = {1,3,4}
  OpGraphs = {1}
  ForeignOps = {"GAppend"}
  PairVals = {1,2,5}
  MaxVals = 7
  MaxNodes = 3
  MaxLen = 2
  MaxDepth = 3
  EmitOn = TRUE
INIT Init
NEXT Next
VIEW View
CONSTRAINT Bound
INVARIANT EmitState
INVARIANT InvUseDef
INVARIANT InvProducerOK
INVARIANT InvNodeGraphOK
INVARIANT InvFlagsOK
INVARIANT InvInitKeyOK
INVARIANT InvNoProducer
INVARIANT InvCountOK
INVARIANT InvOwnerOK
PROPERTY RejectAtomic
