SPECIFICATION Spec
INVARIANT Report
INVARIANT MechOK
ACTION_CONSTRAINT ReportDiv
CHECK_DEADLOCK FALSE
