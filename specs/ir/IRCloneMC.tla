------------------------------ MODULE IRCloneMC ------------------------------
(***************************************************************************)
(* Clone at any reachable state, then any edit history on either copy.     *)
(* Same emission scheme as IRGraphMC (EmitState as INVARIANT).             *)
(***************************************************************************)
EXTENDS IRClone, Json

CONSTANTS SeedIds, Focus, MaxGraphs, MaxDepth, EditVals, EditNodes, EmitOn

Names4  == <<"a", "b", "a", "<none>">>
Consts4 == <<TRUE, TRUE, FALSE, TRUE>>

VARIABLES st, last, hist
vars == <<st, last, hist>>

C(op) == [NoCall EXCEPT !.op = op]

\* nested capture, sorted: g1(in v1, init v2): n1(v1,v2)->o5 ; n2(o5)->o6 carrying subgraph g2: n3(o5, v1)->o7, out o7 ; out o6
SeedA ==
  << [C("IOAppend") EXCEPT !.k = "in", !.g = 1, !.v = 1],
     [C("InitAdd") EXCEPT !.g = 1, !.v = 2],
     [C("NewNode") EXCEPT !.vs = <<1, 2>>, !.i = 1, !.g = 1],
     [C("NewNode") EXCEPT !.vs = <<5>>, !.i = 1, !.g = 1],
     [C("NewNode") EXCEPT !.vs = <<5, 1>>, !.i = 1, !.g = 2],
     [C("IOAppend") EXCEPT !.k = "out", !.g = 2, !.v = 7],
     [C("AttachSub") EXCEPT !.n = 2, !.g = 2],
     [C("IOAppend") EXCEPT !.k = "out", !.g = 1, !.v = 6],
     [C("SetType") EXCEPT !.v = 1, !.name = "FLOAT"],
     [C("SetShape") EXCEPT !.v = 1, !.vs = <<2, 3>>],
     [C("SetType") EXCEPT !.v = 5, !.name = "FLOAT"],
     [C("SetShape") EXCEPT !.v = 5, !.vs = <<2, 3>>],
     \* known SCALAR shapes (rank 0, not "unknown"): on the initializer and on a node output that is a graph output
     [C("SetShape") EXCEPT !.v = 2, !.vs = <<>>],
     [C("SetType") EXCEPT !.v = 6, !.name = "FLOAT"],
     [C("SetShape") EXCEPT !.v = 6, !.vs = <<>>],
     [C("MetaPut") EXCEPT !.v = 1, !.name = "k1"],
     [C("ValMetaPut") EXCEPT !.v = 5, !.name = "k1"],
     [C("NodeMetaPut") EXCEPT !.n = 1, !.name = "k1"],
     [C("AttrPut") EXCEPT !.n = 1, !.name = "alpha"],
     [C("GraphMetaPut") EXCEPT !.g = 1, !.name = "k1"] >>

\* unsorted: n1(o6)->o5 listed before n2()->o6
SeedB ==
  << [C("NewNode") EXCEPT !.vs = <<>>, !.i = 1, !.g = 0],
     [C("NewNode") EXCEPT !.vs = <<5>>, !.i = 1, !.g = 1],
     [C("GAppend") EXCEPT !.g = 1, !.n = 1],
     [C("IOAppend") EXCEPT !.k = "out", !.g = 1, !.v = 6],
     [C("IOAppend") EXCEPT !.k = "in", !.g = 1, !.v = 1] >>

\* a value that is input and output at once, listed twice as output; a node using a standalone (outer) value
SeedC ==
  << [C("IOAppend") EXCEPT !.k = "in", !.g = 1, !.v = 1],
     [C("IOAppend") EXCEPT !.k = "out", !.g = 1, !.v = 1],
     [C("IOAppend") EXCEPT !.k = "out", !.g = 1, !.v = 1],
     [C("NewNode") EXCEPT !.vs = <<1, 3, 0>>, !.i = 2, !.g = 1],
     [C("IOAppend") EXCEPT !.k = "out", !.g = 1, !.v = 6],
     [C("SetType") EXCEPT !.v = 1, !.name = "INT64"] >>

\* nested AND unsorted: the node carrying subgraph g2 comes before the producer of the value g2 captures;
\* values of sequence type (the type object has an inner element type)
SeedD ==
  << [C("NewNode") EXCEPT !.vs = <<>>, !.i = 1, !.g = 0],
     [C("NewNode") EXCEPT !.vs = <<5>>, !.i = 1, !.g = 2],
     [C("IOAppend") EXCEPT !.k = "out", !.g = 2, !.v = 6],
     [C("IOAppend") EXCEPT !.k = "in", !.g = 1, !.v = 1],
     [C("NewNode") EXCEPT !.vs = <<1>>, !.i = 1, !.g = 1],
     [C("AttachSub") EXCEPT !.n = 3, !.g = 2],
     [C("GAppend") EXCEPT !.g = 1, !.n = 1],
     [C("IOAppend") EXCEPT !.k = "out", !.g = 1, !.v = 7] >>
SeedE ==
  << [C("IOAppend") EXCEPT !.k = "in", !.g = 1, !.v = 1],
     [C("SetType") EXCEPT !.v = 1, !.name = "SEQ:FLOAT"],
     [C("NewNode") EXCEPT !.vs = <<1>>, !.i = 1, !.g = 1],
     [C("SetType") EXCEPT !.v = 5, !.name = "SEQ:FLOAT"],
     [C("IOAppend") EXCEPT !.k = "out", !.g = 1, !.v = 5] >>

Seed(id) == CASE id = 1 -> SeedA [] id = 2 -> SeedB [] id = 3 -> SeedC [] id = 4 -> SeedD [] id = 5 -> SeedE

Empty == EmptyCS(EmptyState(2, Names4, Consts4))

Init ==
  \E id \in SeedIds :
     /\ st = CApplyAll(Empty, Seed(id))
     /\ hist = COutcomes(Empty, Seed(id))
     /\ last = [c |-> NoCall, out |-> "init"]

V == 1..Len(st.s.vProd)
N == 1..Len(st.s.nIn)
G == 1..Len(st.s.gNodes)
EV == EditVals \cap V
EN == EditNodes \cap N

CloneCalls ==
  IF Len(st.s.gNodes) >= MaxGraphs THEN {}
  ELSE {[C("Clone") EXCEPT !.g = g, !.flag = f] : g \in {1, 2}, f \in BOOLEAN}

EditCalls ==
     {[C("SetDtype") EXCEPT !.v = v, !.name = "INT32"] : v \in EV}
  \cup {[C("SetType") EXCEPT !.v = v, !.name = "DOUBLE"] : v \in EV}
  \cup {[C("SetDim") EXCEPT !.v = v, !.i = 0, !.j = 7] : v \in EV}
  \cup {[C("SetShape") EXCEPT !.v = v, !.vs = d] : v \in EV, d \in {<<5>>} \cup (IF "MergeShapes" \in Focus THEN {<<-1, 3>>, <<-1, -1, 4>>} ELSE {})}
  \cup {[C("MergeShapes") EXCEPT !.v = v, !.vs = d] : v \in EV, d \in {<<2, 3>>, <<2, 4>>, <<-1, 3>>, <<7>>, <<6, 6, 5>>, <<-1, 8, 4>>}}
  \cup {[C("SetDenot") EXCEPT !.v = v, !.i = -1, !.name = "DATA_BATCH"] : v \in EV}
  \cup {[C("MetaPut") EXCEPT !.v = v, !.name = "k2"] : v \in EV}
  \cup {[C("ValMetaPut") EXCEPT !.v = v, !.name = "k2"] : v \in EV}
  \cup {[C("MetaInvalidate") EXCEPT !.v = v, !.name = k] : v \in EV, k \in {"k1", "k2"}}
  \cup {[C("SetConst") EXCEPT !.v = v, !.flag = f] : v \in EV, f \in BOOLEAN}
  \cup {[C("SetName") EXCEPT !.v = v, !.name = "zz"] : v \in EV}
  \cup {[C("NodeMetaPut") EXCEPT !.n = n, !.name = "k2"] : n \in EN}
  \cup {[C("AttrPut") EXCEPT !.n = n, !.name = "beta"] : n \in EN}
  \cup {[C("AttrDel") EXCEPT !.n = n, !.name = "alpha"] : n \in EN}
  \cup {[C("AttrUpdate2") EXCEPT !.n = n, !.name = "gamma", !.k = k2, !.flag = f] : n \in EN, k2 \in {"alpha", "delta"}, f \in BOOLEAN}
  \cup {[C("ReplaceInput") EXCEPT !.n = n, !.i = 0, !.v = v] : n \in EN, v \in EV \cup {0}}
  \cup {[C("ResizeOutputs") EXCEPT !.n = n, !.i = 2] : n \in EN}
  \cup {[C("GRemove") EXCEPT !.g = g, !.vs = <<n>>, !.flag = FALSE] : g \in G, n \in EN}
  \cup {[C("GraphMetaPut") EXCEPT !.g = g, !.name = "k2"] : g \in G}
  \cup {[C("IOPop") EXCEPT !.k = k, !.g = g, !.i = -1] : k \in {"in", "out"}, g \in G}
  \cup {[C("IOAppend") EXCEPT !.k = "out", !.g = g, !.v = v] : g \in G, v \in EV}
  \cup {[C("InitDel") EXCEPT !.g = g, !.name = "b"] : g \in G}

Calls == {c \in CloneCalls \cup EditCalls : c.op \in Focus}

Next ==
  \E c \in Calls :
     LET r == CApply(st, c) IN
     /\ st' = r.s
     /\ last' = [c |-> c, out |-> r.out]
     /\ hist' = Append(hist, last')

Bound == TLCGet("level") <= MaxDepth
View == st

Compact(c) == <<c.op, c.g, c.n, c.v, c.w, c.i, c.j, c.vs, c.ws, c.k, c.flag, c.name>>
Row(c) == LET r == CApply(st, c) IN
          IF r.out = "ok" THEN [c |-> Compact(c), out |-> r.out, post |-> r.s]
          ELSE [c |-> Compact(c), out |-> r.out]
EmitState ==
  (EmitOn /\ Bound) =>
     LET cs == SetToSeq(Calls) IN
     PrintT(ToJson([h |-> [x \in DOMAIN hist |-> <<Compact(hist[x].c), hist[x].out>>],
                    pre |-> st,
                    rows |-> [x \in DOMAIN cs |-> Row(cs[x])]]))

\* ---- properties of the design ---------------------------------------------------------------
InvC01 == C01Inv(Obs(st.s))
InvMech == CountOK(st.s) /\ OwnerOK(st.s)
\* a successful clone without permission to capture is closed; with or without it, the new graphs
\* share no defined value with the old ones (ids are fresh by construction, checked here anyway)
CloneClosed ==
  [][(last'.c.op = "Clone" /\ last'.out = "ok" /\ ~last'.c.flag) =>
        Closed(st', GraphsOf(st', Len(st'.s.gNodes), 2))]_vars
CloneFresh ==
  [][(last'.c.op = "Clone" /\ last'.out = "ok") =>
        LET G2 == GraphsOf(st', Len(st'.s.gNodes), 2)
        IN /\ ValuesDefinedBy(st', G2) \cap (1..Len(st.s.vProd)) = {}
           /\ NodesOf(st', G2) \cap (1..Len(st.s.nIn)) = {}]_vars
RejectAtomic == [][IsRej(last'.out) => st' = st]_vars
=============================================================================
