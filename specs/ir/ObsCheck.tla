------------------------------ MODULE ObsCheck ------------------------------
(***************************************************************************)
(* Evaluates the C01 invariants of IRGraph.tla on observable states        *)
(* recorded from the real library (any model: after a pass, after          *)
(* deserialization, ...).  TRACE_FILE holds {"states": [{"id":.., "o": <Obs record>}]}.      *)
(* Prints ["broken", id, names] for every state that breaks an invariant   *)
(* and ["checked", n] at the end.                                          *)
(***************************************************************************)
EXTENDS IRGraph, Json, IOUtils

Data == JsonDeserialize(IOEnv.TRACE_FILE)
VARIABLE k
Init == k = 0
Next == k < Len(Data.states) /\ k' = k + 1
Spec == Init /\ [][Next]_k

Broken(o) == (IF UseDef(o) THEN <<>> ELSE <<"UseDef">>) \o (IF ProducerOK(o) THEN <<>> ELSE <<"ProducerOK">>)
          \o (IF NodeGraphOK(o) THEN <<>> ELSE <<"NodeGraphOK">>) \o (IF FlagsOK(o) THEN <<>> ELSE <<"FlagsOK">>)
          \o (IF InitKeyOK(o) THEN <<>> ELSE <<"InitKeyOK">>) \o (IF NoProducer(o) THEN <<>> ELSE <<"NoProducer">>)

Report ==
  /\ (k > 0 /\ ~C01Inv(Data.states[k].o)) => PrintT(ToJson(<<"broken", Data.states[k].id, Broken(Data.states[k].o)>>))
  /\ (k = Len(Data.states)) => PrintT(ToJson(<<"checked", k>>))
=============================================================================
