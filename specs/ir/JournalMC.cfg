CONSTANTS
  Focus = {"IOAppend","IOExtend","IOInsert","IOPop","IORemove","IOClear","IOSetItem","IODelItem","InitSet","InitDel","InitPop","InitClear","InitAdd","Register","SetName","ReplaceInput","ResizeInputs","ResizeOutputs","ReplaceAllUses","GAppend","GExtend","GInsertAfter","GRemove","NewNode","GExtendGen"}
  MaxNest = 2
  MaxDepth = 3
  PairVals = {1, 2, 5}
  EmitOn = TRUE
INIT Init
NEXT Next
VIEW View
CONSTRAINT Bound
INVARIANT EmitState
INVARIANT Nested
INVARIANT InvC01
PROPERTY Transparent
PROPERTY OneEntry
PROPERTY DoneOK
