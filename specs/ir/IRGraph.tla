------------------------------- MODULE IRGraph -------------------------------
(***************************************************************************)
(* Abstract state machine of onnx_ir's in-memory graph objects             *)
(* (Value / Node / Graph, graph.inputs / graph.outputs / graph.initializers*)
(* tracked containers, the doubly linked node list seen as a sequence).    *)
(*                                                                         *)
(* One operator per public mutating call.  Every operator is a pure        *)
(* function  (state, arguments) -> [s |-> state', out |-> "ok" | reason]   *)
(* so that the very same definitions serve                                 *)
(*   - the design model  (IRGraphMC: Next == \E c \in Calls : Apply(c)),   *)
(*   - trace validation  (IRGraphTrace: the call is read from a log),      *)
(*   - clone / journaling / multi-device extensions.                       *)
(*                                                                         *)
(* The ownership *mechanism* is modelled as the code has it: cached flags  *)
(* vIsIn/vIsOut/vIsInit, the cached owner vOwner and the per-collection    *)
(* reference counters cIn/cOut are separate components updated by each     *)
(* operator; the invariants relate them to the collections (C01).          *)
(* A rejected call returns the unchanged state (C06): that is the          *)
(* requirement, whether the code honours it is decided by conformance.     *)
(*                                                                         *)
(* Objects are numbered 1..N in creation order; 0 is Python's None.        *)
(* All state components are sequences / records / integers / strings so    *)
(* that a state is JSON on both sides of the binding.                      *)
(***************************************************************************)
EXTENDS Integers, Sequences, FiniteSets, TLC, SequencesExt, FiniteSetsExt

NoName == "<none>"     \* Value.name is None
NoIdx  == -2           \* Value.index() is None

Max2(a, b) == IF a > b THEN a ELSE b
Min2(a, b) == IF a < b THEN a ELSE b
RangeS(q) == {q[x] : x \in DOMAIN q}
InSeq(q, e) == \E x \in DOMAIN q : q[x] = e
CountIn(q, e) == Cardinality({x \in DOMAIN q : q[x] = e})
SeqWithout(q, e) == SelectSeq(q, LAMBDA y : y # e)
FirstIdx(q, e) == CHOOSE x \in DOMAIN q : q[x] = e /\ \A y \in 1..(x-1) : q[y] # e
DelAt(q, x) == SubSeq(q, 1, x-1) \o SubSeq(q, x+1, Len(q))
InsAt(q, x, e) == SubSeq(q, 1, x-1) \o <<e>> \o SubSeq(q, x, Len(q))   \* e becomes element x
Splice(q, a, b, r) == SubSeq(q, 1, a) \o r \o SubSeq(q, b+1, Len(q))    \* replace 0-based [a,b) by r

\* ---- Python list index / slice arithmetic (0-based i over a list of length n) ----------
PyIdxOK(n, i) == (i >= 0 /\ i < n) \/ (i < 0 /\ -i <= n)
PyIdx(n, i)   == IF i >= 0 THEN i + 1 ELSE n + i + 1           \* 1-based position
Clamp(n, a)   == IF a < 0 THEN Max2(0, n + a) ELSE Min2(a, n)   \* slice bound, 0-based
SlLo(n, a, b) == Clamp(n, a)
SlHi(n, a, b) == Max2(Clamp(n, a), Clamp(n, b))

\* a use (node n, input index i 0-based) is coded as one integer so that use sets are sets of ints
UC(n, i) == n * 16 + i
UseNode(u) == u \div 16
UseIdx(u) == u % 16

Ok(s) == [s |-> s, out |-> "ok"]
Rej(s, why) == [s |-> s, out |-> why]
IsRej(out) == out # "ok"

\* ---- universe ------------------------------------------------------------------------
Vals(s) == 1..Len(s.vProd)
Nods(s) == 1..Len(s.nIn)
Grs(s)  == 1..Len(s.gNodes)

EmptyState(ng, names, consts) ==
  LET nv == Len(names) IN
  [ nIn |-> <<>>, nOut |-> <<>>, nGraph |-> <<>>,
    gNodes |-> [g \in 1..ng |-> <<>>], gIn |-> [g \in 1..ng |-> <<>>], gOut |-> [g \in 1..ng |-> <<>>],
    gInit |-> [g \in 1..ng |-> <<>>],
    vProd |-> [v \in 1..nv |-> 0], vIdx |-> [v \in 1..nv |-> NoIdx], vUses |-> [v \in 1..nv |-> {}],
    vOwner |-> [v \in 1..nv |-> 0],
    vIsIn |-> [v \in 1..nv |-> FALSE], vIsOut |-> [v \in 1..nv |-> FALSE], vIsInit |-> [v \in 1..nv |-> FALSE],
    cIn |-> [g \in 1..ng |-> [v \in 1..nv |-> 0]], cOut |-> [g \in 1..ng |-> [v \in 1..nv |-> 0]],
    vName |-> names, vConst |-> consts,
    gCnt |-> [g \in 1..ng |-> 0], gSeen |-> [g \in 1..ng |-> {}] ]   \* per-graph name authority

FreshName(v) == "o" \o ToString(v)     \* the harness names fresh node outputs this way

\* add k fresh (standalone, unowned) values at the end of every value-indexed component
AddFreshVals(s, k) ==
  LET nv == Len(s.vProd) IN
  [ s EXCEPT
      !.vProd = @ \o [x \in 1..k |-> 0], !.vIdx = @ \o [x \in 1..k |-> NoIdx],
      !.vUses = @ \o [x \in 1..k |-> {}], !.vOwner = @ \o [x \in 1..k |-> 0],
      !.vIsIn = @ \o [x \in 1..k |-> FALSE], !.vIsOut = @ \o [x \in 1..k |-> FALSE],
      !.vIsInit = @ \o [x \in 1..k |-> FALSE],
      !.cIn = [g \in DOMAIN @ |-> @[g] \o [x \in 1..k |-> 0]],
      !.cOut = [g \in DOMAIN @ |-> @[g] \o [x \in 1..k |-> 0]],
      !.vName = @ \o [x \in 1..k |-> NoName],
      !.vConst = @ \o [x \in 1..k |-> FALSE] ]

\* ---- ownership mechanism (_graph_containers.py) ---------------------------------------
FCnt(k)  == IF k = "in" THEN "cIn" ELSE "cOut"
FFlag(k) == IF k = "in" THEN "vIsIn" ELSE "vIsOut"
FList(k) == IF k = "in" THEN "gIn" ELSE "gOut"

Owned(s, v) == s.vIsIn[v] \/ s.vIsOut[v] \/ s.vIsInit[v]
HasName(s, v) == s.vName[v] \notin {NoName, ""}

CanSetIO(s, k, g, v) == s.vOwner[v] \in {0, g} /\ (k = "in" => s.vProd[v] = 0)
WhyNotIO(s, k, g, v) == IF s.vOwner[v] \notin {0, g} THEN "owner" ELSE "produced"

SetIO(s, k, g, v) ==
  [s EXCEPT ![FCnt(k)][g][v] = @ + 1, ![FFlag(k)][v] = TRUE, !.vOwner[v] = g]

UnsetIO(s, k, g, v) ==
  LET c  == s[FCnt(k)][g][v] - 1
      s1 == [s EXCEPT ![FCnt(k)][g][v] = c]
  IN IF c > 0 THEN s1
     ELSE LET s2 == [s1 EXCEPT ![FFlag(k)][v] = FALSE]
          IN IF Owned(s2, v) THEN s2 ELSE [s2 EXCEPT !.vOwner[v] = 0]

SetInit(s, g, v) == [s EXCEPT !.vIsInit[v] = TRUE, !.vOwner[v] = g]
UnsetInit(s, g, v) ==
  LET s2 == [s EXCEPT !.vIsInit[v] = FALSE]
  IN IF Owned(s2, v) THEN s2 ELSE [s2 EXCEPT !.vOwner[v] = 0]

SetAllIO(s, k, g, vs) == FoldLeft(LAMBDA acc, v : SetIO(acc, k, g, v), s, vs)
UnsetAllIO(s, k, g, vs) == FoldLeft(LAMBDA acc, v : UnsetIO(acc, k, g, v), s, vs)
FirstBad(s, k, g, vs) == CHOOSE x \in DOMAIN vs : ~CanSetIO(s, k, g, vs[x]) /\ \A y \in 1..(x-1) : CanSetIO(s, k, g, vs[y])

\* ---- graph.inputs / graph.outputs list protocol --------------------------------------
IOAppend(s, k, g, v) ==
  IF ~CanSetIO(s, k, g, v) THEN Rej(s, WhyNotIO(s, k, g, v))
  ELSE Ok([SetIO(s, k, g, v) EXCEPT ![FList(k)][g] = Append(@, v)])

IOExtend(s, k, g, vs) ==
  IF \E x \in DOMAIN vs : ~CanSetIO(s, k, g, vs[x]) THEN Rej(s, WhyNotIO(s, k, g, vs[FirstBad(s, k, g, vs)]))
  ELSE Ok([SetAllIO(s, k, g, vs) EXCEPT ![FList(k)][g] = @ \o vs])

IOInsert(s, k, g, i, v) ==
  LET n == Len(s[FList(k)][g]) IN
  IF ~CanSetIO(s, k, g, v) THEN Rej(s, WhyNotIO(s, k, g, v))
  ELSE Ok([SetIO(s, k, g, v) EXCEPT ![FList(k)][g] = InsAt(@, Clamp(n, i) + 1, v)])

IOPop(s, k, g, i) ==
  LET q == s[FList(k)][g] IN
  IF ~PyIdxOK(Len(q), i) THEN Rej(s, "index")
  ELSE LET p == PyIdx(Len(q), i)
       IN Ok([UnsetIO(s, k, g, q[p]) EXCEPT ![FList(k)][g] = DelAt(@, p)])

IORemove(s, k, g, v) ==
  LET q == s[FList(k)][g] IN
  IF ~InSeq(q, v) THEN Rej(s, "absent")
  ELSE Ok([UnsetIO(s, k, g, v) EXCEPT ![FList(k)][g] = DelAt(@, FirstIdx(q, v))])

IOClear(s, k, g) ==
  Ok([UnsetAllIO(s, k, g, s[FList(k)][g]) EXCEPT ![FList(k)][g] = <<>>])

IOSetItem(s, k, g, i, v) ==
  LET q == s[FList(k)][g] IN
  IF ~PyIdxOK(Len(q), i) THEN Rej(s, "index")
  ELSE IF ~CanSetIO(s, k, g, v) THEN Rej(s, WhyNotIO(s, k, g, v))
  ELSE LET p == PyIdx(Len(q), i)
       IN Ok([SetIO(UnsetIO(s, k, g, q[p]), k, g, v) EXCEPT ![FList(k)][g][p] = v])

IOSetSlice(s, k, g, a, b, vs) ==
  LET q  == s[FList(k)][g]
      lo == SlLo(Len(q), a, b)
      hi == SlHi(Len(q), a, b)
  IN IF \E x \in DOMAIN vs : ~CanSetIO(s, k, g, vs[x]) THEN Rej(s, WhyNotIO(s, k, g, vs[FirstBad(s, k, g, vs)]))
     ELSE Ok([SetAllIO(UnsetAllIO(s, k, g, SubSeq(q, lo + 1, hi)), k, g, vs)
                EXCEPT ![FList(k)][g] = Splice(q, lo, hi, vs)])

IODelItem(s, k, g, i) ==
  LET q == s[FList(k)][g] IN
  IF ~PyIdxOK(Len(q), i) THEN Rej(s, "index")
  ELSE LET p == PyIdx(Len(q), i)
       IN Ok([UnsetIO(s, k, g, q[p]) EXCEPT ![FList(k)][g] = DelAt(@, p)])

IODelSlice(s, k, g, a, b) ==
  LET q  == s[FList(k)][g]
      lo == SlLo(Len(q), a, b)
      hi == SlHi(Len(q), a, b)
  IN Ok([UnsetAllIO(s, k, g, SubSeq(q, lo + 1, hi)) EXCEPT ![FList(k)][g] = Splice(q, lo, hi, <<>>)])

IOImul(s, k, g, m) == Rej(s, "unsupported")       \* like +, +=, *: not a supported edit
IOIadd(s, k, g, vs) == Rej(s, "unsupported")
IOReverse(s, k, g) == Ok([s EXCEPT ![FList(k)][g] = Reverse(@)])

\* ---- graph.initializers dict protocol -------------------------------------------------
InitKeys(s, g) == {p[1] : p \in RangeS(s.gInit[g])}
InitValOf(s, g, key) == (CHOOSE p \in RangeS(s.gInit[g]) : p[1] = key)[2]
InitPos(s, g, key) == CHOOSE x \in DOMAIN s.gInit[g] : s.gInit[g][x][1] = key

InitSet(s, g, key, v) ==
  IF key = "" THEN Rej(s, "empty-key")
  ELSE IF key = NoName THEN Rej(s, "key-type")
  ELSE IF HasName(s, v) /\ key # s.vName[v] THEN Rej(s, "key-mismatch")
  ELSE IF s.vProd[v] # 0 THEN Rej(s, "produced")
  ELSE IF s.vOwner[v] \notin {0, g} THEN Rej(s, "owner")
  ELSE LET s0 == IF HasName(s, v) THEN s ELSE [s EXCEPT !.vName[v] = key]
           present == key \in InitKeys(s0, g)
           s1 == IF present THEN UnsetInit(s0, g, InitValOf(s0, g, key)) ELSE s0
           s2 == SetInit(s1, g, v)
       IN Ok([s2 EXCEPT !.gInit[g] = IF present THEN [@ EXCEPT ![InitPos(s0, g, key)] = <<key, v>>]
                                       ELSE Append(@, <<key, v>>)])

InitDel(s, g, key) ==
  IF key \notin InitKeys(s, g) THEN Rej(s, "absent")
  ELSE Ok([UnsetInit(s, g, InitValOf(s, g, key)) EXCEPT !.gInit[g] = DelAt(@, InitPos(s, g, key))])

InitPopitem(s, g) ==
  IF s.gInit[g] = <<>> THEN Rej(s, "empty") ELSE InitDel(s, g, s.gInit[g][1][1])

InitClear(s, g) ==
  Ok([FoldLeft(LAMBDA acc, p : UnsetInit(acc, g, p[2]), s, s.gInit[g]) EXCEPT !.gInit[g] = <<>>])

InitAdd(s, g, v) == InitSet(s, g, s.vName[v], v)

Register(s, g, v) ==
  IF ~HasName(s, v) THEN Rej(s, "no-name")
  ELSE IF s.vName[v] \in InitKeys(s, g) /\ InitValOf(s, g, s.vName[v]) # v THEN Rej(s, "collision")
  ELSE IF ~s.vConst[v] THEN Rej(s, "no-const")
  ELSE InitAdd(s, g, v)

\* d |= {key: v}  and  d.update({key: v}) with one pair
InitIor(s, g, key, v) == InitSet(s, g, key, v)

\* d.setdefault(key, v)
InitSetdefault(s, g, key, v) == IF key \in InitKeys(s, g) THEN Ok(s) ELSE InitSet(s, g, key, v)

\* d.update({v.name: v, w.name: w}): all or nothing (C06: a rejected call leaves everything as it was)
InitUpdate2(s, g, v, w) ==
  LET r1 == InitSet(s, g, s.vName[v], v) IN
  IF r1.out # "ok" THEN Rej(s, r1.out)
  ELSE LET r2 == InitSet(r1.s, g, r1.s.vName[w], w) IN
       IF r2.out # "ok" THEN Rej(s, r2.out) ELSE r2

\* d.update({k1: v, k2: w}) with explicit keys (v and w may be the same value, nameless values take the key as
\* their name): the items are stored in order, each seeing the effect of the earlier ones; all or nothing
InitUpdateKeys(s, g, k1, v, k2, w) ==
  LET r1 == InitSet(s, g, k1, v) IN
  IF r1.out # "ok" THEN Rej(s, r1.out)
  ELSE LET r2 == InitSet(r1.s, g, k2, w) IN
       IF r2.out # "ok" THEN Rej(s, r2.out) ELSE r2

\* ---- Value.name -----------------------------------------------------------------------
\* BadName: a name the value's backing tensor refuses (every second constant of the universe is backed by a proto
\* tensor, whose name setter takes strings only; the harness passes a non-string): the rename is rejected as a whole
BadName == "<bad>"
StrictTensor(s, v) == s.vConst[v] /\ v % 2 = 0
SetName(s, v, name) ==
  IF name = BadName THEN Rej(s, IF StrictTensor(s, v) THEN "bad-name" ELSE "unmodelled")
  ELSE IF s.vName[v] = name THEN Ok(s)
  ELSE IF s.vIsInit[v] THEN
    LET g == s.vOwner[v] IN
    IF name = NoName THEN Rej(s, "init-none")
    ELSE IF name = "" THEN Rej(s, "init-empty")
    ELSE IF name \in InitKeys(s, g) /\ InitValOf(s, g, name) # v THEN Rej(s, "init-collision")
    ELSE Ok([s EXCEPT !.vName[v] = name,
                      !.gInit[g] = Append(SelectSeq(@, LAMBDA p : p[2] # v), <<name, v>>)])
  ELSE Ok([s EXCEPT !.vName[v] = name])

\* ---- node inputs / outputs -------------------------------------------------------------
ReplaceInputRaw(s, n, i, v) ==
  LET old == s.nIn[n][i + 1]
      s1 == [s EXCEPT !.nIn[n][i + 1] = v]
      s2 == IF old # 0 THEN [s1 EXCEPT !.vUses[old] = @ \ {UC(n, i)}] ELSE s1
  IN IF v # 0 THEN [s2 EXCEPT !.vUses[v] = @ \cup {UC(n, i)}] ELSE s2

\* NotAValue: an argument that is not a Value at all (the harness passes an int) where a value or None is expected
NotAValue == -1
ReplaceInput(s, n, i, v) ==
  IF i < 0 \/ i >= Len(s.nIn[n]) THEN Rej(s, "index")
  ELSE IF v = NotAValue THEN Rej(s, "type")
  ELSE Ok(ReplaceInputRaw(s, n, i, v))

DetachInputs(s, n, from) ==   \* inputs from 0-based index `from` on become None
  FoldLeft(LAMBDA acc, i : ReplaceInputRaw(acc, n, i, 0), s, [x \in 1..(Len(s.nIn[n]) - from) |-> from + x - 1])

ResizeInputs(s, n, k) ==
  LET cur == Len(s.nIn[n]) IN
  IF k = cur THEN Ok(s)
  ELSE IF k < 0 THEN Rej(s, "index")
  ELSE IF k < cur THEN Ok([DetachInputs(s, n, k) EXCEPT !.nIn[n] = SubSeq(@, 1, k)])
  ELSE Ok([s EXCEPT !.nIn[n] = @ \o [x \in 1..(k - cur) |-> 0]])

ResizeOutputs(s, n, k) ==
  LET cur == Len(s.nOut[n]) IN
  IF k = cur THEN Ok(s)
  ELSE IF k < cur THEN
    LET keep == IF k >= 0 THEN k ELSE Max2(0, cur + k)
        gone == SubSeq(s.nOut[n], keep + 1, cur)
    IN IF \E x \in DOMAIN gone : s.vUses[gone[x]] # {} THEN Rej(s, "has-uses")
       ELSE Ok([s EXCEPT !.nOut[n] = SubSeq(@, 1, keep),
                         !.vProd = [v \in DOMAIN @ |-> IF v \in RangeS(gone) THEN 0 ELSE @[v]],
                         !.vIdx = [v \in DOMAIN @ |-> IF v \in RangeS(gone) THEN -1 ELSE @[v]]])
  ELSE
    LET nv == Len(s.vProd)
        s1 == AddFreshVals(s, k - cur)
    IN Ok([s1 EXCEPT !.nOut[n] = @ \o [x \in 1..(k - cur) |-> nv + x],
                     !.vProd = [v \in DOMAIN @ |-> IF v > nv THEN n ELSE @[v]],
                     !.vIdx = [v \in DOMAIN @ |-> IF v > nv THEN cur + (v - nv) - 1 ELSE @[v]],
                     !.vName = [v \in DOMAIN @ |-> IF v > nv THEN FreshName(v) ELSE @[v]]])

\* ---- node list of a graph (DoublyLinkedSet seen as a sequence without duplicates) ------
PrevOf(q, a) == IF FirstIdx(q, a) = 1 THEN 0 ELSE q[FirstIdx(q, a) - 1]
InsAfter(q, p, e) == IF p = 0 THEN <<e>> \o q ELSE InsAt(q, FirstIdx(q, p) + 1, e)
\* _insert_many_after: the element just inserted becomes the insertion point of the next one;
\* inserting the insertion point's own element is a no-op; a present element is moved
InsMany(q, p0, es) ==
  FoldLeft(LAMBDA acc, e : IF e = acc.p THEN acc
                           ELSE [q |-> InsAfter(SeqWithout(acc.q, e), acc.p, e), p |-> e],
           [q |-> q, p |-> p0], es).q

\* ---- name authority of a graph (_name_authority.py): values only, nodes are always named here ----
ValName(k) == "val_" \o ToString(k)
NextFree(s, g) ==   \* first counter value >= gCnt[g] whose generated name was never registered
  CHOOSE k \in s.gCnt[g]..(s.gCnt[g] + Cardinality(s.gSeen[g])) :
     ValName(k) \notin s.gSeen[g] /\ \A j \in s.gCnt[g]..(k - 1) : ValName(j) \in s.gSeen[g]
RegisterValue(s, g, v) ==
  IF s.vName[v] = NoName
  THEN LET k == NextFree(s, g)
       IN [s EXCEPT !.vName[v] = ValName(k), !.gCnt[g] = k + 1, !.gSeen[g] = @ \cup {ValName(k)}]
  ELSE [s EXCEPT !.gSeen[g] = @ \cup {s.vName[v]}]
RegisterNode(s, g, n) == FoldLeft(LAMBDA acc, v : RegisterValue(acc, g, v), s, s.nOut[n])

\* the three steps every insertion performs per node: register/generate names, set node.graph, link
GAppendRaw(s, g, n) ==
  [RegisterNode(s, g, n) EXCEPT !.nGraph[n] = g, !.gNodes[g] = Append(SeqWithout(@, n), n)]

ForeignNode(s, g, ns) == \E x \in DOMAIN ns : s.nGraph[ns[x]] \notin {0, g}

GAppend(s, g, n) ==
  IF s.nGraph[n] \notin {0, g} THEN Rej(s, "node-other-graph") ELSE Ok(GAppendRaw(s, g, n))

GExtend(s, g, ns) ==
  IF ForeignNode(s, g, ns) THEN Rej(s, "node-other-graph")
  ELSE Ok(FoldLeft(LAMBDA acc, n : GAppendRaw(acc, g, n), s, ns))

GInsert(s, g, a, ns, before) ==
  IF ForeignNode(s, g, ns) THEN Rej(s, "node-other-graph")
  ELSE IF ~InSeq(s.gNodes[g], a) THEN Rej(s, "anchor-missing")
  ELSE LET p0 == IF before THEN PrevOf(s.gNodes[g], a) ELSE a
           s1 == FoldLeft(LAMBDA acc, n : RegisterNode(acc, g, n), s, ns)
       IN Ok([s1 EXCEPT !.gNodes[g] = InsMany(@, p0, ns),
                        !.nGraph = [n \in DOMAIN @ |-> IF n \in RangeS(ns) THEN g ELSE @[n]]])

GRemove(s, g, ns, safe) ==
  LET S == RangeS(ns) IN
  IF \E n \in S : s.nGraph[n] # g THEN Rej(s, "not-in-graph")
  ELSE IF safe /\ \E n \in S : \E x \in DOMAIN s.nOut[n] :
              LET o == s.nOut[n][x] IN InSeq(s.gOut[g], o) \/ \E u \in s.vUses[o] : UseNode(u) \notin S
       THEN Rej(s, "unsafe")
  ELSE LET s1 == IF safe THEN FoldLeft(LAMBDA acc, n : DetachInputs(acc, n, 0), s, SetToSeq(S)) ELSE s
       IN Ok([s1 EXCEPT !.nGraph = [n \in DOMAIN @ |-> IF n \in S THEN 0 ELSE @[n]],
                        !.gNodes[g] = SelectSeq(@, LAMBDA x : x \notin S)])

\* Node(...) : inputs `ins`, outputs either supplied (`outs` non-empty) or k fresh ones, optional graph
NewNode(s, ins, outs, k, g) ==
  LET n == Len(s.nIn) + 1
      supplied == outs # <<>>
  IN IF \E x \in DOMAIN ins : ins[x] = NotAValue THEN Rej(s, "type")      \* (nothing registered, nothing appended)
     ELSE IF supplied /\ \E x \in DOMAIN outs : s.vProd[outs[x]] # 0 THEN Rej(s, "out-has-producer")
     ELSE IF supplied /\ \E x \in DOMAIN outs : s.vIsIn[outs[x]] \/ s.vIsInit[outs[x]] THEN Rej(s, "out-is-input")
     ELSE IF supplied /\ \E x, y \in DOMAIN outs : x < y /\ outs[x] = outs[y] THEN Rej(s, "out-duplicate")
     ELSE
       LET nv == Len(s.vProd)
           s1 == IF supplied THEN s ELSE AddFreshVals(s, k)
           os == IF supplied THEN outs ELSE [x \in 1..k |-> nv + x]
           s2 == [s1 EXCEPT !.nIn = Append(@, ins), !.nOut = Append(@, os), !.nGraph = Append(@, 0),
                            !.vProd = [v \in DOMAIN @ |-> IF v \in RangeS(os) THEN n ELSE @[v]],
                            !.vIdx = [v \in DOMAIN @ |-> IF v \in RangeS(os) THEN FirstIdx(os, v) - 1 ELSE @[v]]]
           s3a == IF g # 0 THEN GAppendRaw(s2, g, n) ELSE s2
           \* the harness names the fresh outputs right after construction (FreshName)
           s3 == IF supplied THEN s3a
                 ELSE [s3a EXCEPT !.vName = [v \in DOMAIN @ |-> IF v > nv THEN FreshName(v) ELSE @[v]]]
           s4 == FoldLeft(LAMBDA acc, x : IF ins[x] # 0 THEN [acc EXCEPT !.vUses[ins[x]] = @ \cup {UC(n, x - 1)}] ELSE acc,
                          s3, [x \in 1..Len(ins) |-> x])
       IN Ok(s4)

\* Value.replace_all_uses_with(w, replace_graph_outputs=flag)
ReplaceAllUses(s, v, w, flag) ==
  IF s.vIsOut[v] /\ ~flag THEN Rej(s, "is-output")
  ELSE IF w = NotAValue THEN (IF s.vUses[v] = {} /\ ~s.vIsOut[v] THEN Ok(s) ELSE Rej(s, "type"))
  ELSE IF s.vIsOut[v] /\ ~CanSetIO(s, "out", s.vOwner[v], w) THEN Rej(s, "owner")
  ELSE
    LET g  == s.vOwner[v]
        s1 == IF s.vIsOut[v]
              THEN FoldLeft(LAMBDA acc, p : IF acc.gOut[g][p] = v
                                            THEN [SetIO(UnsetIO(acc, "out", g, v), "out", g, w) EXCEPT !.gOut[g][p] = w]
                                            ELSE acc,
                            s, [x \in 1..Len(s.gOut[g]) |-> x])
              ELSE s
        s2 == FoldLeft(LAMBDA acc, u : ReplaceInputRaw(acc, UseNode(u), UseIdx(u), w), s1, SetToSeq(s1.vUses[v]))
    IN Ok(s2)

\* convenience.replace_all_uses_with(values, replacements): the pairs are applied in order, each seeing the effect
\* of the earlier ones; a pair that is rejected rejects the WHOLE call (C06: nothing has changed then)
ReplaceAllUsesSeq(s, vs, ws, flag) ==
  IF Len(vs) # Len(ws) THEN Rej(s, "length")
  ELSE LET r == FoldLeft(LAMBDA acc, k : IF acc.out # "ok" THEN acc ELSE ReplaceAllUses(acc.s, vs[k], ws[k], flag),
                         Ok(s), [k \in 1..Len(vs) |-> k])
       IN IF r.out = "ok" THEN r ELSE Rej(s, r.out)

\* convenience.replace_nodes_and_values(g, ip, olds, news, [v], [w]): a composite edit - the new value takes the
\* old one's name (when it has one; otherwise its own name is assigned again), the uses and graph-output slots of v
\* go to w, the new nodes are linked after ip, the old nodes are removed safely.  ONE public call: when any of
\* its steps is rejected the whole call is (C06: nothing has changed then).
ReplaceNodes(s, g, ip, olds, news, v, w) ==
  LET nm == IF s.vName[v] \notin {NoName, ""} THEN s.vName[v] ELSE s.vName[w]
      r1 == SetName(s, w, nm)
      r2 == IF r1.out # "ok" THEN r1 ELSE ReplaceAllUsesSeq(r1.s, <<v>>, <<w>>, TRUE)
      r3 == IF r2.out # "ok" THEN r2 ELSE GInsert(r2.s, g, ip, news, FALSE)
      r4 == IF r3.out # "ok" THEN r3 ELSE GRemove(r3.s, g, olds, TRUE)
  IN IF r4.out = "ok" THEN r4 ELSE Rej(s, r4.out)

\* Graph(inputs, outputs, nodes=[n], initializers=[iv]) for the graph slot g, which must be pristine (nothing in it,
\* name authority untouched - a freshly constructed object): the constructor claims the inputs, the outputs and the
\* initializers, registers / generates the names of inputs and initializers and links the nodes.  A constructor
\* that raises is a rejected call like any other: the values and nodes handed to it are as they were (C06).
Pristine(s, g) == /\ s.gNodes[g] = <<>> /\ s.gIn[g] = <<>> /\ s.gOut[g] = <<>> /\ s.gInit[g] = <<>>
                  /\ s.gCnt[g] = 0 /\ s.gSeen[g] = {}
NewGraph(s, g, ins, outs, iv, n) ==
  IF ~Pristine(s, g) THEN Rej(s, "not-fresh")
  ELSE
    LET r1 == IOExtend(s, "in", g, ins)
        r2 == IF r1.out # "ok" THEN r1 ELSE IOExtend(r1.s, "out", g, outs)
        r3 == IF r2.out # "ok" \/ iv = 0 THEN r2 ELSE InitSet(r2.s, g, r2.s.vName[iv], iv)
        r4 == IF r3.out # "ok" THEN r3
              ELSE Ok(FoldLeft(LAMBDA acc, v : RegisterValue(acc, g, v), r3.s, ins \o (IF iv = 0 THEN <<>> ELSE <<iv>>)))
        r5 == IF r4.out # "ok" \/ n = 0 THEN r4 ELSE GExtend(r4.s, g, <<n>>)
    IN IF r5.out = "ok" THEN r5 ELSE Rej(s, r5.out)

\* graph.extend(<an iterable that builds k new nodes consuming v and then raises>): the call raises what the iterable
\* raised; the k nodes exist afterwards (the iterable's doing, not the call's), the graph has adopted none of them
GExtendGen(s, g, v, k) ==
  [s |-> FoldLeft(LAMBDA acc, x : NewNode(acc, <<v>>, <<>>, 1, 0).s, s, [x \in 1..k |-> x]), out |-> "iter-raise"]

\* =======================================================================================
\* Calls: one uniform record shape so that a call is JSON on both sides of the binding
\* =======================================================================================
NoCall == [op |-> "", g |-> 0, n |-> 0, v |-> 0, w |-> 0, i |-> 0, j |-> 0, vs |-> <<>>, ws |-> <<>>,
           k |-> "", flag |-> FALSE, name |-> ""]

Apply(s, c) ==
  CASE c.op = "IOAppend"   -> IOAppend(s, c.k, c.g, c.v)
    [] c.op = "IOExtend"   -> IOExtend(s, c.k, c.g, c.vs)
    [] c.op = "IOInsert"   -> IOInsert(s, c.k, c.g, c.i, c.v)
    [] c.op = "IOPop"      -> IOPop(s, c.k, c.g, c.i)
    [] c.op = "IORemove"   -> IORemove(s, c.k, c.g, c.v)
    [] c.op = "IOClear"    -> IOClear(s, c.k, c.g)
    [] c.op = "IOSetItem"  -> IOSetItem(s, c.k, c.g, c.i, c.v)
    [] c.op = "IOSetSlice" -> IOSetSlice(s, c.k, c.g, c.i, c.j, c.vs)
    [] c.op = "IODelItem"  -> IODelItem(s, c.k, c.g, c.i)
    [] c.op = "IODelSlice" -> IODelSlice(s, c.k, c.g, c.i, c.j)
    [] c.op = "IOImul"     -> IOImul(s, c.k, c.g, c.i)
    [] c.op = "IOIadd"     -> IOIadd(s, c.k, c.g, c.vs)
    [] c.op = "IOReverse"  -> IOReverse(s, c.k, c.g)
    [] c.op = "InitSet"    -> InitSet(s, c.g, c.name, c.v)
    [] c.op = "InitDel"    -> InitDel(s, c.g, c.name)
    [] c.op = "InitPop"    -> InitDel(s, c.g, c.name)
    [] c.op = "InitPopitem" -> InitPopitem(s, c.g)
    [] c.op = "InitClear"  -> InitClear(s, c.g)
    [] c.op = "InitAdd"    -> InitAdd(s, c.g, c.v)
    [] c.op = "InitIor"    -> InitIor(s, c.g, c.name, c.v)
    [] c.op = "Register"   -> Register(s, c.g, c.v)
    [] c.op = "SetName"    -> SetName(s, c.v, c.name)
    [] c.op = "ReplaceInput"  -> ReplaceInput(s, c.n, c.i, c.v)
    [] c.op = "ResizeInputs"  -> ResizeInputs(s, c.n, c.i)
    [] c.op = "ResizeOutputs" -> ResizeOutputs(s, c.n, c.i)
    [] c.op = "GAppend"    -> GAppend(s, c.g, c.n)
    [] c.op = "GExtend"    -> GExtend(s, c.g, c.vs)
    [] c.op = "GInsertBefore" -> GInsert(s, c.g, c.n, c.vs, TRUE)
    [] c.op = "GInsertAfter"  -> GInsert(s, c.g, c.n, c.vs, FALSE)
    [] c.op = "GRemove"    -> GRemove(s, c.g, c.vs, c.flag)
    [] c.op = "NodePrepend" -> IF s.nGraph[c.n] = 0 THEN Rej(s, "no-graph") ELSE GInsert(s, s.nGraph[c.n], c.n, c.vs, TRUE)
    [] c.op = "NodeAppend"  -> IF s.nGraph[c.n] = 0 THEN Rej(s, "no-graph") ELSE GInsert(s, s.nGraph[c.n], c.n, c.vs, FALSE)
    [] c.op = "InitSetdefault" -> InitSetdefault(s, c.g, c.name, c.v)
    [] c.op = "InitUpdate2" -> InitUpdate2(s, c.g, c.v, c.w)
    [] c.op = "NewNode"    -> NewNode(s, c.vs, c.ws, c.i, c.g)
    [] c.op = "ReplaceAllUses" -> ReplaceAllUses(s, c.v, c.w, c.flag)
    [] c.op = "ReplaceAllUsesSeq" -> ReplaceAllUsesSeq(s, c.vs, c.ws, c.flag)
    [] c.op = "InitUpdateKeys" -> InitUpdateKeys(s, c.g, c.name, c.v, c.k, c.w)
    [] c.op = "ReplaceNodes" -> ReplaceNodes(s, c.g, c.n, c.vs, c.ws, c.v, c.w)
    [] c.op = "NewGraph" -> NewGraph(s, c.g, c.vs, c.ws, c.v, c.n)
    [] c.op = "GExtendGen" -> GExtendGen(s, c.g, c.v, c.i)

ApplyAll(s, cs) == FoldLeft(LAMBDA acc, c : Apply(acc, c).s, s, cs)
Outcomes(s, cs) ==   \* the sequence of [c, out] records of running cs from s
  FoldLeft(LAMBDA acc, c : LET r == Apply(acc.s, c) IN [s |-> r.s, h |-> Append(acc.h, [c |-> c, out |-> r.out])],
           [s |-> s, h |-> <<>>], cs).h

\* =======================================================================================
\* Observable projection (what project() computes from the real objects through public
\* accessors) and the C01 invariants, stated over the observable record only, so that TLC can
\* evaluate them both on model states and on states observed from the implementation.
\* =======================================================================================
ValueGraph(s, v) == IF s.vOwner[v] # 0 THEN s.vOwner[v]
                    ELSE IF s.vProd[v] # 0 THEN s.nGraph[s.vProd[v]] ELSE 0

Obs(s) ==
  [ nIn |-> s.nIn, nOut |-> s.nOut, nGraph |-> s.nGraph,
    gNodes |-> s.gNodes, gIn |-> s.gIn, gOut |-> s.gOut,
    gInitK |-> [g \in DOMAIN s.gInit |-> [x \in DOMAIN s.gInit[g] |-> s.gInit[g][x][1]]],
    gInitV |-> [g \in DOMAIN s.gInit |-> [x \in DOMAIN s.gInit[g] |-> s.gInit[g][x][2]]],
    vProd |-> s.vProd, vIdx |-> s.vIdx,
    vUses |-> [v \in DOMAIN s.vUses |-> SetToSortSeq(s.vUses[v], <)],
    vGraph |-> [v \in DOMAIN s.vProd |-> ValueGraph(s, v)],
    vIsIn |-> s.vIsIn, vIsOut |-> s.vIsOut, vIsInit |-> s.vIsInit, vName |-> s.vName ]

OVals(o) == DOMAIN o.vProd
ONods(o) == DOMAIN o.nIn
OGrs(o)  == DOMAIN o.gNodes

\* a value lists a (node, index) use exactly when that node holds it at that input index
UseDef(o) ==
  /\ \A v \in OVals(o) : \A x \in DOMAIN o.vUses[v] :
        LET u == o.vUses[v][x] IN
        /\ UseNode(u) \in ONods(o)
        /\ UseIdx(u) + 1 \in DOMAIN o.nIn[UseNode(u)]
        /\ o.nIn[UseNode(u)][UseIdx(u) + 1] = v
  /\ \A n \in ONods(o) : \A x \in DOMAIN o.nIn[n] :
        o.nIn[n][x] # 0 => InSeq(o.vUses[o.nIn[n][x]], UC(n, x - 1))
  /\ \A v \in OVals(o) : \A x, y \in DOMAIN o.vUses[v] : x # y => o.vUses[v][x] # o.vUses[v][y]

\* every node output names that node and position as its producer (and only those do)
ProducerOK(o) ==
  /\ \A n \in ONods(o) : \A x \in DOMAIN o.nOut[n] :
        o.vProd[o.nOut[n][x]] = n /\ o.vIdx[o.nOut[n][x]] = x - 1
  /\ \A v \in OVals(o) : o.vProd[v] # 0 => InSeq(o.nOut[o.vProd[v]], v)

\* a node names a graph exactly when that graph's node sequence contains it, once
NodeGraphOK(o) ==
  \A n \in ONods(o) : \A g \in OGrs(o) :
     /\ CountIn(o.gNodes[g], n) <= 1
     /\ (o.nGraph[n] = g) <=> InSeq(o.gNodes[g], n)

\* a value reports being input/output/initializer of a graph exactly when it is in that collection
FlagsOK(o) ==
  \A v \in OVals(o) :
     /\ o.vIsIn[v]   <=> \E g \in OGrs(o) : InSeq(o.gIn[g], v)
     /\ o.vIsOut[v]  <=> \E g \in OGrs(o) : InSeq(o.gOut[g], v)
     /\ o.vIsInit[v] <=> \E g \in OGrs(o) : InSeq(o.gInitV[g], v)
     /\ \A g \in OGrs(o) :
          (InSeq(o.gIn[g], v) \/ InSeq(o.gOut[g], v) \/ InSeq(o.gInitV[g], v)) => o.vGraph[v] = g

\* each initializer stored under its current name, keys distinct
InitKeyOK(o) ==
  \A g \in OGrs(o) :
     /\ \A x \in DOMAIN o.gInitK[g] : o.gInitK[g][x] = o.vName[o.gInitV[g][x]]
     /\ \A x, y \in DOMAIN o.gInitK[g] : x # y => o.gInitK[g][x] # o.gInitK[g][y]

\* graph inputs and initializers have no producing node
NoProducer(o) ==
  \A g \in OGrs(o) : \A v \in OVals(o) :
     (InSeq(o.gIn[g], v) \/ InSeq(o.gInitV[g], v)) => o.vProd[v] = 0

C01Inv(o) == UseDef(o) /\ ProducerOK(o) /\ NodeGraphOK(o) /\ FlagsOK(o) /\ InitKeyOK(o) /\ NoProducer(o)

\* mechanism invariant: the reference counters are the multiplicities, the cached owner is exact
CountOK(s) ==
  \A g \in Grs(s) : \A v \in Vals(s) :
     /\ s.cIn[g][v] = CountIn(s.gIn[g], v)
     /\ s.cOut[g][v] = CountIn(s.gOut[g], v)
OwnerOK(s) ==
  \A v \in Vals(s) :
     /\ Owned(s, v) <=> s.vOwner[v] # 0
     /\ s.vOwner[v] # 0 => \/ InSeq(s.gIn[s.vOwner[v]], v) \/ InSeq(s.gOut[s.vOwner[v]], v)
                           \/ \E p \in RangeS(s.gInit[s.vOwner[v]]) : p[2] = v
=============================================================================
