\* focus: multi-element arguments of graph.inputs / graph.outputs (failure at the k-th element)
CONSTANTS
  NG = 2
  InitNames <- Names4
  InitConsts <- Consts4
  NamePool = {"a", "b"}
  Focus = {"InitUpdate2","InitUpdateKeys","IOAppend","IOExtend","IOSetSlice","IODelSlice","IOPop","InitAdd"}
  SeedIds = {0,1,2,5}
  OpGraphs = {1}
  ForeignOps = {"IOAppend","InitAdd"}
  PairVals = {1,2,5}
  MaxVals = 5
  MaxNodes = 1
  MaxLen = 3
  MaxDepth = 3
  EmitOn = TRUE
INIT Init
NEXT Next
VIEW View
CONSTRAINT Bound
INVARIANT EmitState
INVARIANT InvUseDef
INVARIANT InvProducerOK
INVARIANT InvNodeGraphOK
INVARIANT InvFlagsOK
INVARIANT InvInitKeyOK
INVARIANT InvNoProducer
INVARIANT InvCountOK
INVARIANT InvOwnerOK
PROPERTY RejectAtomic
