CONSTANTS
  MaxDepth = 3
  EmitOn = TRUE
  Nested = FALSE
INIT Init
NEXT Next
VIEW View
CONSTRAINT Bound
INVARIANT EmitState
INVARIANT InvNoDangle
INVARIANT InvWellFormed
INVARIANT InvCanonical
INVARIANT InvC01
PROPERTY RejectAtomic
