CONSTANTS
  SeedIds = {1, 2, 3, 4, 5}
  Focus = {"Clone","SetDtype","SetType","SetDim","SetDenot","SetShape","MetaPut","ValMetaPut","MetaInvalidate","SetConst","SetName","NodeMetaPut","AttrPut","AttrDel","ReplaceInput","ResizeOutputs","GRemove","GraphMetaPut","IOPop","IOAppend","InitDel"}
  MaxGraphs = 4
  MaxDepth = 3
  EditVals = {1, 5, 6, 7, 8, 9, 10, 11, 12}
  EditNodes = {1, 2, 4, 5}
  EmitOn = TRUE
INIT Init
NEXT Next
VIEW View
CONSTRAINT Bound
INVARIANT EmitState
INVARIANT InvC01
INVARIANT InvMech
PROPERTY CloneClosed
PROPERTY CloneFresh
PROPERTY RejectAtomic
