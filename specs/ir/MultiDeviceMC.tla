---------------------------- MODULE MultiDeviceMC ----------------------------
EXTENDS MultiDevice, Json

CONSTANTS MaxDepth, EmitOn,
          Nested      \* TRUE: the second node lives in a second graph - the body of the first node - and captures
                      \* values of the main graph (annotations on captured values, scoped name resolution on reload)

Names4  == <<"a", "b", "c", "d">>
Consts4 == <<TRUE, TRUE, FALSE, TRUE>>

VARIABLES st, last, hist
vars == <<st, last, hist>>

C(op) == [NoCall EXCEPT !.op = op]
ShardCall(n, v, cfg, axis, k, devs, stage) ==
  [C("Shard") EXCEPT !.n = n, !.v = v, !.g = cfg, !.i = axis, !.j = k, !.vs = devs, !.w = stage + 2]

\* model graph: in v1 (rank 2), v2 (rank ?) ; n1(v1, v2) -> o5 (rank 2), o6 (rank ?) ; n2(o5, v1) -> o7 ; out o7
SeedCalls ==
  << [C("IOAppend") EXCEPT !.k = "in", !.g = 1, !.v = 1],
     [C("IOAppend") EXCEPT !.k = "in", !.g = 1, !.v = 2],
     [C("NewNode") EXCEPT !.vs = <<1, 2>>, !.i = 2, !.g = 1],
     [C("NewNode") EXCEPT !.vs = <<5, 1>>, !.i = 1, !.g = 1],
     [C("IOAppend") EXCEPT !.k = "out", !.g = 1, !.v = 7],
     [C("AddCfg") EXCEPT !.name = "c1", !.i = 2],
     ShardCall(1, 5, 1, 0, 2, <<0, 1>>, NoStage) >>

\* nested variant: in v1, v2 ; n1(v1, v2) -> o5, o6 [body: graph 2] ; graph 2: n2(o5, v1) -> o7 (renamed "y") ; out o5 / o7
SeedCallsNested ==
  << [C("IOAppend") EXCEPT !.k = "in", !.g = 1, !.v = 1],
     [C("IOAppend") EXCEPT !.k = "in", !.g = 1, !.v = 2],
     [C("NewNode") EXCEPT !.vs = <<1, 2>>, !.i = 2, !.g = 1],
     [C("NewNode") EXCEPT !.vs = <<5, 1>>, !.i = 1, !.g = 2],
     [C("SetName") EXCEPT !.v = 7, !.name = "y"],
     [C("IOAppend") EXCEPT !.k = "out", !.g = 1, !.v = 5],
     [C("IOAppend") EXCEPT !.k = "out", !.g = 2, !.v = 7],
     [C("AddCfg") EXCEPT !.name = "c1", !.i = 2],
     ShardCall(1, 5, 1, 0, 2, <<0, 1>>, NoStage),
     ShardCall(2, 1, 1, 0, 2, <<0, 1>>, NoStage) >>
Seeds == IF Nested THEN SeedCallsNested ELSE SeedCalls

Empty ==
  [s |-> EmptyState(IF Nested THEN 2 ELSE 1, Names4, Consts4), rank |-> <<2, -1, -1, 2, 2, -1, 2>>,
   cfgs |-> <<>>, cname |-> <<>>, cndev |-> <<>>, ann |-> <<>>]

Init ==
  /\ st = MApplyAll(Empty, Seeds)
  /\ hist = MOutcomes(Empty, Seeds)
  /\ last = [c |-> NoCall, out |-> "init"]

N == 1..Len(st.s.nIn)
CfgIds == 1..Len(st.cname)
ShardArgs == {<<0, 2, NoStage>>, <<1, 2, NoStage>>, <<-1, 2, NoStage>>, <<2, 2, NoStage>>, <<0, 0, NoStage>>,
              <<0, 2, 0>>, <<0, 2, 1>>, <<1, 2, -2>>}

Calls ==
     {ShardCall(n, v, cfg, a[1], a[2], devs, a[3]) :
          n \in N, v \in {0, 1, 2, 5, 6, 7}, cfg \in RangeS(st.cfgs), a \in ShardArgs, devs \in {<<>>, <<1>>}}
  \cup {[C("SetStage") EXCEPT !.n = n, !.g = cfg, !.i = sg] : n \in N, cfg \in RangeS(st.cfgs), sg \in {0, 1, -1}}
  \cup {[C("AddCfg") EXCEPT !.name = nm, !.i = nd] : nm \in {"c1", "c2", ""}, nd \in {0, 2}}
  \cup {[C("RemoveCfgObj") EXCEPT !.g = cfg] : cfg \in CfgIds}
  \cup {[C("RemoveCfgName") EXCEPT !.name = nm] : nm \in {"c1", "c2"}}
  \cup {[C("ReplaceInput") EXCEPT !.n = n, !.i = i, !.v = v] : n \in N, i \in {0, 1}, v \in {0, 1, 2, 5}}
  \cup {[C("ResizeOutputs") EXCEPT !.n = n, !.i = k] : n \in N, k \in {0, 1, 2}}
  \cup {[C("ResizeInputs") EXCEPT !.n = n, !.i = k] : n \in N, k \in {1, 2}}
  \cup {[C("ReplaceAllUses") EXCEPT !.v = v, !.w = w, !.flag = TRUE] : v \in {1, 5}, w \in {1, 2, 5}}
  \cup {[C("SetName") EXCEPT !.v = v, !.name = nm] : v \in {1, 5}, nm \in {"x", "b"}}

Next ==
  \E c \in Calls :
     LET r == MApply(st, c) IN
     /\ st' = r.s
     /\ last' = [c |-> c, out |-> r.out]
     /\ hist' = Append(hist, last')

Bound == TLCGet("level") <= MaxDepth /\ Len(st.s.vProd) <= 9
View == st

Compact(c) == <<c.op, c.g, c.n, c.v, c.w, c.i, c.j, c.vs, c.ws, c.k, c.flag, c.name>>
Row(c) == LET r == MApply(st, c) IN
          IF r.out = "ok" THEN [c |-> Compact(c), out |-> r.out, post |-> r.s, ser |-> SerAnn(r.s),
                                ser2 |-> IF Nested THEN SerAnnG(r.s, 2) ELSE <<>>]
          ELSE [c |-> Compact(c), out |-> r.out]
EmitState ==
  (EmitOn /\ Bound) =>
     LET cs == SetToSeq(Calls) IN
     PrintT(ToJson([h |-> [x \in DOMAIN hist |-> <<Compact(hist[x].c), hist[x].out>>],
                    pre |-> st, ser |-> SerAnn(st), ser2 |-> IF Nested THEN SerAnnG(st, 2) ELSE <<>>,
                    rows |-> [x \in DOMAIN cs |-> Row(cs[x])]]))

InvNoDangle == NoDangle(st)
InvWellFormed == WellFormed(st)
InvCanonical == Canonical(st)
InvC01 == C01Inv(Obs(st.s))
RejectAtomic == [][IsRej(last'.out) => st' = st]_vars
=============================================================================
