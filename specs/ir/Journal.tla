------------------------------- MODULE Journal -------------------------------
(***************************************************************************)
(* Journaling (C20) on top of IRGraph.                                     *)
(*                                                                         *)
(* State: st   the IRGraph state (journaling must not influence it)        *)
(*        stack the active journals, innermost last.  Entering a journal   *)
(*             wraps every instrumented class attribute around whatever is *)
(*             installed at that moment (so an inner journal wraps the     *)
(*             outer journal's wrappers); leaving restores what it found.  *)
(*        ent  per journal: the recorded entries ("Class.operation")       *)
(*                                                                         *)
(* JOps(s, c, r) transcribes, for a call c made in state s with result r,  *)
(* the instrumented operations the library performs in program order:      *)
(*   all  - entries as the wrappers record them (methods and setters       *)
(*          record BEFORE calling the original, constructors AFTER)        *)
(*   done - the entries of the operations that completed                   *)
(* The property (one entry per completed instrumented operation, in        *)
(* program order) is judged with `done`; `all` is the exact prediction     *)
(* used for conformance.                                                   *)
(***************************************************************************)
EXTENDS IRGraph

Rep(n, x) == [i \in 1..n |-> x]
Flat(qq) == FoldLeft(LAMBDA a, b : a \o b, <<>>, qq)

\* entries produced by graph g adopting node n (_set_node_graph_to_self_and_assign_names)
AdoptOps(s, n) ==
  Flat([x \in DOMAIN s.nOut[n] |-> IF s.vName[s.nOut[n][x]] = NoName THEN <<"Value.set_name">> ELSE <<>>])
    \o <<"Node.set_graph">>
\* the same for a sequence of nodes adopted one after the other (names given to earlier nodes stay)
RECURSIVE AdoptAll(_, _, _)
AdoptAll(s, g, ns) ==
  IF ns = <<>> THEN <<>>
  ELSE AdoptOps(s, ns[1]) \o AdoptAll(RegisterNode(s, g, ns[1]), g, Tail(ns))

Both(q) == [all |-> q, done |-> q]
Tried(q) == [all |-> q, done |-> <<>>]      \* recorded, but the operation raised
IfOk(r, q) == IF r.out = "ok" THEN Both(q) ELSE Tried(q)

JOps(s, c, r) ==
  LET ok == r.out = "ok" IN
  CASE c.op = "IOAppend"   -> IfOk(r, <<"Graph.append_io">>)
    [] c.op = "IOExtend"   -> IfOk(r, <<"Graph.extend_io">>)
    [] c.op = "IOInsert"   -> IfOk(r, <<"Graph.insert_io">>)
    [] c.op = "IOPop"      -> IfOk(r, <<"Graph.pop_io">>)
    [] c.op = "IORemove"   -> IfOk(r, <<"Graph.remove_io">>)
    [] c.op = "IOClear"    -> IfOk(r, <<"Graph.clear_io">>)
    [] c.op = "IOSetItem"  -> IfOk(r, <<"Graph.set_io">>)
    [] c.op = "IOSetSlice" -> IfOk(r, <<"Graph.set_io">>)
    [] c.op \in {"IODelItem", "IODelSlice", "IOReverse", "IOImul", "IOIadd", "ReplaceInput"} -> Both(<<>>)
    [] c.op \in {"InitSet", "InitIor"} ->
         IF ok THEN Both(<<"Graph.set_initializer">> \o (IF HasName(s, c.v) THEN <<>> ELSE <<"Value.set_name">>))
         ELSE Tried(<<"Graph.set_initializer">>)
    [] c.op = "InitDel"    -> IfOk(r, <<"Graph.delete_initializer">>)
    [] c.op = "InitPop"    -> IF ok THEN Both(<<"Graph.delete_initializer">>) ELSE Both(<<>>)
    [] c.op = "InitPopitem" -> IF ok THEN Both(<<"Graph.delete_initializer">>) ELSE Both(<<>>)
    [] c.op = "InitClear"  -> Both(Rep(Len(s.gInit[c.g]), "Graph.delete_initializer"))
    [] c.op = "InitAdd"    ->
         IF ok THEN Both(<<"Graph.set_initializer">>) ELSE Tried(<<"Graph.set_initializer">>)
    [] c.op = "Register"   ->
         IF ok THEN Both(<<"Graph.register_initializer", "Graph.set_initializer">>)
         ELSE IF r.out \in {"no-name", "collision", "no-const"} THEN Tried(<<"Graph.register_initializer">>)
         ELSE [all |-> <<"Graph.register_initializer", "Graph.set_initializer">>, done |-> <<>>]
    [] c.op = "SetName"    ->
         IF ~ok THEN Tried(<<"Value.set_name">>)
         ELSE IF s.vIsInit[c.v] /\ s.vName[c.v] # c.name
              THEN Both(<<"Value.set_name", "Graph.delete_initializer", "Graph.set_initializer">>)
              ELSE Both(<<"Value.set_name">>)
    [] c.op = "ResizeInputs" -> IfOk(r, <<"Node.resize_inputs">>)
    [] c.op = "ResizeOutputs" ->
         IF ~ok THEN Tried(<<"Node.resize_outputs">>)
         ELSE LET grow == Len(r.s.vProd) - Len(s.vProd)
              IN Both(<<"Node.resize_outputs">> \o Rep(grow, "Value.init") \o Rep(grow, "Value.set_name"))
    [] c.op = "GAppend"    -> IF ok THEN Both(<<"Graph.append">> \o AdoptOps(s, c.n)) ELSE Tried(<<"Graph.append">>)
    [] c.op = "GExtend"    -> IF ok THEN Both(<<"Graph.extend">> \o AdoptAll(s, c.g, c.vs)) ELSE Tried(<<"Graph.extend">>)
    \* the iterable builds c.i nodes (each: the fresh output, the node, the harness naming the output) INSIDE extend,
    \* then raises: those constructions completed, extend itself did not
    [] c.op = "GExtendGen" ->
         LET inner == Flat(Rep(c.i, <<"Value.init", "Node.init", "Value.set_name">>))
         IN [all |-> <<"Graph.extend">> \o inner, done |-> inner]
    [] c.op = "GInsertBefore" -> IF ok THEN Both(<<"Graph.insert_before">> \o AdoptAll(s, c.g, c.vs)) ELSE Tried(<<"Graph.insert_before">>)
    [] c.op = "GInsertAfter" -> IF ok THEN Both(<<"Graph.insert_after">> \o AdoptAll(s, c.g, c.vs)) ELSE Tried(<<"Graph.insert_after">>)
    [] c.op = "GRemove"    ->
         IF ok THEN Both(<<"Graph.remove">> \o Rep(Cardinality(RangeS(c.vs)), "Node.set_graph")) ELSE Tried(<<"Graph.remove">>)
    [] c.op = "NewNode"    ->
         IF ~ok THEN Both(<<>>)
         ELSE LET fresh == IF c.ws = <<>> THEN c.i ELSE 0
                  unnamed == IF c.ws = <<>> THEN c.i
                             ELSE Cardinality({x \in DOMAIN c.ws : s.vName[c.ws[x]] = NoName})
              IN Both(Rep(fresh, "Value.init")
                      \o (IF c.g # 0 THEN <<"Graph.append">> \o Rep(unnamed, "Value.set_name") \o <<"Node.set_graph">> ELSE <<>>)
                      \o <<"Node.init">> \o Rep(fresh, "Value.set_name"))
    [] c.op = "ReplaceAllUses" ->
         IF r.out = "is-output" THEN Tried(<<"Value.replace_all_uses_with">>)
         ELSE IF ~ok THEN [all |-> <<"Value.replace_all_uses_with", "Graph.set_io">>, done |-> <<>>]
         ELSE Both(<<"Value.replace_all_uses_with">>
                   \o (IF s.vIsOut[c.v] THEN Rep(CountIn(s.gOut[s.vOwner[c.v]], c.v), "Graph.set_io") ELSE <<>>))

\* ---- the journal machine -----------------------------------------------------------------------
\* js = [st, stack, ent]
JEnter(js) == [js EXCEPT !.stack = Append(@, Len(js.ent) + 1), !.ent = Append(@, <<>>)]
JExit(js) == [js EXCEPT !.stack = SubSeq(@, 1, Len(@) - 1)]
JOp(js, c) ==
  LET r == Apply(js.st, c)
      o == JOps(js.st, c, r)
  IN [js |-> [js EXCEPT !.st = r.s,
                        !.ent = [j \in DOMAIN @ |-> IF InSeq(js.stack, j) THEN @[j] \o o.all ELSE @[j]]],
      out |-> r.out, all |-> o.all, done |-> o.done]
=============================================================================
