------------------------------ MODULE IRGraphMC ------------------------------
(***************************************************************************)
(* Design model over IRGraph: every history of the public mutator alphabet *)
(* (including the calls that must be rejected) over a small universe.      *)
(* Variables: st (the IRGraph state), last (the call just made and its     *)
(* outcome), hist (the whole history; hidden from the fingerprint by VIEW).*)
(*                                                                         *)
(* EmitState is listed as an INVARIANT so that it is evaluated exactly     *)
(* once per distinct state: it prints the first-found history of the state *)
(* and, for EVERY candidate call of that state, the outcome the model      *)
(* predicts and (for accepted calls) the full successor state.  The        *)
(* replay harness brings the real objects to the state along the history   *)
(* and performs every listed call against it.                              *)
(***************************************************************************)
EXTENDS IRGraph, Json

CONSTANTS
  NG,          \* number of graphs
  InitNames,   \* names of the pre-existing standalone values
  InitConsts,  \* which of them carry a const_value
  NamePool,    \* names used by rename / initializer keys
  Focus,       \* set of op names enabled in this configuration
  SeedIds,     \* which seed histories to start from
  OpGraphs,    \* graphs on which the full alphabet is attempted
  ForeignOps,  \* ops also attempted on the other graphs (to create foreign ownership)
  PairVals,    \* value ids used in multi-element arguments
  MaxVals, MaxNodes, MaxLen,  \* bounds: values, nodes, length of any IO list / initializer dict
  MaxDepth,    \* bound on the number of calls after the seed
  EmitOn       \* TRUE: print every explored state with its candidate calls

\* constant values a .cfg file cannot spell (tuples)
Names4  == <<"a", "b", "a", "<none>">>
Consts4 == <<TRUE, TRUE, FALSE, TRUE>>
Names3  == <<"a", "b", "<none>">>
Consts3 == <<TRUE, FALSE, TRUE>>

VARIABLES st, last, hist
vars == <<st, last, hist>>

C(op) == [NoCall EXCEPT !.op = op]
NV0 == Len(InitNames)

\* ---- seed histories: interesting non-empty starting points -----------------------------
Seed(id) ==
  CASE id = 0 -> <<>>
    \* one graph input feeding a node in graph 1 whose output is the graph output
    [] id = 1 -> << [C("IOAppend") EXCEPT !.k = "in", !.g = 1, !.v = 1],
                    [C("NewNode") EXCEPT !.vs = <<1, 0>>, !.i = 1, !.g = 1],
                    [C("IOAppend") EXCEPT !.k = "out", !.g = 1, !.v = NV0 + 1] >>
    \* a value that is input, output and initializer at once, and listed twice as output
    [] id = 2 -> << [C("IOAppend") EXCEPT !.k = "in", !.g = 1, !.v = 1],
                    [C("IOAppend") EXCEPT !.k = "out", !.g = 1, !.v = 1],
                    [C("IOAppend") EXCEPT !.k = "out", !.g = 1, !.v = 1],
                    [C("InitAdd") EXCEPT !.g = 1, !.v = 1] >>
    \* two nodes in a chain in graph 1, a detached node, an initializer used twice by the first
    [] id = 3 -> << [C("InitAdd") EXCEPT !.g = 1, !.v = 2],
                    [C("NewNode") EXCEPT !.vs = <<2, 2>>, !.i = 2, !.g = 1],
                    [C("NewNode") EXCEPT !.vs = <<NV0 + 1>>, !.i = 1, !.g = 1],
                    [C("NewNode") EXCEPT !.vs = <<NV0 + 3, 1>>, !.i = 1, !.g = 0] >>
    \* a node living in graph 2 whose output is an output of graph 2; graph 1 has an input and a node
    [] id = 4 -> << [C("NewNode") EXCEPT !.vs = <<1>>, !.i = 1, !.g = 2],
                    [C("IOAppend") EXCEPT !.k = "out", !.g = 2, !.v = NV0 + 1],
                    [C("IOAppend") EXCEPT !.k = "in", !.g = 1, !.v = 2],
                    [C("NewNode") EXCEPT !.vs = <<2>>, !.i = 1, !.g = 1] >>
    \* a value owned by graph 2 as input and initializer, graph 1 has an output
    [] id = 5 -> << [C("IOAppend") EXCEPT !.k = "in", !.g = 2, !.v = 2],
                    [C("InitAdd") EXCEPT !.g = 2, !.v = 2],
                    [C("IOAppend") EXCEPT !.k = "out", !.g = 1, !.v = 1] >>

    \* a node with three outputs of which only the LAST is used (shrinking its outputs meets the unused ones first)
    [] id = 6 -> << [C("IOAppend") EXCEPT !.k = "in", !.g = 1, !.v = 1],
                    [C("NewNode") EXCEPT !.vs = <<1>>, !.i = 3, !.g = 1],
                    [C("NewNode") EXCEPT !.vs = <<NV0 + 3>>, !.i = 1, !.g = 1] >>

Empty == EmptyState(NG, InitNames, InitConsts)

Init ==
  \E id \in SeedIds :
     /\ st = ApplyAll(Empty, Seed(id))
     /\ hist = Outcomes(Empty, Seed(id))
     /\ last = [c |-> NoCall, out |-> "init"]

\* ---- candidate calls in a state ---------------------------------------------------------
V == Vals(st)
N == Nods(st)
G == 1..NG
KK == {"in", "out"}
PV == PairVals \cap V
VPairs == [1..2 -> PV]
NPairs == [1..2 -> N]
Names0 == NamePool \cup {NoName, ""}

IOCalls ==
     {[C("IOAppend") EXCEPT !.k = k, !.g = g, !.v = v] : k \in KK, g \in G, v \in V}
  \cup {[C("IOExtend") EXCEPT !.k = k, !.g = g, !.vs = vs] : k \in KK, g \in G, vs \in VPairs}
  \cup {[C("IOInsert") EXCEPT !.k = k, !.g = g, !.i = i, !.v = v] : k \in KK, g \in G, i \in {0, -1}, v \in V}
  \cup {[C("IOPop") EXCEPT !.k = k, !.g = g, !.i = i] : k \in KK, g \in G, i \in {-1, 0, 2}}
  \cup {[C("IORemove") EXCEPT !.k = k, !.g = g, !.v = v] : k \in KK, g \in G, v \in V}
  \cup {[C("IOClear") EXCEPT !.k = k, !.g = g] : k \in KK, g \in G}
  \cup {[C("IOSetItem") EXCEPT !.k = k, !.g = g, !.i = i, !.v = v] : k \in KK, g \in G, i \in {0, -1, 2}, v \in PV}
  \cup {[C("IOSetSlice") EXCEPT !.k = k, !.g = g, !.i = ab[1], !.j = ab[2], !.vs = vs] :
            k \in KK, g \in G, ab \in {<<0, 1>>, <<1, 3>>}, vs \in {<<>>} \cup [1..1 -> PV] \cup VPairs}
  \cup {[C("IODelItem") EXCEPT !.k = k, !.g = g, !.i = i] : k \in KK, g \in G, i \in {0, -1, 2}}
  \cup {[C("IODelSlice") EXCEPT !.k = k, !.g = g, !.i = ab[1], !.j = ab[2]] : k \in KK, g \in G, ab \in {<<0, 1>>, <<1, 3>>, <<0, 2>>}}
  \cup {[C("IOImul") EXCEPT !.k = k, !.g = g, !.i = m] : k \in KK, g \in G, m \in {0, 2}}
  \cup {[C("IOIadd") EXCEPT !.k = k, !.g = g, !.vs = <<v>>] : k \in KK, g \in G, v \in PV}
  \cup {[C("IOReverse") EXCEPT !.k = k, !.g = g] : k \in KK, g \in G}

Nameless == {x \in V : st.vName[x] = NoName}     \* values that would take the key as their name

InitCalls ==
     {[C("InitSet") EXCEPT !.g = g, !.name = nm, !.v = v] : g \in G, nm \in NamePool \cup {""}, v \in V}
  \cup {[C("InitIor") EXCEPT !.g = g, !.name = nm, !.v = v] : g \in G, nm \in NamePool, v \in PV}
  \cup {[C("InitDel") EXCEPT !.g = g, !.name = nm] : g \in G, nm \in NamePool}
  \cup {[C("InitPop") EXCEPT !.g = g, !.name = nm] : g \in G, nm \in NamePool}
  \cup {[C("InitPopitem") EXCEPT !.g = g] : g \in G}
  \cup {[C("InitClear") EXCEPT !.g = g] : g \in G}
  \cup {[C("InitAdd") EXCEPT !.g = g, !.v = v] : g \in G, v \in V}
  \cup {[C("Register") EXCEPT !.g = g, !.v = v] : g \in G, v \in V}
  \cup {[C("SetName") EXCEPT !.v = v, !.name = nm] : v \in V, nm \in Names0}
  \cup {[C("SetName") EXCEPT !.v = v, !.name = BadName] : v \in {x \in V : StrictTensor(st, x)}}
  \cup {[C("InitSetdefault") EXCEPT !.g = g, !.name = nm, !.v = v] : g \in G, nm \in NamePool, v \in PV}
  \cup {[C("InitUpdate2") EXCEPT !.g = g, !.v = v, !.w = w] : g \in G, v \in PV, w \in PV}
  \* explicit keys (the second key is carried in field k): the same or another value under a second key
  \cup {[C("InitUpdateKeys") EXCEPT !.g = g, !.name = k1, !.v = v, !.k = k2, !.w = w] :
            g \in G, k1 \in NamePool, k2 \in NamePool, v \in PV \cup Nameless, w \in PV \cup Nameless}

Placed == {v \in V : st.vProd[v] # 0 /\ st.nGraph[st.vProd[v]] # 0}    \* outputs of nodes that sit in a graph
NodeCalls ==
     {[C("ReplaceInput") EXCEPT !.n = n, !.i = i, !.v = v] : n \in N, i \in {0, 1, 2}, v \in PV \cup {0, NotAValue}}
  \cup {[C("ResizeInputs") EXCEPT !.n = n, !.i = k] : n \in N, k \in {-1, 0, 1, 3}}
  \cup {[C("ResizeOutputs") EXCEPT !.n = n, !.i = k] : n \in N, k \in {-1, 0, 1, 2}}
  \cup {[C("ReplaceAllUses") EXCEPT !.v = v, !.w = w, !.flag = f] : v \in PV, w \in PV \cup {NotAValue}, f \in BOOLEAN}
  \* the sequence form: two pairs with one replacement (failure at the second pair after the first was applied)
  \* (the replacement: a pair value or any output of a node that sits in a graph - what a rewrite puts there)
  \cup {c \in {[C("ReplaceAllUsesSeq") EXCEPT !.vs = <<v1, v2>>, !.ws = <<w, w>>, !.flag = f] :
                  v1 \in PV, v2 \in PV, w \in PV \cup Placed, f \in BOOLEAN} : c.vs[1] # c.vs[2]}
  \* a chain: the replacement of the first pair is the value replaced by the second (what the first pair leaves
  \* behind - an output role, an owner - decides whether the second is acceptable)
  \cup {c \in {[C("ReplaceAllUsesSeq") EXCEPT !.vs = <<v1, v2>>, !.ws = <<v2, w>>, !.flag = f] :
                  v1 \in PV, v2 \in PV, w \in PV, f \in BOOLEAN} : c.vs[1] # c.vs[2] /\ c.ws[2] # c.vs[2]}

\* node pairs: all ordered pairs of distinct nodes plus one repeated pair
NPairs2 == {q \in NPairs : q[1] # q[2] \/ q[1] = 1}

GraphCalls ==
     {[C("GAppend") EXCEPT !.g = g, !.n = n] : g \in G, n \in N}
  \cup {[C("GExtend") EXCEPT !.g = g, !.vs = ns] : g \in G, ns \in NPairs2}
  \cup {[C("GInsertBefore") EXCEPT !.g = g, !.n = a, !.vs = ns] : g \in G, a \in N, ns \in [1..1 -> N] \cup NPairs2}
  \cup {[C("GInsertAfter") EXCEPT !.g = g, !.n = a, !.vs = ns] : g \in G, a \in N, ns \in [1..1 -> N] \cup NPairs2}
  \cup {[C("GRemove") EXCEPT !.g = g, !.vs = ns, !.flag = f] : g \in G, ns \in [1..1 -> N] \cup NPairs2, f \in BOOLEAN}
  \cup {[C("NodePrepend") EXCEPT !.n = a, !.vs = ns] : a \in N, ns \in [1..1 -> N]}
  \cup {[C("NodeAppend") EXCEPT !.n = a, !.vs = ns] : a \in N, ns \in [1..1 -> N]}

\* replace_nodes_and_values: one old node (also the insertion point, or another anchor), one new node or none,
\* one pair of values
ReplaceCalls ==
  {[C("ReplaceNodes") EXCEPT !.g = g, !.n = ip, !.vs = <<o>>, !.ws = nw, !.v = v, !.w = w] :
      g \in G, ip \in N, o \in N, nw \in {<<>>} \cup [1..1 -> N], v \in PV, w \in PV}

\* Graph(...): for every pristine graph slot; inputs / outputs none, one, or an increasing pair; one initializer or
\* none; one node or none
IOArgs == {<<>>} \cup [1..1 -> PV] \cup {q \in VPairs : q[1] < q[2]}
NewGraphCalls ==
  {[C("NewGraph") EXCEPT !.g = g, !.vs = ins, !.ws = outs, !.v = iv, !.n = nn] :
      g \in {x \in G : Pristine(st, x)}, ins \in IOArgs, outs \in IOArgs, iv \in PV \cup {0}, nn \in N \cup {0}}

\* Node(...): few input shapes (none / one / the same value twice / value and None), fresh or supplied outputs
NewNodeCalls ==
  IF Len(st.nIn) >= MaxNodes THEN {}
  ELSE {[C("NewNode") EXCEPT !.vs = ins, !.ws = <<>>, !.i = k, !.g = g] :
            ins \in {<<>>} \cup {<<x, x>> : x \in PV} \cup {<<x, 0>> : x \in PV} \cup {<<x, NotAValue>> : x \in PV},
            k \in {1, 2}, g \in {0, 1}}
       \cup {[C("NewNode") EXCEPT !.vs = <<>>, !.ws = outs, !.i = 0, !.g = g] :
            outs \in [1..1 -> PV] \cup {q \in VPairs : q[1] <= q[2]}, g \in {0, 1}}

Calls == {c \in IOCalls \cup InitCalls \cup NodeCalls \cup GraphCalls \cup NewNodeCalls
                \cup (IF "ReplaceNodes" \in Focus THEN ReplaceCalls ELSE {})
                \cup (IF "NewGraph" \in Focus THEN NewGraphCalls ELSE {}) :
             /\ c.op \in Focus
             /\ (c.g \in OpGraphs \cup {0} \/ c.op \in ForeignOps)}

Next ==
  \E c \in Calls :
     LET r == Apply(st, c) IN
     /\ st' = r.s
     /\ last' = [c |-> c, out |-> r.out]
     /\ hist' = Append(hist, last')

Spec == Init /\ [][Next]_vars

\* ---- bounds ------------------------------------------------------------------------------
Bound ==
  /\ TLCGet("level") <= MaxDepth
  /\ Len(st.vProd) <= MaxVals
  /\ \A g \in G : Len(st.gIn[g]) <= MaxLen /\ Len(st.gOut[g]) <= MaxLen /\ Len(st.gInit[g]) <= MaxLen

View == st

\* compact JSON form of a call: a tuple in the field order of NoCall
Compact(c) == <<c.op, c.g, c.n, c.v, c.w, c.i, c.j, c.vs, c.ws, c.k, c.flag, c.name>>
Row(c) == LET r == Apply(st, c) IN
          IF r.out = "ok" THEN [c |-> Compact(c), out |-> r.out, post |-> r.s]
          ELSE [c |-> Compact(c), out |-> r.out]
EmitState ==
  (EmitOn /\ Bound) =>
     LET cs == SetToSeq(Calls) IN
     PrintT(ToJson([h |-> [x \in DOMAIN hist |-> <<Compact(hist[x].c), hist[x].out>>],
                    pre |-> st,
                    rows |-> [x \in DOMAIN cs |-> Row(cs[x])]]))

\* ---- properties ---------------------------------------------------------------------------
InvUseDef      == UseDef(Obs(st))
InvProducerOK  == ProducerOK(Obs(st))
InvNodeGraphOK == NodeGraphOK(Obs(st))
InvFlagsOK     == FlagsOK(Obs(st))
InvInitKeyOK   == InitKeyOK(Obs(st))
InvNoProducer  == NoProducer(Obs(st))
InvCountOK     == CountOK(st)
InvOwnerOK     == OwnerOK(st)

\* C06 at the design level: a rejected call leaves the whole state unchanged
RejectAtomic == [][IsRej(last'.out) => st' = st]_vars
=============================================================================
