------------------------------- MODULE IRClone -------------------------------
(***************************************************************************)
(* Cloning (C13) on top of IRGraph.                                        *)
(*                                                                         *)
(* The state is a record cs:                                               *)
(*   s    the IRGraph state (structure, ownership, names)                  *)
(*   sub  per node: the graphs attached as graph attributes (nesting)      *)
(*   ty   per value: element type token ("" = no type)                     *)
(*   sh   per value: dims, <<-9>> = no shape                               *)
(*   md   per value: keys of metadata_props      mt: keys of meta          *)
(*   nmd  per node: keys of metadata_props       nat: non-graph attr names *)
(*   gmd  per graph: keys of metadata_props                                *)
(*                                                                         *)
(* CloneGraph transcribes _cloner.Cloner.clone_graph with the INTENDED     *)
(* treatment of values: everything defined by the cloned graph (inputs,    *)
(* initializers, outputs of its nodes, recursively for nested graphs) is   *)
(* mapped to a fresh object; any other value is an outer-scope value:      *)
(* shared when allowed, rejected otherwise.  Object ids are allocated in   *)
(* the order the cloner creates them.  Every attribute-level edit touches  *)
(* exactly one object: independence of the copies is thus built into the   *)
(* model, and decided on the code by conformance.                          *)
(***************************************************************************)
EXTENDS IRGraph

NoShape == <<-9>>

PadTo(q, n, d) == IF Len(q) >= n THEN q ELSE q \o [x \in 1..(n - Len(q)) |-> d]

\* bring the attribute-level components to the size of the structural state
Pad(cs) ==
  LET nv == Len(cs.s.vProd)
      nn == Len(cs.s.nIn)
      ng == Len(cs.s.gNodes)
  IN [cs EXCEPT !.sub = PadTo(@, nn, <<>>), !.ty = PadTo(@, nv, ""), !.sh = PadTo(@, nv, NoShape),
                !.dn = PadTo(@, nv, <<>>), !.mi = PadTo(@, nv, {}),
                !.md = PadTo(@, nv, {}), !.mt = PadTo(@, nv, {}), !.nmd = PadTo(@, nn, {}),
                !.nat = PadTo(@, nn, {}), !.gmd = PadTo(@, ng, {})]

EmptyCS(s) == Pad([s |-> s, sub |-> <<>>, ty |-> <<>>, sh |-> <<>>, dn |-> <<>>, mi |-> <<>>, md |-> <<>>, mt |-> <<>>,
                   nmd |-> <<>>, nat |-> <<>>, gmd |-> <<>>])

COk(cs) == [s |-> cs, out |-> "ok"]
CRej(cs, why) == [s |-> cs, out |-> why]

\* ---- a new empty graph at the end of every graph-indexed component -------------------------
AddGraph(s) ==
  LET nv == Len(s.vProd) IN
  [s EXCEPT !.gNodes = Append(@, <<>>), !.gIn = Append(@, <<>>), !.gOut = Append(@, <<>>),
            !.gInit = Append(@, <<>>), !.cIn = Append(@, [v \in 1..nv |-> 0]),
            !.cOut = Append(@, [v \in 1..nv |-> 0]), !.gCnt = Append(@, 0), !.gSeen = Append(@, {})]

\* ---- the cloner --------------------------------------------------------------------------
\* acc: [cs, vmap (per value id of the source universe: clone id or 0), err]
MapFresh(acc, v) ==   \* _clone_or_get_value
  IF acc.vmap[v] # 0 THEN acc
  ELSE LET nv == Len(acc.cs.s.vProd)
           s1 == AddFreshVals(acc.cs.s, 1)
           s2 == [s1 EXCEPT !.vName[nv + 1] = acc.cs.s.vName[v], !.vConst[nv + 1] = acc.cs.s.vConst[v]]
           c1 == Pad([acc.cs EXCEPT !.s = s2])
           c2 == [c1 EXCEPT !.ty[nv + 1] = acc.cs.ty[v], !.sh[nv + 1] = acc.cs.sh[v], !.dn[nv + 1] = acc.cs.dn[v],
                            !.md[nv + 1] = acc.cs.md[v], !.mt[nv + 1] = acc.cs.mt[v], !.mi[nv + 1] = acc.cs.mi[v]]
       IN [acc EXCEPT !.cs = c2, !.vmap = [PadTo(@, nv + 1, 0) EXCEPT ![v] = nv + 1]]

DefinedBy(cs, g) ==   \* values the graph g itself defines (not recursive)
  RangeS(cs.s.gIn[g]) \cup {p[2] : p \in RangeS(cs.s.gInit[g])}
    \cup UNION {RangeS(cs.s.nOut[cs.s.gNodes[g][x]]) : x \in DOMAIN cs.s.gNodes[g]}

\* clone one node of graph g into acc; `subs` = ids of the already cloned graph attributes
\* vmap0 = the value map BEFORE the graphs attached to n were cloned: the cloner resolves a node's inputs first
CloneNode(acc, n, subs, allow, vmap0) ==
  LET cs0 == acc.cs
      ins == cs0.s.nIn[n]
      mapped(v) == IF v <= Len(vmap0) THEN vmap0[v] ELSE 0
      outer == {x \in DOMAIN ins : ins[x] # 0 /\ mapped(ins[x]) = 0}
      newins == [x \in DOMAIN ins |-> IF ins[x] = 0 THEN 0 ELSE IF mapped(ins[x]) # 0 THEN mapped(ins[x]) ELSE ins[x]]
      k == Len(cs0.s.nOut[n])
      nv == Len(cs0.s.vProd)
      nn == Len(cs0.s.nIn)
      r == NewNode(cs0.s, newins, <<>>, k, 0)
      s1 == [r.s EXCEPT !.vName = [v \in DOMAIN @ |-> IF v > nv THEN cs0.s.vName[cs0.s.nOut[n][v - nv]] ELSE @[v]],
                        !.vConst = [v \in DOMAIN @ |-> IF v > nv THEN cs0.s.vConst[cs0.s.nOut[n][v - nv]] ELSE @[v]]]
      c1 == Pad([cs0 EXCEPT !.s = s1])
      c2 == [c1 EXCEPT !.ty = [v \in DOMAIN @ |-> IF v > nv THEN cs0.ty[cs0.s.nOut[n][v - nv]] ELSE @[v]],
                       !.sh = [v \in DOMAIN @ |-> IF v > nv THEN cs0.sh[cs0.s.nOut[n][v - nv]] ELSE @[v]],
                       !.dn = [v \in DOMAIN @ |-> IF v > nv THEN cs0.dn[cs0.s.nOut[n][v - nv]] ELSE @[v]],
                       !.md = [v \in DOMAIN @ |-> IF v > nv THEN cs0.md[cs0.s.nOut[n][v - nv]] ELSE @[v]],
                       !.mt = [v \in DOMAIN @ |-> IF v > nv THEN cs0.mt[cs0.s.nOut[n][v - nv]] ELSE @[v]],
                       !.mi = [v \in DOMAIN @ |-> IF v > nv THEN cs0.mi[cs0.s.nOut[n][v - nv]] ELSE @[v]],
                       !.sub[nn + 1] = subs, !.nmd[nn + 1] = cs0.nmd[n], !.nat[nn + 1] = cs0.nat[n]]
      base == PadTo(acc.vmap, nv + k, 0)
      vm == [v \in 1..(nv + k) |-> IF v <= nv /\ InSeq(cs0.s.nOut[n], v)
                                   THEN nv + FirstIdx(cs0.s.nOut[n], v) ELSE base[v]]
  IN IF acc.err # "" THEN acc
     ELSE IF \E x \in outer : ins[x] \in acc.srcdef THEN [acc EXCEPT !.err = "unsorted"]
     ELSE IF outer # {} /\ ~allow THEN [acc EXCEPT !.err = "outer-scope"]
     ELSE [acc EXCEPT !.cs = c2, !.vmap = vm, !.last = nn + 1]

\* Graph(inputs, outputs, nodes=..., initializers=...) from already created objects
BuildGraph(cs, ins, outs, nodes, inits) ==
  LET s0 == AddGraph(cs.s)
      g  == Len(s0.gNodes)
      s1 == [SetAllIO(s0, "in", g, ins) EXCEPT !.gIn[g] = ins]
      s2 == [SetAllIO(s1, "out", g, outs) EXCEPT !.gOut[g] = outs]
      s3 == FoldLeft(LAMBDA a, v : InitSet(a, g, a.vName[v], v).s, s2, inits)
      s4 == FoldLeft(LAMBDA a, v : RegisterValue(a, g, v), s3, ins \o inits)
      s5 == FoldLeft(LAMBDA a, n : GAppendRaw(a, g, n), s4, nodes)
  IN Pad([cs EXCEPT !.s = s5])

RECURSIVE CloneInto(_, _, _, _)
\* returns acc with acc.last = id of the new graph (when acc.err = "")
CloneInto(acc0, g, allow, depth) ==
  LET cs0 == acc0.cs
      \* values are mapped in the order the cloner creates them: inputs, initializers, then the outputs
      \* of each node when the node is cloned (after the graphs attached to it)
      a1 == FoldLeft(LAMBDA a, v : MapFresh(a, v), acc0, cs0.s.gIn[g])
      a2 == FoldLeft(LAMBDA a, p : MapFresh(a, p[2]), a1, cs0.s.gInit[g])
      step(a, n) ==
        IF a.err # "" THEN a
        ELSE LET b == IF depth > 0
                      THEN FoldLeft(LAMBDA x, sg : IF x.err # "" THEN x
                                                   ELSE LET y == CloneInto(x, sg, allow, depth - 1)
                                                        IN [y EXCEPT !.subs = Append(x.subs, y.last)],
                                    [a EXCEPT !.subs = <<>>], cs0.sub[n])
                      ELSE [a EXCEPT !.subs = <<>>]
             IN IF b.err # "" THEN b
                ELSE LET c == CloneNode(b, n, b.subs, allow, a.vmap)
                     IN [c EXCEPT !.nodes = Append(a.nodes, c.last)]
      a3 == FoldLeft(step, [a2 EXCEPT !.nodes = <<>>], cs0.s.gNodes[g])
  IN IF a3.err # "" THEN a3
     ELSE IF \E x \in DOMAIN cs0.s.gOut[g] : a3.vmap[cs0.s.gOut[g][x]] = 0 THEN [a3 EXCEPT !.err = "output-not-in-clone"]
     ELSE LET ins == [x \in DOMAIN cs0.s.gIn[g] |-> a3.vmap[cs0.s.gIn[g][x]]]
              outs == [x \in DOMAIN cs0.s.gOut[g] |-> a3.vmap[cs0.s.gOut[g][x]]]
              inits == [x \in DOMAIN cs0.s.gInit[g] |-> a3.vmap[cs0.s.gInit[g][x][2]]]
              c1 == BuildGraph(a3.cs, ins, outs, a3.nodes, inits)
              gid == Len(c1.s.gNodes)
          IN [a3 EXCEPT !.cs = [c1 EXCEPT !.gmd[gid] = cs0.gmd[g]], !.last = gid, !.nodes = acc0.nodes]

\* A use of a value that the cloned graph (or a graph nested in it) defines but that is not mapped yet
\* when its user is cloned - the output of a later node, of the node itself, or of the node carrying
\* the nested graph - is outside the cloner's contract as modelled here ("given that the nodes are
\* sorted topologically"): the design predicts a clean rejection ("unsorted").  What the code does
\* instead (it takes the value for an outer-scope value) is judged on the real result by the
\* harness: a clone that references a value defined by its source is a violation of C13.

RECURSIVE GraphsUnder(_, _, _)
GraphsUnder(cs, g, depth) ==
  {g} \cup (IF depth = 0 THEN {}
            ELSE UNION {UNION {GraphsUnder(cs, cs.sub[cs.s.gNodes[g][x]][y], depth - 1) : y \in DOMAIN cs.sub[cs.s.gNodes[g][x]]}
                        : x \in DOMAIN cs.s.gNodes[g]})

CloneGraph(cs, g, allow) ==
  LET a == CloneInto([cs |-> cs, vmap |-> [v \in 1..Len(cs.s.vProd) |-> 0], err |-> "", last |-> 0,
                      nodes |-> <<>>, subs |-> <<>>,
                      srcdef |-> UNION {DefinedBy(cs, g2) : g2 \in GraphsUnder(cs, g, 2)}], g, allow, 2)
  IN IF a.err # "" THEN CRej(cs, a.err) ELSE COk(a.cs)

\* ---- attribute-level edits: each touches exactly one object --------------------------------------
AttachSub(cs, n, g) == COk([cs EXCEPT !.sub[n] = Append(@, g)])
SetType(cs, v, t) == COk([cs EXCEPT !.ty[v] = t])
\* Value.dtype = t : a recursive type ("SEQ:<elem>") keeps its structure, the innermost element type changes;
\* without a type a tensor type is created
IsSeqTok(t) == Len(t) > 4 /\ SubSeq(t, 1, 4) = "SEQ:"
SetDtype(cs, v, t) == COk([cs EXCEPT !.ty[v] = IF IsSeqTok(@) THEN "SEQ:" \o t ELSE t])
\* Value.shape = Shape(dims): a new shape object, no dimension has a denotation
SetShape(cs, v, dims) == COk([cs EXCEPT !.sh[v] = dims, !.dn[v] = [x \in DOMAIN dims |-> ""]])
\* value.shape[i] = d : in-place edit of the shape object, denotations stay
SetDim(cs, v, i, d) ==
  IF cs.sh[v] = NoShape THEN CRej(cs, "no-shape")
  ELSE IF ~PyIdxOK(Len(cs.sh[v]), i) THEN CRej(cs, "index")
  ELSE COk([cs EXCEPT !.sh[v][PyIdx(Len(cs.sh[v]), i)] = d])
\* value.shape.set_denotation(i, k) : in-place edit of the shape object's denotation list
SetDenot(cs, v, i, k) ==
  IF cs.sh[v] = NoShape THEN CRej(cs, "no-shape")
  ELSE IF ~PyIdxOK(Len(cs.sh[v]), i) THEN CRej(cs, "index")
  ELSE COk([cs EXCEPT !.dn[v][PyIdx(Len(cs.sh[v]), i)] = k])
\* value.merge_shapes(Shape(dims)) : dimension by dimension - equal stays, a concrete one (>= 0) wins over a symbolic
\* one (-1), two different concrete ones are a conflict; a rank mismatch or a conflict rejects the WHOLE merge (C06:
\* the dimensions before the conflicting one are as they were).  Without a shape the value takes a copy of dims.
MergeDim(a, b) == IF a = b THEN a ELSE IF a >= 0 THEN a ELSE b
MergeShapes(cs, v, dims) ==
  IF cs.sh[v] = NoShape THEN SetShape(cs, v, dims)
  ELSE IF Len(cs.sh[v]) # Len(dims) THEN CRej(cs, "rank")
  ELSE IF \E i \in DOMAIN dims : cs.sh[v][i] >= 0 /\ dims[i] >= 0 /\ cs.sh[v][i] # dims[i] THEN CRej(cs, "conflict")
  ELSE COk([cs EXCEPT !.sh[v] = [i \in DOMAIN dims |-> MergeDim(@[i], dims[i])]])
MetaPut(cs, v, k) == COk([cs EXCEPT !.md[v] = @ \cup {k}])
\* value.meta[k] = ... : the key is (again) valid;  value.meta.invalidate(k): the key is marked as to be recomputed
\* (mi = the invalid keys of the value's metadata store - the store's own bookkeeping, copied by a clone)
ValMetaPut(cs, v, k) == COk([cs EXCEPT !.mt[v] = @ \cup {k}, !.mi[v] = @ \ {k}])
MetaInvalidate(cs, v, k) == COk([cs EXCEPT !.mi[v] = @ \cup {k}])
NodeMetaPut(cs, n, k) == COk([cs EXCEPT !.nmd[n] = @ \cup {k}])
GraphMetaPut(cs, g, k) == COk([cs EXCEPT !.gmd[g] = @ \cup {k}])
AttrPut(cs, n, k) == COk([cs EXCEPT !.nat[n] = @ \cup {k}])
\* node.attributes.update({k1: Attr, k2: x}) : x is an Attr (flag) or something else - then the whole update is rejected
\* (C06: the first item is not stored either)
AttrUpdate2(cs, n, k1, k2, ok2) ==
  IF ~ok2 THEN CRej(cs, "type") ELSE COk([cs EXCEPT !.nat[n] = @ \cup {k1, k2}])
AttrDel(cs, n, k) == IF k \notin cs.nat[n] THEN CRej(cs, "absent") ELSE COk([cs EXCEPT !.nat[n] = @ \ {k}])
SetConst(cs, v, b) == COk([cs EXCEPT !.s.vConst[v] = b])

CApply(cs, c) ==
  CASE c.op = "Clone"        -> CloneGraph(cs, c.g, c.flag)
    [] c.op = "AttachSub"    -> AttachSub(cs, c.n, c.g)
    [] c.op = "SetType"      -> SetType(cs, c.v, c.name)
    [] c.op = "SetDtype"     -> SetDtype(cs, c.v, c.name)
    [] c.op = "SetShape"     -> SetShape(cs, c.v, c.vs)
    [] c.op = "MergeShapes"  -> MergeShapes(cs, c.v, c.vs)
    [] c.op = "SetDim"       -> SetDim(cs, c.v, c.i, c.j)
    [] c.op = "SetDenot"     -> SetDenot(cs, c.v, c.i, c.name)
    [] c.op = "MetaPut"      -> MetaPut(cs, c.v, c.name)
    [] c.op = "ValMetaPut"   -> ValMetaPut(cs, c.v, c.name)
    [] c.op = "MetaInvalidate" -> MetaInvalidate(cs, c.v, c.name)
    [] c.op = "NodeMetaPut"  -> NodeMetaPut(cs, c.n, c.name)
    [] c.op = "GraphMetaPut" -> GraphMetaPut(cs, c.g, c.name)
    [] c.op = "AttrPut"      -> AttrPut(cs, c.n, c.name)
    [] c.op = "AttrUpdate2"  -> AttrUpdate2(cs, c.n, c.name, c.k, c.flag)
    [] c.op = "AttrDel"      -> AttrDel(cs, c.n, c.name)
    [] c.op = "SetConst"     -> SetConst(cs, c.v, c.flag)
    [] OTHER -> LET r == Apply(cs.s, c) IN [s |-> Pad([cs EXCEPT !.s = r.s]), out |-> r.out]

CApplyAll(cs, calls) == FoldLeft(LAMBDA acc, c : CApply(acc, c).s, cs, calls)
COutcomes(cs, calls) ==
  FoldLeft(LAMBDA acc, c : LET r == CApply(acc.s, c) IN [s |-> r.s, h |-> Append(acc.h, [c |-> c, out |-> r.out])],
           [s |-> cs, h |-> <<>>], calls).h

\* ---- properties of a clone, stated on the model (checked by TLC at every clone step) ----------
\* objects reachable from graph g: its values, nodes, nested graphs
RECURSIVE GraphsOf(_, _, _)
GraphsOf(cs, g, depth) ==
  {g} \cup (IF depth = 0 THEN {}
            ELSE UNION {UNION {GraphsOf(cs, cs.sub[cs.s.gNodes[g][x]][y], depth - 1) : y \in DOMAIN cs.sub[cs.s.gNodes[g][x]]}
                        : x \in DOMAIN cs.s.gNodes[g]})
NodesOf(cs, G) == UNION {RangeS(cs.s.gNodes[g]) : g \in G}
ValuesDefinedBy(cs, G) == UNION {DefinedBy(cs, g) : g \in G}
ValuesUsedBy(cs, G) == UNION {RangeS(cs.s.nIn[n]) \ {0} : n \in NodesOf(cs, G)} \cup UNION {RangeS(cs.s.gOut[g]) : g \in G}

\* Closed: every reference inside the graphs G points to a value defined by G (no outer values)
Closed(cs, G) == ValuesUsedBy(cs, G) \subseteq ValuesDefinedBy(cs, G)
=============================================================================
