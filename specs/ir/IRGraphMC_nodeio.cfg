\* focus: node inputs/outputs: replace/resize, replace-all-uses, node construction with supplied outputs
CONSTANTS
  NG = 2
  InitNames <- Names4
  InitConsts <- Consts4
  NamePool = {"a", "b"}
  Focus = {"ReplaceInput","ResizeInputs","ResizeOutputs","ReplaceAllUses","ReplaceAllUsesSeq","NewNode","IOAppend","GRemove"}
  SeedIds = {1,3,4,6}
  OpGraphs = {1}
  ForeignOps = {"IOAppend"}
  PairVals = {1,2,5}
  MaxVals = 8
  MaxNodes = 3
  MaxLen = 2
  MaxDepth = 3
  EmitOn = TRUE
INIT Init
NEXT Next
VIEW View
CONSTRAINT Bound
INVARIANT EmitState
INVARIANT InvUseDef
INVARIANT InvProducerOK
INVARIANT InvNodeGraphOK
INVARIANT InvFlagsOK
INVARIANT InvInitKeyOK
INVARIANT InvNoProducer
INVARIANT InvCountOK
INVARIANT InvOwnerOK
PROPERTY RejectAtomic
