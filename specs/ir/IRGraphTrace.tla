---------------------------- MODULE IRGraphTrace ----------------------------
(***************************************************************************)
(* Trace validation (code -> specification) for IRGraph.                   *)
(*                                                                         *)
(* The file named by the environment variable TRACE_FILE holds             *)
(*   { "ng": n, "names": [...], "consts": [...],                           *)
(*     "traces": [ [ {"c": <compact call>, "out": "ok" | "raise:<T>",      *)
(*                    "post": <observable state after the call>}, ...] ] } *)
(* recorded from the real library: one event per public call, logged at    *)
(* the call's return (also on the error path) with the full projected      *)
(* state.  For every trace the specification is stepped along the logged   *)
(* calls; a step conforms when the model's outcome class and observable    *)
(* successor state equal the logged ones.                                  *)
(*                                                                         *)
(* Independently of conformance, the C01 invariants and the C06 atomicity  *)
(* requirement are evaluated BY TLC ON EVERY OBSERVED STATE of the real    *)
(* execution.  Results are printed as JSON tuples:                         *)
(*   ["acc", tid]            trace tid conforms to the end                 *)
(*   ["div", tid, l]         first non-conforming event of trace tid       *)
(*   ["c01", tid, l, names]  event l breaks invariants that held before it  *)
(*   ["c06", tid, l]         event l raised and the observed state changed *)
(***************************************************************************)
EXTENDS IRGraph, Json, IOUtils

Data == JsonDeserialize(IOEnv.TRACE_FILE)
Traces == Data.traces
Empty == EmptyState(Data.ng, Data.names, Data.consts)

VARIABLES tid, l, st, conf
vars == <<tid, l, st, conf>>

CallOf(t) == [op |-> t[1], g |-> t[2], n |-> t[3], v |-> t[4], w |-> t[5], i |-> t[6], j |-> t[7],
              vs |-> t[8], ws |-> t[9], k |-> t[10], flag |-> t[11], name |-> t[12]]

T == Traces[tid]

Init == /\ tid \in 1..Len(Traces)
        /\ l = 1
        /\ st = Empty
        /\ conf = TRUE

Conforms(e, r) == ((e.out = "ok") <=> (r.out = "ok")) /\ Obs(r.s) = e.post

Next ==
  /\ l <= Len(T)
  /\ LET e == T[l]
         r == Apply(st, CallOf(e.c))
     IN IF conf /\ Conforms(e, r)
        THEN st' = r.s /\ conf' = TRUE
        ELSE st' = st /\ conf' = FALSE
  /\ l' = l + 1
  /\ UNCHANGED tid

Spec == Init /\ [][Next]_vars

PrevObs == IF l = 2 THEN Obs(Empty) ELSE T[l - 2].post
Broken(o) == (IF UseDef(o) THEN <<>> ELSE <<"UseDef">>) \o (IF ProducerOK(o) THEN <<>> ELSE <<"ProducerOK">>)
          \o (IF NodeGraphOK(o) THEN <<>> ELSE <<"NodeGraphOK">>) \o (IF FlagsOK(o) THEN <<>> ELSE <<"FlagsOK">>)
          \o (IF InitKeyOK(o) THEN <<>> ELSE <<"InitKeyOK">>) \o (IF NoProducer(o) THEN <<>> ELSE <<"NoProducer">>)

\* invariants broken after event l-1 that still held before it (a broken state stays broken; only
\* the event that breaks an invariant is reported)
NewlyBroken == SelectSeq(Broken(T[l - 1].post), LAMBDA x : ~InSeq(Broken(PrevObs), x))

\* evaluated once per distinct state; always TRUE, reports through PrintT
Report ==
  /\ (l > 1 /\ NewlyBroken # <<>>) => PrintT(ToJson(<<"c01", tid, l - 1, NewlyBroken>>))
  /\ (l > 1 /\ T[l - 1].out # "ok" /\ T[l - 1].post # PrevObs) => PrintT(ToJson(<<"c06", tid, l - 1>>))
  /\ (l = Len(T) + 1 /\ conf) => PrintT(ToJson(<<"acc", tid>>))

\* first divergence: reported on the transition where conf falls
ReportDiv == (conf /\ ~conf') => PrintT(ToJson(<<"div", tid, l>>))

\* while a trace conforms the model state is a state of the design spec: its mechanism invariants hold
MechOK == conf => (CountOK(st) /\ OwnerOK(st) /\ C01Inv(Obs(st)))
=============================================================================
