----------------------------- MODULE MultiDevice -----------------------------
(***************************************************************************)
(* Device annotations (C19) on top of IRGraph.                             *)
(*                                                                         *)
(* ms = [ s     IRGraph state (graph 1 is the model's graph)               *)
(*        rank  per value: known rank or -1                                *)
(*        cfgs  the configuration objects registered on the model (ids)    *)
(*        cname, cndev  per configuration object ever created              *)
(*        ann   per node: sequence of [cfg, stage (-1 = none),             *)
(*                 specs: sequence of [val, axes, devs]] ]                 *)
(* Annotations are bound to value and configuration OBJECTS (ids).         *)
(* Node.shard / set_pipeline_stage / Model.add_/remove_device_configuration*)
(* are transcribed with their rejection branches in code order; every      *)
(* structural edit drops the specs of a value that stopped being an input  *)
(* or output of the node.                                                  *)
(***************************************************************************)
EXTENDS IRGraph

NoStage == -1

IO(s, n) == (RangeS(s.nIn[n]) \ {0}) \cup RangeS(s.nOut[n])

MOk(ms) == [s |-> ms, out |-> "ok"]
MRej(ms, why) == [s |-> ms, out |-> why]

PadAnn(ms) ==
  LET nn == Len(ms.s.nIn)
      nv == Len(ms.s.vProd)
  IN [ms EXCEPT !.ann = IF Len(@) >= nn THEN @ ELSE @ \o [x \in 1..(nn - Len(@)) |-> <<>>],
                !.rank = IF Len(@) >= nv THEN @ ELSE @ \o [x \in 1..(nv - Len(@)) |-> -1]]

EntryIdx(q, cfg) == IF \E x \in DOMAIN q : q[x].cfg = cfg THEN CHOOSE x \in DOMAIN q : q[x].cfg = cfg /\ \A y \in 1..(x-1) : q[y].cfg # cfg ELSE 0
SpecIdx(q, v) == IF \E x \in DOMAIN q : q[x].val = v THEN CHOOSE x \in DOMAIN q : q[x].val = v /\ \A y \in 1..(x-1) : q[y].val # v ELSE 0
NormAxis(r, a) == IF r # -1 /\ a < 0 THEN a + r ELSE a
MergeDevs(old, new) == old \o SelectSeq(new, LAMBDA d : ~InSeq(old, d))

\* Node.shard(value, configuration=cfg, axis=, num_shards=k, device_indices=devs, pipeline_stage=stage)
Shard(ms, n, v, cfg, axis, k, devs, stage) ==
  LET r == IF v = 0 THEN -1 ELSE ms.rank[v] IN
  IF v = 0 \/ v \notin IO(ms.s, n) THEN MRej(ms, "not-io")
  ELSE IF k < 1 THEN MRej(ms, "num-shards")
  ELSE IF stage < NoStage THEN MRej(ms, "stage-negative")
  ELSE IF r # -1 /\ ~(-r <= axis /\ axis < r) THEN MRej(ms, "axis-range")
  ELSE
    LET q == ms.ann[n]
        e == EntryIdx(q, cfg)
        newspec == [val |-> v, axes |-> <<axis>>, devs |-> devs]
    IN IF e = 0 THEN MOk([ms EXCEPT !.ann[n] = Append(@, [cfg |-> cfg, stage |-> stage, specs |-> <<newspec>>])])
       ELSE IF stage # NoStage /\ q[e].stage # NoStage /\ stage # q[e].stage THEN MRej(ms, "stage-conflict")
       ELSE LET st2 == IF stage # NoStage THEN stage ELSE q[e].stage
                si == SpecIdx(q[e].specs, v)
            IN IF si = 0 THEN MOk([ms EXCEPT !.ann[n][e] = [@ EXCEPT !.stage = st2, !.specs = Append(@, newspec)]])
               ELSE IF \E x \in DOMAIN q[e].specs[si].axes : NormAxis(r, q[e].specs[si].axes[x]) = NormAxis(r, axis)
                    THEN MRej(ms, "axis-repeated")
               ELSE MOk([ms EXCEPT !.ann[n][e] = [@ EXCEPT !.stage = st2,
                             !.specs[si] = [@ EXCEPT !.axes = Append(@, axis), !.devs = MergeDevs(@, devs)]]])

SetStage(ms, n, cfg, stage) ==
  IF stage < 0 THEN MRej(ms, "stage-negative")
  ELSE LET e == EntryIdx(ms.ann[n], cfg) IN
       IF e = 0 THEN MOk([ms EXCEPT !.ann[n] = Append(@, [cfg |-> cfg, stage |-> stage, specs |-> <<>>])])
       ELSE MOk([ms EXCEPT !.ann[n][e].stage = stage])

AddCfg(ms, name, ndev) ==
  IF name = "" THEN MRej(ms, "empty-name")
  ELSE IF \E x \in DOMAIN ms.cfgs : ms.cname[ms.cfgs[x]] = name THEN MRej(ms, "duplicate-name")
  ELSE IF ndev < 1 THEN MRej(ms, "num-devices")
  ELSE LET id == Len(ms.cname) + 1
       IN MOk([ms EXCEPT !.cname = Append(@, name), !.cndev = Append(@, ndev), !.cfgs = Append(@, id)])

\* nodes the model reaches: graph 1 and, in the nested configuration, graph 2 - the body of a node of graph 1,
\* whose nodes may use (capture) values of graph 1
ModelNodes(ms) == UNION {RangeS(ms.s.gNodes[g]) : g \in DOMAIN ms.s.gNodes}

Cascade(ms, target, byName) ==
  [ms EXCEPT !.ann = [n \in DOMAIN @ |->
       IF n \in ModelNodes(ms)
       THEN SelectSeq(@[n], LAMBDA e : ~(e.cfg = target \/ (byName /\ ms.cname[e.cfg] = ms.cname[target])))
       ELSE @[n]]]

RemoveCfgObj(ms, cfg) ==
  IF ~InSeq(ms.cfgs, cfg) THEN MRej(ms, "not-registered")
  ELSE MOk(Cascade([ms EXCEPT !.cfgs = SeqWithout(@, cfg)], cfg, FALSE))

RemoveCfgName(ms, name) ==
  IF ~\E x \in DOMAIN ms.cfgs : ms.cname[ms.cfgs[x]] = name THEN MRej(ms, "not-registered")
  ELSE LET target == ms.cfgs[CHOOSE x \in DOMAIN ms.cfgs : ms.cname[ms.cfgs[x]] = name /\ \A y \in 1..(x-1) : ms.cname[ms.cfgs[y]] # name]
       IN MOk(Cascade([ms EXCEPT !.cfgs = SeqWithout(@, target)], target, TRUE))

\* a structural edit: specs of values that stopped being input/output of a node are dropped
Structural(ms, c) ==
  LET r  == Apply(ms.s, c)
      m1 == PadAnn([ms EXCEPT !.s = r.s])
      m2 == [m1 EXCEPT !.ann = [n \in DOMAIN @ |->
               IF n \in DOMAIN ms.s.nIn
               THEN LET gone == IO(ms.s, n) \ IO(r.s, n)
                    IN [x \in DOMAIN @[n] |-> [@[n][x] EXCEPT !.specs = SelectSeq(@, LAMBDA sp : sp.val \notin gone)]]
               ELSE @[n]]]
  IN [s |-> m2, out |-> r.out]

MApply(ms, c) ==
  CASE c.op = "Shard"         -> Shard(ms, c.n, c.v, c.g, c.i, c.j, c.vs, c.w - 2)   \* stage encoded +2 in w (>= 0)
    [] c.op = "SetStage"      -> SetStage(ms, c.n, c.g, c.i)
    [] c.op = "AddCfg"        -> AddCfg(ms, c.name, c.i)
    [] c.op = "RemoveCfgObj"  -> RemoveCfgObj(ms, c.g)
    [] c.op = "RemoveCfgName" -> RemoveCfgName(ms, c.name)
    [] OTHER -> Structural(ms, c)

MApplyAll(ms, cs) == FoldLeft(LAMBDA acc, c : MApply(acc, c).s, ms, cs)
MOutcomes(ms, cs) ==
  FoldLeft(LAMBDA acc, c : LET r == MApply(acc.s, c) IN [s |-> r.s, h |-> Append(acc.h, [c |-> c, out |-> r.out])],
           [s |-> ms, h |-> <<>>], cs).h

\* ---- the property -------------------------------------------------------------------------------
\* every annotation on a node of the model targets a current input/output of that node and a
\* configuration registered on the model
NoDangle(ms) ==
  \A n \in ModelNodes(ms) : \A x \in DOMAIN ms.ann[n] :
     /\ InSeq(ms.cfgs, ms.ann[n][x].cfg)
     /\ \A y \in DOMAIN ms.ann[n][x].specs : ms.ann[n][x].specs[y].val \in IO(ms.s, n)
\* the structure the library's own checker demands: axes in range and not repeated, devices in range
WellFormed(ms) ==
  \A n \in ModelNodes(ms) : \A x \in DOMAIN ms.ann[n] : \A y \in DOMAIN ms.ann[n][x].specs :
     LET sp == ms.ann[n][x].specs[y]
         r == ms.rank[sp.val]
     IN /\ \A a \in DOMAIN sp.axes : r # -1 => (-r <= sp.axes[a] /\ sp.axes[a] < r)
        /\ \A a, b \in DOMAIN sp.axes : a # b => NormAxis(r, sp.axes[a]) # NormAxis(r, sp.axes[b])
        /\ \A d \in DOMAIN sp.devs : sp.devs[d] >= 0 /\ sp.devs[d] < ms.cndev[ms.ann[n][x].cfg]
\* one entry per configuration object on a node, one spec per value in an entry
Canonical(ms) ==
  \A n \in DOMAIN ms.ann :
     /\ \A x, y \in DOMAIN ms.ann[n] : x # y => ms.ann[n][x].cfg # ms.ann[n][y].cfg
     /\ \A x \in DOMAIN ms.ann[n] : \A a, b \in DOMAIN ms.ann[n][x].specs : a # b => ms.ann[n][x].specs[a].val # ms.ann[n][x].specs[b].val

\* what serialization must write: references by CURRENT names, in node order of the model graph
SerAnnG(ms, g) ==
  [p \in DOMAIN ms.s.gNodes[g] |->
     LET n == ms.s.gNodes[g][p] IN
     [x \in DOMAIN ms.ann[n] |->
        [cfg |-> ms.cname[ms.ann[n][x].cfg], stage |-> ms.ann[n][x].stage,
         specs |-> [y \in DOMAIN ms.ann[n][x].specs |->
                      [name |-> ms.s.vName[ms.ann[n][x].specs[y].val],
                       axes |-> ms.ann[n][x].specs[y].axes, devs |-> ms.ann[n][x].specs[y].devs]]]]]
SerAnn(ms) == SerAnnG(ms, 1)
=============================================================================
