\* focus (C06): in-place edits of a value's shape and of a node's attributes that can be rejected half-way
CONSTANTS
  SeedIds = {1}
  Focus = {"MergeShapes","SetShape","SetDim","AttrUpdate2","AttrDel"}
  MaxGraphs = 4
  MaxDepth = 3
  EditVals = {1, 5, 6}
  EditNodes = {1}
  EmitOn = TRUE
INIT Init
NEXT Next
VIEW View
CONSTRAINT Bound
INVARIANT EmitState
INVARIANT InvC01
INVARIANT InvMech
PROPERTY CloneClosed
PROPERTY CloneFresh
PROPERTY RejectAtomic
