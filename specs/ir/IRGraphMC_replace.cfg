\* focus: the composite edit convenience.replace_nodes_and_values (name hand-over, replace-all-uses, insert, safe remove)
CONSTANTS
  NG = 2
  InitNames <- Names4
  InitConsts <- Consts4
  NamePool = {"a", "b"}
  Focus = {"ReplaceNodes","NewNode","IOAppend","InitAdd","GRemove"}
  SeedIds = {1,3,4}
  OpGraphs = {1}
  ForeignOps = {"IOAppend"}
  PairVals = {1,2,5,6}
  MaxVals = 8
  MaxNodes = 4
  MaxLen = 2
  MaxDepth = 2
  EmitOn = TRUE
INIT Init
NEXT Next
VIEW View
CONSTRAINT Bound
INVARIANT EmitState
INVARIANT InvUseDef
INVARIANT InvProducerOK
INVARIANT InvNodeGraphOK
INVARIANT InvFlagsOK
INVARIANT InvInitKeyOK
INVARIANT InvNoProducer
INVARIANT InvCountOK
INVARIANT InvOwnerOK
PROPERTY RejectAtomic
