\* focus: the Graph(...) constructor handed values and nodes that other graphs own, produce or name
CONSTANTS
  NG = 2
  InitNames <- Names4
  InitConsts <- Consts4
  NamePool = {"a", "b"}
  Focus = {"NewGraph","NewNode","IOAppend","InitAdd","SetName"}
  SeedIds = {0,1,3,5}
  OpGraphs = {1,2}
  ForeignOps = {"IOAppend"}
  PairVals = {1,2,5,6}
  MaxVals = 8
  MaxNodes = 4
  MaxLen = 2
  MaxDepth = 2
  EmitOn = TRUE
INIT Init
NEXT Next
VIEW View
CONSTRAINT Bound
INVARIANT EmitState
INVARIANT InvUseDef
INVARIANT InvProducerOK
INVARIANT InvNodeGraphOK
INVARIANT InvFlagsOK
INVARIANT InvInitKeyOK
INVARIANT InvNoProducer
INVARIANT InvCountOK
INVARIANT InvOwnerOK
PROPERTY RejectAtomic
