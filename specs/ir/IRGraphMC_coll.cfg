\* focus: single-element protocol of graph.inputs / graph.outputs + initializers + renaming
CONSTANTS
  NG = 2
  InitNames <- Names4
  InitConsts <- Consts4
  NamePool = {"a", "b"}
  Focus = {"InitSetdefault","IOAppend","IOInsert","IOPop","IORemove","IOClear","IOSetItem","IODelItem","IOImul","IOIadd","IOReverse","InitSet","InitIor","InitDel","InitPop","InitPopitem","InitClear","InitAdd","Register","SetName"}
  SeedIds = {0, 1, 2, 5}
  OpGraphs = {1}
  ForeignOps = {"IOAppend", "InitAdd"}
  PairVals = {1, 2, 3, 5}
  MaxVals = 5
  MaxNodes = 1
  MaxLen = 2
  MaxDepth = 3
  EmitOn = TRUE
INIT Init
NEXT Next
VIEW View
CONSTRAINT Bound
INVARIANT EmitState
INVARIANT InvUseDef
INVARIANT InvProducerOK
INVARIANT InvNodeGraphOK
INVARIANT InvFlagsOK
INVARIANT InvInitKeyOK
INVARIANT InvNoProducer
INVARIANT InvCountOK
INVARIANT InvOwnerOK
PROPERTY RejectAtomic
