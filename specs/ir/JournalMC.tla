------------------------------ MODULE JournalMC ------------------------------
(***************************************************************************)
(* Enter / Exit / ExitByException nesting interleaved with the IRGraph     *)
(* alphabet.  A step record is [kind, c, out, all, done]; EmitState as in  *)
(* IRGraphMC: per distinct state the history and every candidate step.     *)
(***************************************************************************)
EXTENDS Journal, Json

CONSTANTS Focus, MaxNest, MaxDepth, PairVals, EmitOn

Names4  == <<"a", "b", "a", "<none>">>
Consts4 == <<TRUE, TRUE, FALSE, TRUE>>

VARIABLES js, last, hist
vars == <<js, last, hist>>

C(op) == [NoCall EXCEPT !.op = op]
st == js.st

SeedCalls ==
  << [C("IOAppend") EXCEPT !.k = "in", !.g = 1, !.v = 1],
     [C("InitAdd") EXCEPT !.g = 1, !.v = 2],
     [C("NewNode") EXCEPT !.vs = <<1, 2>>, !.i = 1, !.g = 1],
     [C("IOAppend") EXCEPT !.k = "out", !.g = 1, !.v = 5],
     [C("NewNode") EXCEPT !.vs = <<5>>, !.i = 1, !.g = 0] >>

Step(kind, c, out, all, done) == [kind |-> kind, c |-> c, out |-> out, all |-> all, done |-> done]

Init ==
  /\ js = [st |-> ApplyAll(EmptyState(2, Names4, Consts4), SeedCalls), stack |-> <<>>, ent |-> <<>>]
  /\ hist = [x \in DOMAIN SeedCalls |-> Step("op", SeedCalls[x], "ok", <<>>, <<>>)]
  /\ last = Step("init", NoCall, "ok", <<>>, <<>>)

V == Vals(st)
N == Nods(st)
PV == PairVals \cap V

Calls ==
  {c \in
     {[C("IOAppend") EXCEPT !.k = k, !.g = g, !.v = v] : k \in {"in", "out"}, g \in {1, 2}, v \in PV}
  \cup {[C("IOExtend") EXCEPT !.k = "out", !.g = 1, !.vs = <<v, w>>] : v \in PV, w \in PV}
  \cup {[C("IOInsert") EXCEPT !.k = "in", !.g = 1, !.i = 0, !.v = v] : v \in PV}
  \cup {[C("IOPop") EXCEPT !.k = k, !.g = 1, !.i = -1] : k \in {"in", "out"}}
  \cup {[C("IORemove") EXCEPT !.k = "out", !.g = 1, !.v = v] : v \in PV}
  \cup {[C("IOClear") EXCEPT !.k = "in", !.g = 1]}
  \cup {[C("IOSetItem") EXCEPT !.k = "out", !.g = 1, !.i = 0, !.v = v] : v \in PV}
  \cup {[C("IODelItem") EXCEPT !.k = "out", !.g = 1, !.i = 0]}
  \cup {[C("InitSet") EXCEPT !.g = 1, !.name = nm, !.v = v] : nm \in {"a", "b", ""}, v \in PV}
  \cup {[C("InitDel") EXCEPT !.g = 1, !.name = nm] : nm \in {"a", "b"}}
  \cup {[C("InitPop") EXCEPT !.g = 1, !.name = nm] : nm \in {"a", "b"}}
  \cup {[C("InitClear") EXCEPT !.g = 1]}
  \cup {[C("InitAdd") EXCEPT !.g = g, !.v = v] : g \in {1, 2}, v \in PV}
  \cup {[C("Register") EXCEPT !.g = 1, !.v = v] : v \in PV}
  \cup {[C("SetName") EXCEPT !.v = v, !.name = nm] : v \in PV, nm \in {"a", "b", "", NoName}}
  \cup {[C("ReplaceInput") EXCEPT !.n = n, !.i = 0, !.v = v] : n \in N, v \in PV}
  \cup {[C("ResizeInputs") EXCEPT !.n = n, !.i = k] : n \in N, k \in {-1, 0, 3}}
  \cup {[C("ResizeOutputs") EXCEPT !.n = n, !.i = k] : n \in N, k \in {0, 2}}
  \cup {[C("ReplaceAllUses") EXCEPT !.v = v, !.w = w, !.flag = f] : v \in PV, w \in PV, f \in BOOLEAN}
  \cup {[C("GAppend") EXCEPT !.g = g, !.n = n] : g \in {1, 2}, n \in N}
  \cup {[C("GExtend") EXCEPT !.g = 1, !.vs = <<n, m>>] : n \in N, m \in N}
  \cup {[C("GInsertAfter") EXCEPT !.g = 1, !.n = a, !.vs = <<n>>] : a \in N, n \in N}
  \cup (IF Len(st.nIn) >= 3 THEN {} ELSE {[C("GExtendGen") EXCEPT !.g = 1, !.v = v, !.i = k] : v \in PV, k \in {1, 2}})
  \cup {[C("GRemove") EXCEPT !.g = 1, !.vs = <<n>>, !.flag = f] : n \in N, f \in BOOLEAN}
  \cup (IF Len(st.nIn) >= 3 THEN {}
        ELSE {[C("NewNode") EXCEPT !.vs = <<v>>, !.ws = <<>>, !.i = k, !.g = g] : v \in PV, k \in {1, 2}, g \in {0, 1}}
             \cup {[C("NewNode") EXCEPT !.vs = <<>>, !.ws = <<v>>, !.i = 0, !.g = g] : v \in PV, g \in {0, 1}})
   : c.op \in Focus}

Enter ==
  /\ Len(js.stack) < MaxNest
  /\ js' = JEnter(js)
  /\ last' = Step("enter", NoCall, "ok", <<>>, <<>>)
  /\ hist' = Append(hist, last')

Exit(kind) ==
  /\ js.stack # <<>>
  /\ js' = JExit(js)
  /\ last' = Step(kind, NoCall, "ok", <<>>, <<>>)
  /\ hist' = Append(hist, last')

Op ==
  \E c \in Calls :
     LET r == JOp(js, c) IN
     /\ js' = r.js
     /\ last' = Step("op", c, r.out, r.all, r.done)
     /\ hist' = Append(hist, last')

Next == Enter \/ Exit("exit") \/ Exit("exit_exc") \/ Op
Spec == Init /\ [][Next]_vars

Bound == TLCGet("level") <= MaxDepth
View == js

Compact(c) == <<c.op, c.g, c.n, c.v, c.w, c.i, c.j, c.vs, c.ws, c.k, c.flag, c.name>>
CStep(s) == [kind |-> s.kind, c |-> Compact(s.c), out |-> s.out, all |-> s.all, done |-> s.done]
Row(c) == LET r == JOp(js, c) IN CStep(Step("op", c, r.out, r.all, r.done))
EmitState ==
  (EmitOn /\ Bound) =>
     LET cs == SetToSeq(Calls) IN
     PrintT(ToJson([h |-> [x \in DOMAIN hist |-> CStep(hist[x])],
                    stack |-> js.stack, ent |-> js.ent,
                    rows |-> [x \in DOMAIN cs |-> Row(cs[x])]
                              \o (IF Len(js.stack) < MaxNest THEN <<CStep(Step("enter", NoCall, "ok", <<>>, <<>>))>> ELSE <<>>)
                              \o (IF js.stack # <<>> THEN <<CStep(Step("exit", NoCall, "ok", <<>>, <<>>)),
                                                           CStep(Step("exit_exc", NoCall, "ok", <<>>, <<>>))>> ELSE <<>>)]))

\* ---- properties of the design -------------------------------------------------------------------
\* journaling never influences the IR: the IR component evolves exactly as IRGraph's Apply says
Transparent == [][last'.kind = "op" => js'.st = Apply(js.st, last'.c).s]_vars
             /\ [][last'.kind # "op" => js'.st = js.st]_vars
\* only active journals grow, and each grows by exactly the instrumented operations of the call
OneEntry == [][\A j \in DOMAIN js.ent :
                  js'.ent[j] = IF last'.kind = "op" /\ InSeq(js.stack, j) THEN js.ent[j] \o last'.all ELSE js.ent[j]]_vars
\* completed operations are a subsequence-prefix discipline: done is `all` for accepted calls
DoneOK == [][last'.kind = "op" /\ last'.out = "ok" => last'.done = last'.all]_vars
\* properly nested: the stack is always the sequence of journals entered and not yet left, ids increasing
Nested == \A x, y \in DOMAIN js.stack : x < y => js.stack[x] < js.stack[y]
InvC01 == C01Inv(Obs(st))
=============================================================================
