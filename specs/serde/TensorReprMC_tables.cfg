\* element type tables: consistency (Tables) and emission for comparison with onnx_ir._enums
CONSTANTS
  NSet = {0}
  ClsSet = {"b8"}
  MaxWrites = 0
  WritePats = {}
  EmitOn = FALSE
INIT InitTables
NEXT NextTables
INVARIANT TablesInv
INVARIANT EmitTables
