-------------------------------- MODULE Serde --------------------------------
(***************************************************************************)
(* C02 / C17 - ONNX proto -> IR -> proto, at the design level.             *)
(*                                                                         *)
(* ABSTRACT PROTO (explicit form E): a flat forest of graph records        *)
(*   [irv, mpay: [base, cfg], gs: Seq(EG)]                                 *)
(*   EG = [kind: "main"|"sub"|"func", par, pnode,    (tree: graph par,      *)
(*         pay: bag,                                  node index pnode)    *)
(*         ins:   Seq([name, info]),                                       *)
(*         inits: Seq([name, tens: [key, t, doc, meta]]),                  *)
(*         nodes: Seq([ins: Seq(STRING), outs: Seq(STRING),                *)
(*                     pay: [base: bag, dev: bag]]),                       *)
(*         outs:  Seq([name, info]),                                       *)
(*         vinfo: Seq([name, info, fn]),   fn # 0: IR<10 function value    *)
(*                                         info stored in the main graph   *)
(*         quant: Seq([name, q: bag])]                                     *)
(*   info = [ty, sh, doc, meta]  (four bags)                               *)
(* Every carrier holds an opaque PAYLOAD TOKEN MULTISET (bag = function    *)
(* token -> count): what the tokens stand for (a TypeProto, a tensor with  *)
(* its storage field, the attribute list, a doc string ...) is decided by  *)
(* the harness' catalogue of concrete leaves; the model decides which      *)
(* token must be WHERE and HOW MANY TIMES.                                 *)
(*                                                                         *)
(*   Deser(E)   the state machine of serde._deserialize_graph /            *)
(*              deserialize_function / deserialize_model (Appendix A.6),   *)
(*              building an IRGraph state through IRGraph's own container  *)
(*              operators in the order Graph.__init__ uses them            *)
(*   Ser(s)     the deterministic walk of serde.serialize_model_into       *)
(*   Norm(E)    the documented normal form of a valid proto, defined       *)
(*              without reference to Deser/Ser                             *)
(*   C02(E)  == Valid(E) => Ser(Deser(E)) = Norm(E)  (value-info and       *)
(*              quantization entries as multisets, payloads as multisets)  *)
(*   C17(E)  == Deser(E) is an error, or an IR state with the C01          *)
(*              invariants whose serialization is a fixpoint of Ser o Deser*)
(*                                                                         *)
(* Dev \subseteq {"quant-twice","tensor-meta-twice","func-input-vi-lost"}  *)
(* switches on deviations observed on the code ("func-input-vi-lost" was   *)
(* repaired by commit 3d05d7b of the repository); never set in the design  *)
(* configurations; SerdeMC_dev.cfg shows that they break C02 (each alone does).*)
(***************************************************************************)
EXTENDS IRGraph

CONSTANT Dev

\* ---- bags (token multisets) ------------------------------------------------------------------
EB == [t \in {} |-> 0]
B1(t) == [x \in {t} |-> 1]
BCount(b, t) == IF t \in DOMAIN b THEN b[t] ELSE 0
BPlus(a, b) == [t \in (DOMAIN a) \cup (DOMAIN b) |-> BCount(a, t) + BCount(b, t)]
BMax(a, b)  == [t \in (DOMAIN a) \cup (DOMAIN b) |-> Max2(BCount(a, t), BCount(b, t))]
BOfSet(S) == [t \in S |-> 1]
BEmpty(b) == DOMAIN b = {}
SeqBag(q) == [e \in RangeS(q) |-> CountIn(q, e)]          \* a sequence compared as a multiset

NoInfo == [ty |-> EB, sh |-> EB, doc |-> EB, meta |-> EB]
HasInfo(i) == ~BEmpty(i.ty) \/ ~BEmpty(i.sh) \/ ~BEmpty(i.doc) \/ ~BEmpty(i.meta)
\* deserialize_value_info_proto(proto, value): type and shape replaced when the entry HAS a type (an entry without
\* one must not erase what the value already has, e.g. what an initializer takes from its tensor - repository
\* commit 4a46d70, found by this module's fixpoint formula), doc string overwritten, metadata merged
ApplyInfo(old, c) == [ty |-> IF BEmpty(c.ty) THEN old.ty ELSE c.ty, sh |-> IF BEmpty(c.ty) THEN old.sh ELSE c.sh,
                      doc |-> c.doc, meta |-> BMax(old.meta, c.meta)]

NoTens == [key |-> "", t |-> EB, doc |-> EB, meta |-> EB]
\* Value(type=TensorType(tensor.dtype), shape=tensor.shape) of an initializer without value info
Derived(tens) == [ty |-> B1(tens.key \o ">ty"), sh |-> B1(tens.key \o ">sh"), doc |-> EB, meta |-> EB]

LastIdxOf(q, Test(_)) == CHOOSE x \in DOMAIN q : Test(q[x]) /\ \A y \in (x+1)..Len(q) : ~Test(q[y])

\* ---- the tree --------------------------------------------------------------------------------
SubsOf(E, g, k) == SelectSeq([x \in 1..Len(E.gs) |-> x], LAMBDA h : E.gs[h].par = g /\ E.gs[h].pnode = k /\ E.gs[h].kind = "sub")
FuncsOf(E) == SelectSeq([x \in 1..Len(E.gs) |-> x], LAMBDA h : E.gs[h].kind = "func")
InNames(eg)  == {eg.ins[x].name : x \in DOMAIN eg.ins}
InitNames(eg) == {eg.inits[x].name : x \in DOMAIN eg.inits}
OutNames(eg) == {eg.outs[x].name : x \in DOMAIN eg.outs}
NodeOutNames(eg) == UNION {RangeS(eg.nodes[k].outs) : k \in DOMAIN eg.nodes} \ {""}
NodeInNames(eg)  == UNION {RangeS(eg.nodes[k].ins) : k \in DOMAIN eg.nodes} \ {""}
Defs(eg) == InNames(eg) \cup (InitNames(eg) \ {""}) \cup NodeOutNames(eg)

\* {info.name: info for info in proto.value_info}: the last entry of a name wins
VIHas(eg, nm) == \E x \in DOMAIN eg.vinfo : eg.vinfo[x].name = nm /\ eg.vinfo[x].fn = 0
VIGet(eg, nm) == eg.vinfo[LastIdxOf(eg.vinfo, LAMBDA e : e.name = nm /\ e.fn = 0)].info
QHas(eg, nm) == \E x \in DOMAIN eg.quant : eg.quant[x].name = nm
QOf(eg, nm) == IF QHas(eg, nm) THEN eg.quant[LastIdxOf(eg.quant, LAMBDA e : e.name = nm)].q ELSE EB

\* =======================================================================================
\* IR state: IRGraph's record plus the payload components
\* =======================================================================================
SdEmpty(E) ==
  LET ng == Len(E.gs) IN
  [ nIn |-> <<>>, nOut |-> <<>>, nGraph |-> <<>>,
    gNodes |-> [g \in 1..ng |-> <<>>], gIn |-> [g \in 1..ng |-> <<>>], gOut |-> [g \in 1..ng |-> <<>>],
    gInit |-> [g \in 1..ng |-> <<>>],
    vProd |-> <<>>, vIdx |-> <<>>, vUses |-> <<>>, vOwner |-> <<>>,
    vIsIn |-> <<>>, vIsOut |-> <<>>, vIsInit |-> <<>>,
    cIn |-> [g \in 1..ng |-> <<>>], cOut |-> [g \in 1..ng |-> <<>>],
    vName |-> <<>>, vConst |-> <<>>,
    gCnt |-> [g \in 1..ng |-> 0], gSeen |-> [g \in 1..ng |-> {}],
    \* payload
    vInfo |-> <<>>, vQ |-> <<>>, vTens |-> <<>>, nPay |-> <<>>, nSubs |-> <<>>,
    gPay |-> [g \in 1..ng |-> EB],
    gShape |-> [g \in 1..ng |-> [kind |-> E.gs[g].kind, par |-> E.gs[g].par, pnode |-> E.gs[g].pnode]],
    irv |-> E.irv, mpay |-> E.mpay ]

\* _core.Value(name=nm) with the given information
NewVal(s, nm, info, q) ==
  LET s1 == AddFreshVals(s, 1)
  IN [s1 EXCEPT !.vName[Len(s1.vName)] = nm,
                !.vInfo = Append(@, info), !.vQ = Append(@, q), !.vTens = Append(@, NoTens)]
NextVal(s) == Len(s.vProd) + 1

\* ---- scopes: a stack of functions name -> value ------------------------------------------------
RECURSIVE Lookup(_, _, _)
Lookup(sc, nm, k) == IF k = 0 THEN 0 ELSE IF nm \in DOMAIN sc[k] THEN sc[k][nm] ELSE Lookup(sc, nm, k - 1)
Top(sc) == sc[Len(sc)]
SetTop(sc, nm, v) == [sc EXCEPT ![Len(sc)] = (nm :> v) @@ @]

\* =======================================================================================
\* Deser.   acc = [s: IR state, sc: scope stack, err: "" | reason, tmp: Seq(value),
\*                 gn: graph -> Seq(node id)]
\* =======================================================================================
\* a value that may carry value-info / quantization of the graph being read
InfoFor(eg, nm, base) == IF VIHas(eg, nm) THEN ApplyInfo(base, VIGet(eg, nm)) ELSE base

AddInput(a, eg, c) ==
  LET base == ApplyInfo(NoInfo, c.info)
      \* FunctionProto.input is a list of names; the function's value_info describes them
      info == IF eg.kind = "func" /\ "func-input-vi-lost" \notin Dev THEN InfoFor(eg, c.name, NoInfo) ELSE base
  IN [a EXCEPT !.s = NewVal(@, c.name, info, QOf(eg, c.name)), !.tmp = Append(@, NextVal(a.s))]

AddInit(a, eg, c) ==
  IF c.name = "" THEN a                                   \* unnamed initializer: skipped with a warning
  ELSE IF c.name \in DOMAIN Top(a.sc)
  THEN LET v == Top(a.sc)[c.name]                          \* the initializer of an input (or a repeated name)
       IN [a EXCEPT !.s.vTens[v] = c.tens, !.s.vConst[v] = TRUE, !.tmp = Append(@, v)]
  ELSE LET v == NextVal(a.s)
           s1 == NewVal(a.s, c.name, InfoFor(eg, c.name, Derived(c.tens)), QOf(eg, c.name))
       IN [a EXCEPT !.s = [s1 EXCEPT !.vTens[v] = c.tens, !.vConst[v] = TRUE],
                    !.sc = SetTop(@, c.name, v), !.tmp = Append(@, v)]

\* _declare_node_outputs
DeclareOut(a, eg, o) ==
  IF a.err # "" \/ o = "" THEN a
  ELSE IF o \in DOMAIN Top(a.sc) THEN [a EXCEPT !.err = "redeclared"]
  ELSE [a EXCEPT !.s = NewVal(@, o, InfoFor(eg, o, NoInfo), QOf(eg, o)), !.sc = SetTop(@, o, NextVal(a.s))]
DeclareNode(a, eg, nd) == FoldLeft(LAMBDA b, o : DeclareOut(b, eg, o), a, nd.outs)

\* node inputs: innermost scope first, else a placeholder in the innermost scope
ResolveIn(a, eg, nm) ==
  IF nm = "" THEN [a EXCEPT !.tmp = Append(@, 0)]
  ELSE LET v == Lookup(a.sc, nm, Len(a.sc)) IN
       IF v # 0 THEN [a EXCEPT !.tmp = Append(@, v)]
       ELSE [a EXCEPT !.s = NewVal(@, nm, InfoFor(eg, nm, NoInfo), QOf(eg, nm)),
                      !.sc = SetTop(@, nm, NextVal(a.s)), !.tmp = Append(@, NextVal(a.s))]

\* node outputs: declared in the current scope; an empty name is a fresh anonymous value
ResolveOut(a, eg, nm) ==
  IF nm = "" THEN [a EXCEPT !.s = NewVal(@, "", NoInfo, EB), !.tmp = Append(@, NextVal(a.s))]
  ELSE [a EXCEPT !.tmp = Append(@, Top(a.sc)[nm])]

\* graph outputs: the CURRENT scope only, else a fresh value; the output's value info is applied
ResolveGraphOut(a, eg, c) ==
  IF a.err # "" THEN a
  ELSE IF c.name \in DOMAIN Top(a.sc)
  THEN LET v == Top(a.sc)[c.name]
       IN IF eg.kind = "func" THEN [a EXCEPT !.tmp = Append(@, v)]
          ELSE [a EXCEPT !.s.vInfo[v] = ApplyInfo(@, c.info), !.tmp = Append(@, v)]
  ELSE IF eg.kind = "func" THEN [a EXCEPT !.err = "keyerror"]      \* values[name] in deserialize_function
  ELSE [a EXCEPT !.s = NewVal(@, c.name, ApplyInfo(NoInfo, c.info), EB), !.tmp = Append(@, NextVal(a.s))]

\* Graph(inputs, outputs, nodes=..., initializers=...): the tracked containers, in __init__ order
InitPairs(s, vs) ==      \* {v.name: v for v in initializers}: first position, last value of a key
  LET nms == [x \in DOMAIN vs |-> s.vName[vs[x]]]
      firsts == SelectSeq([x \in DOMAIN vs |-> x], LAMBDA x : \A y \in 1..(x-1) : nms[y] # nms[x])
  IN [i \in DOMAIN firsts |-> <<nms[firsts[i]], vs[LastIdxOf(vs, LAMBDA w : s.vName[w] = nms[firsts[i]])]>>]

BuildGraph(a, g, eg, inVals, initVals, outVals, nodeIds) ==
  LET r1 == IOExtend(a.s, "in", g, inVals) IN
  IF IsRej(r1.out) THEN [a EXCEPT !.err = "graph-inputs:" \o r1.out] ELSE
  LET r2 == IOExtend(r1.s, "out", g, outVals) IN
  IF IsRej(r2.out) THEN [a EXCEPT !.err = "graph-outputs:" \o r2.out] ELSE
  LET pairs == InitPairs(r2.s, initVals) IN
  IF \E x \in DOMAIN pairs : r2.s.vOwner[pairs[x][2]] \notin {0, g} THEN [a EXCEPT !.err = "graph-initializers:owner"] ELSE
  LET s3 == [FoldLeft(LAMBDA t, pr : SetInit(t, g, pr[2]), r2.s, pairs) EXCEPT !.gInit[g] = pairs]
      r4 == GExtend(s3, g, nodeIds) IN
  IF IsRej(r4.out) THEN [a EXCEPT !.err = "graph-nodes:" \o r4.out]
  ELSE [a EXCEPT !.s = [r4.s EXCEPT !.gPay[g] = eg.pay]]

RECURSIVE DGraph(_, _, _), DNodes(_, _, _, _), DSubs(_, _, _, _)

DSubs(a, E, hs, i) ==
  IF i > Len(hs) \/ a.err # "" THEN a ELSE DSubs(DGraph(a, E, hs[i]), E, hs, i + 1)

DNodes(a, E, g, k) ==
  LET eg == E.gs[g] IN
  IF k > Len(eg.nodes) \/ a.err # "" THEN a
  ELSE
    LET nd == eg.nodes[k]
        a1 == FoldLeft(LAMBDA b, nm : ResolveIn(b, eg, nm), [a EXCEPT !.tmp = <<>>], nd.ins)
        ins == a1.tmp
        a2 == FoldLeft(LAMBDA b, nm : ResolveOut(b, eg, nm), [a1 EXCEPT !.tmp = <<>>], nd.outs)
        outs == a2.tmp
        subs == SubsOf(E, g, k)
        a3 == DSubs(a2, E, subs, 1)                  \* attributes are deserialized before Node(...) runs
    IN IF a3.err # "" THEN a3
       ELSE LET n == Len(a3.s.nIn) + 1
                r == NewNode(a3.s, ins, outs, 0, 0)
            IN IF IsRej(r.out) THEN [a3 EXCEPT !.err = "node:" \o r.out]
               ELSE DNodes([a3 EXCEPT !.s = [r.s EXCEPT !.nPay = Append(@, nd.pay), !.nSubs = Append(@, subs)],
                                      !.gn[g] = Append(@, n)],
                           E, g, k + 1)

DGraph(a0, E, g) ==
  LET eg == E.gs[g]
      a1 == FoldLeft(LAMBDA b, c : AddInput(b, eg, c), [a0 EXCEPT !.tmp = <<>>], eg.ins)
      inVals == a1.tmp
      scope0 == [nm \in InNames(eg) |-> inVals[LastIdxOf(eg.ins, LAMBDA c : c.name = nm)]]
      a2 == FoldLeft(LAMBDA b, c : AddInit(b, eg, c), [a1 EXCEPT !.sc = Append(@, scope0), !.tmp = <<>>], eg.inits)
      initVals == a2.tmp
      a3 == FoldLeft(LAMBDA b, nd : DeclareNode(b, eg, nd), a2, eg.nodes)
      a4 == DNodes(a3, E, g, 1)
      a5 == FoldLeft(LAMBDA b, c : ResolveGraphOut(b, eg, c), [a4 EXCEPT !.tmp = <<>>], eg.outs)
      outVals == a5.tmp
  IN IF a3.err # "" THEN a3
     ELSE IF a4.err # "" THEN a4
     ELSE IF a5.err # "" THEN a5
     ELSE BuildGraph([a5 EXCEPT !.sc = SubSeq(@, 1, Len(@) - 1)], g, eg, inVals, initVals, outVals, a5.gn[g])

\* IR < 10: value info of functions is stored in the main graph under '{domain}::{name}/{value}'
FnVIHas(E, f, nm) == \E x \in DOMAIN E.gs[1].vinfo : E.gs[1].vinfo[x].fn = f /\ E.gs[1].vinfo[x].name = nm
FnVIGet(E, f, nm) == E.gs[1].vinfo[LastIdxOf(E.gs[1].vinfo, LAMBDA e : e.fn = f /\ e.name = nm)].info
ApplyFnVI(s, E, f) ==
  LET tgt == s.gIn[f] \o FlattenSeq([x \in DOMAIN s.gNodes[f] |-> s.nOut[s.gNodes[f][x]]])
  IN FoldLeft(LAMBDA t, v : IF FnVIHas(E, f, t.vName[v]) THEN [t EXCEPT !.vInfo[v] = ApplyInfo(@, FnVIGet(E, f, t.vName[v]))] ELSE t,
              s, tgt)

Deser(E) ==
  LET a0 == [s |-> SdEmpty(E), sc |-> <<>>, err |-> "", tmp |-> <<>>, gn |-> [g \in 1..Len(E.gs) |-> <<>>]]
      a1 == DGraph(a0, E, 1)
      a2 == FoldLeft(LAMBDA b, f : IF b.err # "" THEN b ELSE DGraph([b EXCEPT !.sc = <<>>], E, f), a1, FuncsOf(E))
  IN IF a2.err # "" THEN [err |-> a2.err, s |-> SdEmpty(E)]
     ELSE [err |-> "",
           s |-> IF E.irv < 10 THEN FoldLeft(LAMBDA t, f : ApplyFnVI(t, E, f), a2.s, FuncsOf(E)) ELSE a2.s]

\* =======================================================================================
\* Ser: serialize_model_into / serialize_graph_into / serialize_function_into
\* =======================================================================================
ShouldVI(s, v) == HasInfo(s.vInfo[v]) /\ s.vName[v] \notin {"", NoName}   \* _should_create_value_info_for_value
VICarrier(s, v, f) == [name |-> s.vName[v], info |-> s.vInfo[v], fn |-> f]
IOCarrier(s, v) == [name |-> s.vName[v], info |-> s.vInfo[v]]
QEntry(s, v) == [name |-> s.vName[v], q |-> s.vQ[v]]
NodeOutsSeq(s, g) == FlattenSeq([x \in DOMAIN s.gNodes[g] |-> s.nOut[s.gNodes[g][x]]])
InitValsSeq(s, g) == [x \in DOMAIN s.gInit[g] |-> s.gInit[g][x][2]]

RemoveTrailing(names) ==       \* _remove_trailing_outputs
  IF \A x \in DOMAIN names : names[x] = "" THEN <<>>
  ELSE SubSeq(names, 1, CHOOSE x \in DOMAIN names : names[x] # "" /\ \A y \in (x+1)..Len(names) : names[y] = "")

SerTensor(tens) == IF "tensor-meta-twice" \in Dev THEN [tens EXCEPT !.meta = BPlus(@, @)] ELSE tens

SerNode(s, n) ==
  [ins |-> [x \in DOMAIN s.nIn[n] |-> IF s.nIn[n][x] = 0 THEN "" ELSE s.vName[s.nIn[n][x]]],
   outs |-> RemoveTrailing([x \in DOMAIN s.nOut[n] |-> s.vName[s.nOut[n][x]]]),
   pay |-> [base |-> s.nPay[n].base, dev |-> IF s.irv < 11 THEN EB ELSE s.nPay[n].dev]]

\* value info of function f in the experimental IR<10 placement (appended to the main graph)
FnVIEntries(s, f) ==
  SelectSeq([x \in DOMAIN (s.gIn[f] \o NodeOutsSeq(s, f)) |-> VICarrier(s, (s.gIn[f] \o NodeOutsSeq(s, f))[x], f)],
            LAMBDA e : e.name \notin {"", NoName} /\ HasInfo(e.info))

SerGraph(s, g) ==
  LET isF == s.gShape[g].kind = "func"
      inNames == {s.vName[s.gIn[g][x]] : x \in DOMAIN s.gIn[g]}
      initVals == InitValsSeq(s, g)
      nouts == NodeOutsSeq(s, g)
      \* ---- value info, in emission order
      viInit == SelectSeq(initVals, LAMBDA v : ShouldVI(s, v) /\ s.vName[v] \notin inNames)
      viNode == SelectSeq(nouts, LAMBDA v : (isF \/ ~s.vIsOut[v]) /\ ShouldVI(s, v))
      viFin  == IF isF THEN SelectSeq(s.gIn[g], LAMBDA v : ShouldVI(s, v)) ELSE <<>>
      viOwn  == IF isF /\ s.irv < 10 THEN <<>> ELSE viFin \o viInit \o viNode
      viFns  == IF g = 1 /\ s.irv < 10
                THEN FlattenSeq([x \in 1..Len(s.gIn) |-> IF s.gShape[x].kind = "func" THEN FnVIEntries(s, x) ELSE <<>>])
                ELSE <<>>
      \* ---- quantization annotations, in emission order
      qIn   == SelectSeq(s.gIn[g], LAMBDA v : s.vName[v] \notin InitKeys(s, g) /\ ~BEmpty(s.vQ[v]))
      qInit == SelectSeq(initVals, LAMBDA v : ~BEmpty(s.vQ[v]))
      qNode == SelectSeq(nouts, LAMBDA v : ~s.vIsOut[v] /\ ~BEmpty(s.vQ[v]))
      done  == RangeS(qIn) \cup RangeS(qInit) \cup RangeS(qNode)
      qOut  == IF "quant-twice" \in Dev
               THEN SelectSeq(s.gOut[g], LAMBDA v : ~BEmpty(s.vQ[v]))
               ELSE LET ix == SelectSeq([x \in DOMAIN s.gOut[g] |-> x],
                                        LAMBDA x : /\ ~BEmpty(s.vQ[s.gOut[g][x]])
                                                   /\ s.gOut[g][x] \notin done
                                                   /\ \A y \in 1..(x-1) : s.gOut[g][y] # s.gOut[g][x])
                    IN [i \in DOMAIN ix |-> s.gOut[g][ix[i]]]
      qAll  == IF isF THEN <<>> ELSE qIn \o qInit \o qNode \o qOut
      withT == SelectSeq(initVals, LAMBDA v : s.vTens[v] # NoTens)
  IN [ kind |-> s.gShape[g].kind, par |-> s.gShape[g].par, pnode |-> s.gShape[g].pnode,
       pay |-> s.gPay[g],
       ins |-> [x \in DOMAIN s.gIn[g] |-> IF isF THEN [name |-> s.vName[s.gIn[g][x]], info |-> NoInfo] ELSE IOCarrier(s, s.gIn[g][x])],
       inits |-> [x \in DOMAIN withT |-> [name |-> s.vName[withT[x]], tens |-> SerTensor(s.vTens[withT[x]])]],
       nodes |-> [x \in DOMAIN s.gNodes[g] |-> SerNode(s, s.gNodes[g][x])],
       outs |-> [x \in DOMAIN s.gOut[g] |-> IF isF THEN [name |-> s.vName[s.gOut[g][x]], info |-> NoInfo] ELSE IOCarrier(s, s.gOut[g][x])],
       vinfo |-> [x \in DOMAIN viOwn |-> VICarrier(s, viOwn[x], 0)] \o viFns,
       quant |-> [x \in DOMAIN qAll |-> QEntry(s, qAll[x])] ]

Ser(s) ==
  [ irv |-> s.irv,
    mpay |-> [base |-> s.mpay.base, cfg |-> IF s.irv < 11 THEN EB ELSE s.mpay.cfg],
    gs |-> [g \in 1..Len(s.gIn) |-> SerGraph(s, g)] ]

\* =======================================================================================
\* Valid protos and their documented normal form
\* =======================================================================================
Distinct(q) == \A x, y \in DOMAIN q : x # y => q[x] # q[y]
NamesOf(q) == [x \in DOMAIN q |-> q[x].name]
WellTyped(i) == ~BEmpty(i.ty)                     \* a type is present (a shape lives inside its type)

RECURSIVE Visible(_, _)
Visible(E, g) == Defs(E.gs[g]) \cup (IF E.gs[g].kind = "sub" THEN Visible(E, E.gs[g].par) ELSE {})

ValidGraph(E, g) ==
  LET eg == E.gs[g]
      isF == eg.kind = "func"
      allOuts == FlattenSeq([k \in DOMAIN eg.nodes |-> SelectSeq(eg.nodes[k].outs, LAMBDA o : o # "")])
  IN /\ Distinct(NamesOf(eg.ins)) /\ "" \notin InNames(eg)
     /\ Distinct(NamesOf(eg.inits)) /\ "" \notin InitNames(eg)
     /\ Distinct(allOuts) /\ RangeS(allOuts) \cap (InNames(eg) \cup InitNames(eg)) = {}
     /\ NodeInNames(eg) \subseteq Visible(E, g)
     /\ OutNames(eg) \subseteq Defs(eg)
     /\ Distinct(NamesOf(eg.vinfo))
     /\ \A x \in DOMAIN eg.vinfo :
          /\ WellTyped(eg.vinfo[x].info)
          /\ IF eg.vinfo[x].fn = 0 THEN isF \/ eg.vinfo[x].name \notin InNames(eg) \cup OutNames(eg)
             ELSE g = 1 /\ E.irv < 10 /\ eg.vinfo[x].fn \in RangeS(FuncsOf(E))
     /\ (isF /\ E.irv < 10) => eg.vinfo = <<>>
     /\ Distinct(NamesOf(eg.quant)) /\ {eg.quant[x].name : x \in DOMAIN eg.quant} \subseteq Defs(eg)
     /\ \A x \in DOMAIN eg.quant : ~BEmpty(eg.quant[x].q)
     /\ isF => (eg.inits = <<>> /\ eg.quant = <<>>)
     \* the inputs and outputs of the main graph are typed; those of a control-flow body may leave the type to the
     \* enclosing node (and still carry a doc string / metadata)
     /\ eg.kind = "main" => /\ \A x \in DOMAIN eg.ins : WellTyped(eg.ins[x].info)
                            /\ \A x \in DOMAIN eg.outs : WellTyped(eg.outs[x].info)
     \* (an untyped entry of a name that has an initializer comes back typed by the tensor - "value-info is added for
     \*  initializers" - so such names are typed here)
     /\ eg.kind = "sub" => /\ \A x \in DOMAIN eg.ins : WellTyped(eg.ins[x].info)
                                  \/ (BEmpty(eg.ins[x].info.sh) /\ eg.ins[x].name \notin InitNames(eg))
                           /\ \A x \in DOMAIN eg.outs : WellTyped(eg.outs[x].info)
                                  \/ (BEmpty(eg.outs[x].info.sh) /\ eg.outs[x].name \notin InitNames(eg))
     /\ ~isF =>
                \* one value, one description: carriers of the same name agree
                /\ \A x \in DOMAIN eg.ins : \A y \in DOMAIN eg.outs : eg.ins[x].name = eg.outs[y].name => eg.ins[x].info = eg.outs[y].info
                /\ \A x, y \in DOMAIN eg.outs : eg.outs[x].name = eg.outs[y].name => eg.outs[x].info = eg.outs[y].info
     /\ \A x \in DOMAIN eg.inits : eg.inits[x].tens # NoTens
     /\ E.irv < 11 => \A k \in DOMAIN eg.nodes : BEmpty(eg.nodes[k].pay.dev)

Valid(E) == /\ \A g \in 1..Len(E.gs) : ValidGraph(E, g)
            /\ E.irv < 11 => BEmpty(E.mpay.cfg)
            /\ \A x \in DOMAIN E.gs[1].vinfo : E.gs[1].vinfo[x].fn # 0 =>
                  E.gs[1].vinfo[x].name \in InNames(E.gs[E.gs[1].vinfo[x].fn]) \cup NodeOutNames(E.gs[E.gs[1].vinfo[x].fn])

\* ONNX proper: nodes topologically sorted within their graph, no shadowing of an enclosing scope
SortedGraph(eg) ==
  \A k \in DOMAIN eg.nodes : \A nm \in RangeS(eg.nodes[k].ins) \ {""} :
     nm \in NodeOutNames(eg) => \E j \in 1..(k-1) : nm \in RangeS(eg.nodes[j].outs)
Strict(E) == \A g \in 1..Len(E.gs) :
               /\ SortedGraph(E.gs[g])
               /\ E.gs[g].kind = "sub" => Defs(E.gs[g]) \cap Visible(E, E.gs[g].par) = {}

\* the documented normal form: value info added for initializers, unreferenced value info dropped,
\* trailing unnamed node outputs trimmed; entry ORDER of value info / annotations is not significant
NormGraph(E, g) ==
  LET eg == E.gs[g]
      isF == eg.kind = "func"
      referenced == IF isF THEN InNames(eg) \cup NodeOutNames(eg)
                    ELSE (InitNames(eg) \cup NodeOutNames(eg)) \ (InNames(eg) \cup OutNames(eg))
      kept == SelectSeq(eg.vinfo, LAMBDA e : IF e.fn = 0 THEN e.name \in referenced ELSE TRUE)
      OutInfo(nm) == eg.outs[LastIdxOf(eg.outs, LAMBDA c : c.name = nm)].info
      addedFor == SelectSeq(eg.inits, LAMBDA c : c.name \notin InNames(eg) /\ ~VIHas(eg, c.name))
      added == [x \in DOMAIN addedFor |->
                  [name |-> addedFor[x].name, fn |-> 0,
                   info |-> IF addedFor[x].name \in OutNames(eg) THEN OutInfo(addedFor[x].name) ELSE Derived(addedFor[x].tens)]]
  IN [eg EXCEPT !.vinfo = kept \o added,
                !.nodes = [k \in DOMAIN @ |-> [@[k] EXCEPT !.outs = RemoveTrailing(@)]]]

Norm(E) == [E EXCEPT !.gs = [g \in DOMAIN @ |-> NormGraph(E, g)]]

EqGraph(x, y) ==
  /\ x.kind = y.kind /\ x.par = y.par /\ x.pnode = y.pnode /\ x.pay = y.pay
  /\ x.ins = y.ins /\ x.inits = y.inits /\ x.nodes = y.nodes /\ x.outs = y.outs
  /\ SeqBag(x.vinfo) = SeqBag(y.vinfo) /\ SeqBag(x.quant) = SeqBag(y.quant)
EqProto(x, y) == /\ x.irv = y.irv /\ x.mpay = y.mpay /\ Len(x.gs) = Len(y.gs)
                 /\ \A g \in DOMAIN x.gs : EqGraph(x.gs[g], y.gs[g])

\* =======================================================================================
\* The two properties
\* =======================================================================================
\* (the deserialization d of E is a parameter so that one evaluation serves both formulas)
C02With(E, d) == Valid(E) => (d.err = "" /\ EqProto(Ser(d.s), Norm(E)))
C02(E) == C02With(E, Deser(E))

SdCountOK(s) ==       \* IRGraph!CountOK over the graphs that exist
  \A g \in 1..Len(s.gIn) : \A v \in 1..Len(s.vProd) :
     s.cIn[g][v] = CountIn(s.gIn[g], v) /\ s.cOut[g][v] = CountIn(s.gOut[g], v)

Fixpoint(s) == LET e1 == Ser(s)
                   d2 == Deser(e1)
               IN d2.err = "" /\ Ser(d2.s) = e1

C17With(d) == d.err = "" => /\ C01Inv(Obs(d.s)) /\ SdCountOK(d.s) /\ OwnerOK(d.s)
                            /\ Fixpoint(d.s)
C17(E) == C17With(Deser(E))
=============================================================================
