CONSTANTS
  Dev = {}
  Mode = "valid"
  MaxNodes = 0
  MaxGraphs = 0
  MaxDepth = 0
  MaxSlots = 0
  MaxIO = 0
  MaxNodeIO = 0
  MaxInits = 0
  Irvs = {11}
  WithFunc = "no"
  MaxAnn = 3
  EmitOn = TRUE
SPECIFICATION SpecOne
INVARIANT One
CHECK_DEADLOCK FALSE
