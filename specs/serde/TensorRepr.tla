------------------------------ MODULE TensorRepr ------------------------------
(***************************************************************************)
(* C04 - every representation of the same logical tensor reports the       *)
(* declared element type and shape, returns the same element values and    *)
(* the same little-endian packed bytes (tobytes / tofile) of length        *)
(* NBytes = ceil(n * bits / 8); the element-type tables are consistent.    *)
(*                                                                         *)
(* A logical tensor is  [cls, n, dims, codes]:                             *)
(*   cls   - element class: b2 b4 b8 b16 b32 b64 c64 c128 bool string      *)
(*   codes - the n element BIT PATTERNS.  For the sub-byte classes a       *)
(*           pattern is a natural < 2^bits; for every other class it is    *)
(*           the little-endian byte sequence of the element (so TLC never  *)
(*           handles an integer above 2^31); for strings the bytes of the  *)
(*           string.  What a pattern *means* as a real number is not part  *)
(*           of the specification - the property only needs equality of    *)
(*           patterns.                                                     *)
(*                                                                         *)
(* A representation is described by what it STORES (Stored) and by how the *)
(* library derives bytes and values from what is stored (RBytes, RValues), *)
(* transcribed from onnx.proto and from the classes Tensor, PackedTensor,  *)
(* TensorProtoTensor, ExternalTensor, LazyTensor, TorchTensor.  Agree is   *)
(* the property; it is not a tautology: an array packs on demand, a packed *)
(* tensor unpacks on demand, int32_data holds one packed byte (sub-byte     *)
(* classes) or one sign-/zero-extended element per entry, float_data holds *)
(* two entries per complex element, an external tensor is a window of a    *)
(* file.                                                                   *)
(***************************************************************************)
EXTENDS Integers, Sequences, FiniteSets, TLC

(***************************************************************************)
(* Element type tables (the specification's data; the binding compares     *)
(* them with onnx_ir._enums and with onnx.TensorProto.DataType).           *)
(***************************************************************************)
EnumValue == [
  FLOAT |-> 1, UINT8 |-> 2, INT8 |-> 3, UINT16 |-> 4, INT16 |-> 5, INT32 |-> 6, INT64 |-> 7,
  STRING |-> 8, BOOL |-> 9, FLOAT16 |-> 10, DOUBLE |-> 11, UINT32 |-> 12, UINT64 |-> 13,
  COMPLEX64 |-> 14, COMPLEX128 |-> 15, BFLOAT16 |-> 16, FLOAT8E4M3FN |-> 17,
  FLOAT8E4M3FNUZ |-> 18, FLOAT8E5M2 |-> 19, FLOAT8E5M2FNUZ |-> 20, UINT4 |-> 21, INT4 |-> 22,
  FLOAT4E2M1 |-> 23, FLOAT8E8M0 |-> 24, UINT2 |-> 25, INT2 |-> 26 ]

Names == DOMAIN EnumValue

\* bit width of one element (STRING has none)
BitWidth == [
  FLOAT |-> 32, UINT8 |-> 8, INT8 |-> 8, UINT16 |-> 16, INT16 |-> 16, INT32 |-> 32, INT64 |-> 64,
  BOOL |-> 8, FLOAT16 |-> 16, DOUBLE |-> 64, UINT32 |-> 32, UINT64 |-> 64,
  COMPLEX64 |-> 64, COMPLEX128 |-> 128, BFLOAT16 |-> 16, FLOAT8E4M3FN |-> 8,
  FLOAT8E4M3FNUZ |-> 8, FLOAT8E5M2 |-> 8, FLOAT8E5M2FNUZ |-> 8, UINT4 |-> 4, INT4 |-> 4,
  FLOAT4E2M1 |-> 4, FLOAT8E8M0 |-> 8, UINT2 |-> 2, INT2 |-> 2 ]

Kind == [
  FLOAT |-> "float", UINT8 |-> "uint", INT8 |-> "int", UINT16 |-> "uint", INT16 |-> "int",
  INT32 |-> "int", INT64 |-> "int", STRING |-> "string", BOOL |-> "bool", FLOAT16 |-> "float",
  DOUBLE |-> "float", UINT32 |-> "uint", UINT64 |-> "uint", COMPLEX64 |-> "complex",
  COMPLEX128 |-> "complex", BFLOAT16 |-> "float", FLOAT8E4M3FN |-> "float",
  FLOAT8E4M3FNUZ |-> "float", FLOAT8E5M2 |-> "float", FLOAT8E5M2FNUZ |-> "float",
  UINT4 |-> "uint", INT4 |-> "int", FLOAT4E2M1 |-> "float", FLOAT8E8M0 |-> "float",
  UINT2 |-> "uint", INT2 |-> "int" ]

\* numpy / ml_dtypes element type: name, size of the numpy item in bits, kind
NT(nm, b, k) == [name |-> nm, bits |-> b, kind |-> k]
NumpyType == [
  FLOAT |-> NT("float32", 32, "float"), UINT8 |-> NT("uint8", 8, "uint"), INT8 |-> NT("int8", 8, "int"),
  UINT16 |-> NT("uint16", 16, "uint"), INT16 |-> NT("int16", 16, "int"), INT32 |-> NT("int32", 32, "int"),
  INT64 |-> NT("int64", 64, "int"), STRING |-> NT("object", 0, "string"), BOOL |-> NT("bool", 8, "bool"),
  FLOAT16 |-> NT("float16", 16, "float"), DOUBLE |-> NT("float64", 64, "float"),
  UINT32 |-> NT("uint32", 32, "uint"), UINT64 |-> NT("uint64", 64, "uint"),
  COMPLEX64 |-> NT("complex64", 64, "complex"), COMPLEX128 |-> NT("complex128", 128, "complex"),
  BFLOAT16 |-> NT("bfloat16", 16, "float"), FLOAT8E4M3FN |-> NT("float8_e4m3fn", 8, "float"),
  FLOAT8E4M3FNUZ |-> NT("float8_e4m3fnuz", 8, "float"), FLOAT8E5M2 |-> NT("float8_e5m2", 8, "float"),
  FLOAT8E5M2FNUZ |-> NT("float8_e5m2fnuz", 8, "float"), UINT4 |-> NT("uint4", 8, "uint"),
  INT4 |-> NT("int4", 8, "int"), FLOAT4E2M1 |-> NT("float4_e2m1fn", 8, "float"),
  FLOAT8E8M0 |-> NT("float8_e8m0fnu", 8, "float"), UINT2 |-> NT("uint2", 8, "uint"),
  INT2 |-> NT("int2", 8, "int") ]

\* short name = pre ++ decimal(num) ++ suf   (num = 0: no number, STRING only)
SN(p, n, s) == [pre |-> p, num |-> n, suf |-> s]
ShortName == [
  FLOAT |-> SN("f", 32, ""), UINT8 |-> SN("u", 8, ""), INT8 |-> SN("i", 8, ""), UINT16 |-> SN("u", 16, ""),
  INT16 |-> SN("i", 16, ""), INT32 |-> SN("i", 32, ""), INT64 |-> SN("i", 64, ""), STRING |-> SN("s", 0, ""),
  BOOL |-> SN("b", 8, ""), FLOAT16 |-> SN("f", 16, ""), DOUBLE |-> SN("f", 64, ""), UINT32 |-> SN("u", 32, ""),
  UINT64 |-> SN("u", 64, ""), COMPLEX64 |-> SN("c", 64, ""), COMPLEX128 |-> SN("c", 128, ""),
  BFLOAT16 |-> SN("bf", 16, ""), FLOAT8E4M3FN |-> SN("f", 8, "e4m3fn"), FLOAT8E4M3FNUZ |-> SN("f", 8, "e4m3fnuz"),
  FLOAT8E5M2 |-> SN("f", 8, "e5m2"), FLOAT8E5M2FNUZ |-> SN("f", 8, "e5m2fnuz"), UINT4 |-> SN("u", 4, ""),
  INT4 |-> SN("i", 4, ""), FLOAT4E2M1 |-> SN("f", 4, "e2m1"), FLOAT8E8M0 |-> SN("f", 8, "e8m0"),
  UINT2 |-> SN("u", 2, ""), INT2 |-> SN("i", 2, "") ]

\* item size in bytes as a fraction (0.5 for 4-bit, 0.25 for 2-bit)
ItemSize(d) == [num |-> BitWidth[d], den |-> 8]

Numeric == Names \ {"STRING"}

Classes == {"b2", "b4", "b8", "b16", "b32", "b64", "c64", "c128", "bool", "string"}

Bits(cls) == CASE cls = "b2" -> 2 [] cls = "b4" -> 4 [] cls = "b8" -> 8 [] cls = "bool" -> 8
               [] cls = "b16" -> 16 [] cls = "b32" -> 32 [] cls = "b64" -> 64 [] cls = "c64" -> 64
               [] cls = "c128" -> 128 [] cls = "string" -> 0

ClsOf(d) == CASE Kind[d] = "string" -> "string"
              [] Kind[d] = "bool" -> "bool"
              [] Kind[d] = "complex" -> (IF BitWidth[d] = 64 THEN "c64" ELSE "c128")
              [] OTHER -> CASE BitWidth[d] = 2 -> "b2" [] BitWidth[d] = 4 -> "b4" [] BitWidth[d] = 8 -> "b8"
                            [] BitWidth[d] = 16 -> "b16" [] BitWidth[d] = 32 -> "b32" [] BitWidth[d] = 64 -> "b64"

DTypesOf(cls) == {d \in Names : ClsOf(d) = cls}

PrefixOK(d) == LET p == ShortName[d].pre k == Kind[d] IN
  CASE k = "int" -> p = "i" [] k = "uint" -> p = "u" [] k = "float" -> p \in {"f", "bf"}
    [] k = "complex" -> p = "c" [] k = "bool" -> p = "b" [] k = "string" -> p = "s"

(***************************************************************************)
(* Tables: the four tables are mutually consistent.                        *)
(***************************************************************************)
Tables ==
  /\ DOMAIN BitWidth = Numeric
  /\ DOMAIN Kind = Names /\ DOMAIN NumpyType = Names /\ DOMAIN ShortName = Names
  /\ \A d \in Numeric :
       /\ BitWidth[d] \in {2, 4, 8, 16, 32, 64, 128}
       /\ ShortName[d].num = BitWidth[d]                              \* "f32" <-> 32 bits
       /\ NumpyType[d].bits = (IF BitWidth[d] < 8 THEN 8 ELSE BitWidth[d])  \* numpy item = whole bytes
       /\ ItemSize(d).num * 1 = BitWidth[d] /\ ItemSize(d).den = 8     \* itemsize = bitwidth / 8
       /\ Bits(ClsOf(d)) = BitWidth[d]
  /\ \A d \in Names : NumpyType[d].kind = Kind[d] /\ PrefixOK(d)
  /\ ShortName["STRING"].num = 0 /\ NumpyType["STRING"].bits = 0
  /\ \A d, e \in Names : d # e =>
       /\ ShortName[d] # ShortName[e]               \* from_short_name(short_name(d)) = d
       /\ NumpyType[d].name # NumpyType[e].name     \* from_numpy(numpy(d)) = d
       /\ EnumValue[d] # EnumValue[e]
  /\ \A c \in Classes : DTypesOf(c) # {}

(***************************************************************************)
(* Packing                                                                 *)
(***************************************************************************)
SubByte(cls) == cls \in {"b2", "b4"}
HasBytes(cls) == cls # "string"
EBytes(cls) == Bits(cls) \div 8                       \* bytes per element, classes >= 8 bits

NBytes(cls, n) == (n * Bits(cls) + 7) \div 8

Max(a, b) == IF a >= b THEN a ELSE b

\* concatenation of a sequence of byte sequences that all have length k
Flat(seqs, k) == [i \in 1..(Len(seqs) * k) |-> seqs[((i - 1) \div k) + 1][((i - 1) % k) + 1]]
\* inverse: cut a byte sequence into n pieces of length k
Chop(bytes, n, k) == [i \in 1..n |-> [j \in 1..k |-> bytes[(i - 1) * k + j]]]

\* sub-byte: element i (0-based) occupies bits (i mod per)*bits .. of byte i div per; padding bits are 0
PackSub(bits, codes) ==
  LET per == 8 \div bits
      n == Len(codes)
      nb == (n * bits + 7) \div 8
      Part(j, k) == LET i == (j - 1) * per + k + 1 IN IF i <= n THEN codes[i] * (2 ^ (bits * k)) ELSE 0
  IN [j \in 1..nb |-> LET Acc[k \in 0..per] == IF k = 0 THEN 0 ELSE Acc[k - 1] + Part(j, k - 1) IN Acc[per]]

UnpackSub(bits, bytes, n) ==
  LET per == 8 \div bits
  IN [i \in 1..n |-> (bytes[((i - 1) \div per) + 1] \div (2 ^ (bits * ((i - 1) % per)))) % (2 ^ bits)]

Pack(cls, codes) == IF SubByte(cls) THEN PackSub(Bits(cls), codes) ELSE Flat(codes, EBytes(cls))
Unpack(cls, bytes, n) == IF SubByte(cls) THEN UnpackSub(Bits(cls), bytes, n) ELSE Chop(bytes, n, EBytes(cls))

(***************************************************************************)
(* Storage fields of TensorProto (onnx.proto)                              *)
(***************************************************************************)
Fields == {"raw_data", "int32_data", "int64_data", "uint64_data", "float_data", "double_data", "string_data"}

LegalField(d) ==
  (IF d # "STRING" THEN {"raw_data"} ELSE {"string_data"})
  \cup (IF d \in {"INT32", "INT16", "INT8", "INT4", "INT2", "UINT16", "UINT8", "UINT4", "UINT2", "BOOL",
                  "FLOAT16", "BFLOAT16", "FLOAT8E4M3FN", "FLOAT8E4M3FNUZ", "FLOAT8E5M2", "FLOAT8E5M2FNUZ",
                  "FLOAT8E8M0", "FLOAT4E2M1"} THEN {"int32_data"} ELSE {})
  \cup (IF d = "INT64" THEN {"int64_data"} ELSE {})
  \cup (IF d \in {"UINT32", "UINT64"} THEN {"uint64_data"} ELSE {})
  \cup (IF d \in {"FLOAT", "COMPLEX64"} THEN {"float_data"} ELSE {})
  \cup (IF d \in {"DOUBLE", "COMPLEX128"} THEN {"double_data"} ELSE {})

\* value of a little-endian byte sequence of length <= 3
UVal(e) == LET V[k \in 0..Len(e)] == IF k = 0 THEN 0 ELSE V[k - 1] + e[k] * (256 ^ (k - 1)) IN V[Len(e)]

\* one element (>= 8 bits, <= 32 bits) as the int32 entry onnx.proto prescribes:
\* signed integers by value, everything else (unsigned, bool, 8-/16-bit floats) as the unsigned bit pattern
Enc32Elem(d, e) ==
  IF Len(e) = 4
  THEN (IF e[4] >= 128 THEN e[4] - 256 ELSE e[4]) * 16777216 + e[3] * 65536 + e[2] * 256 + e[1]
  ELSE LET u == UVal(e) w == 8 * Len(e) IN IF Kind[d] = "int" /\ u >= 2 ^ (w - 1) THEN u - 2 ^ w ELSE u

\* int32_data: one entry per element, or one entry per PACKED BYTE for the sub-byte classes
Enc32(d, cls, codes) ==
  IF SubByte(cls) THEN PackSub(Bits(cls), codes) ELSE [i \in 1..Len(codes) |-> Enc32Elem(d, codes[i])]

\* byte k (0..3) of the two's complement 32-bit image of v
ByteOf(v, k) == IF v >= 0 THEN (v \div (256 ^ k)) % 256 ELSE 255 - (((-(v + 1)) \div (256 ^ k)) % 256)

\* the bytes a reader takes from int32_data: the low byte(s) of every entry
Dec32Bytes(cls, ints) ==
  LET k == IF SubByte(cls) THEN 1 ELSE EBytes(cls)
  IN [i \in 1..(Len(ints) * k) |-> ByteOf(ints[((i - 1) \div k) + 1], (i - 1) % k)]

\* the other typed fields: an entry is written here as the little-endian bytes of the entry's machine type
\* (int64 / uint64: 8 bytes, float: 4, double: 8); the binding turns it into the Python number bit-exactly.
EntryBytes(field) == IF field = "float_data" THEN 4 ELSE 8
ZeroExt(e, k) == [j \in 1..k |-> IF j <= Len(e) THEN e[j] ELSE 0]
EncEntries(field, cls, codes) ==
  LET k == EntryBytes(field) eb == EBytes(cls)
  IN IF eb <= k
     THEN [i \in 1..Len(codes) |-> ZeroExt(codes[i], k)]                \* uint32 in uint64_data is zero-extended
     ELSE Chop(Flat(codes, eb), Len(codes) * (eb \div k), k)            \* complex: (re, im) = two entries
DecEntriesBytes(field, cls, entries) ==
  LET k == EntryBytes(field) eb == EBytes(cls)
  IN IF eb <= k
     THEN Flat([i \in 1..Len(entries) |-> SubSeq(entries[i], 1, eb)], eb)
     ELSE Flat(entries, k)

(***************************************************************************)
(* External data window and file destinations                              *)
(***************************************************************************)
\* The data file of an external tensor is kept abstract:  padding ++ data ++ tail, where the padding is padlen bytes
\* obtained by repeating the cycle padpat (so that a read that starts at a wrong position is seen), data are the
\* tensor's bytes and tail the bytes of whatever follows in the file.
AFile(padlen, data, tail) == [padlen |-> padlen, padpat |-> <<161, 162, 163, 164, 165, 166, 167>>, data |-> data, tail |-> tail]
FileLen(f) == f.padlen + Len(f.data) + Len(f.tail)
FileAt(f, i) ==                                  \* byte i (1-based) of the file
  IF i <= f.padlen THEN f.padpat[((i - 1) % Len(f.padpat)) + 1]
  ELSE IF i <= f.padlen + Len(f.data) THEN f.data[i - f.padlen]
  ELSE f.tail[i - f.padlen - Len(f.data)]
NoFile == AFile(0, <<>>, <<>>)

\* len bytes of the file starting at byte offset off (0-based), as mmap / read / copy_file_range must deliver them.
\* f is the file that is at the path NOW: the window is a function of (f, off, len) alone - a file that used to be at
\* the same path (still mapped by a live tensor, then replaced by rename) has no say.  The harness builds every second
\* external store on a path with such a history.
ExtWindow(f, off, len) == [j \in 1..len |-> FileAt(f, off + j)]

Rpt(b, k) == [i \in 1..k |-> b]
\* offset kinds: at 0 / 1 / 2 with or without following bytes, and offsets around the page and mmap allocation
\* granularity boundaries (4096) and far into a padded file
OffKinds == {"zero", "one", "eof", "whole", "p4095", "p4096", "p4097", "p8192", "p70001"}
ExtOff(offk) == CASE offk = "zero" -> 0 [] offk = "one" -> 1 [] offk = "eof" -> 2 [] offk = "whole" -> 0
                  [] offk = "p4095" -> 4095 [] offk = "p4096" -> 4096 [] offk = "p4097" -> 4097
                  [] offk = "p8192" -> 8192 [] offk = "p70001" -> 70001
ExtTail(offk) == IF offk \in {"eof", "whole", "p8192"} THEN <<>> ELSE <<171, 205, 239>>
ExtFile(offk, data) == AFile(ExtOff(offk), data, ExtTail(offk))

\* tofile(dst): the bytes land at pos .. pos + len, everything else is kept, the position advances
ToFile(dst, bytes) ==
  [content |-> [i \in 1..Max(Len(dst.content), dst.pos + Len(bytes)) |->
                   IF i > dst.pos /\ i <= dst.pos + Len(bytes) THEN bytes[i - dst.pos] ELSE dst.content[i]],
   pos |-> dst.pos + Len(bytes)]

\* The operating system may transfer fewer bytes than asked for in one call (copy_file_range, write, sendfile):
\* a writer that loops hands over the bytes in pieces of at most k, each piece at the position where the
\* previous one ended.  k = 0: everything in one call.  The result must not depend on k (ShortTransferOK).
KernelChunks == {0, 1, 3}
RECURSIVE ToFileChunked(_, _, _)
ToFileChunked(dst, bytes, k) ==
  IF k = 0 \/ Len(bytes) <= k THEN ToFile(dst, bytes)
  ELSE ToFileChunked(ToFile(dst, SubSeq(bytes, 1, k)), SubSeq(bytes, k + 1, Len(bytes)), k)
ShortTransferOK(dst, bytes) == \A k \in KernelChunks : ToFileChunked(dst, bytes, k) = ToFile(dst, bytes)

\* destination kinds: new file at 0; new file after 3 bytes were written; existing file of 16 bytes opened r+b and
\* positioned at 3; existing file of 5 bytes opened for append (position = end); BytesIO empty; BytesIO with 16 bytes at 3
DestKinds == {"w0", "wk", "rpk", "ab", "bio0", "biok"}
DestInit(dk) ==
  CASE dk = "w0"   -> [content |-> <<>>, pos |-> 0]
    [] dk = "wk"   -> [content |-> Rpt(80, 3), pos |-> 3]
    [] dk = "rpk"  -> [content |-> Rpt(90, 16), pos |-> 3]
    [] dk = "ab"   -> [content |-> Rpt(90, 5), pos |-> 5]
    [] dk = "bio0" -> [content |-> <<>>, pos |-> 0]
    [] dk = "biok" -> [content |-> Rpt(90, 16), pos |-> 3]

(***************************************************************************)
(* Representations                                                         *)
(***************************************************************************)
\* view (array-backed and adapter representations): how the tensor's elements sit in the buffer the array / framework
\* tensor refers to:  "own"     - the buffer holds exactly the elements;
\*                    "win"     - a contiguous window starting 3 elements into a larger buffer (w[3:3+n]);
\*                    "chunk"   - the second of two equal pieces of a buffer of 2n elements (torch.chunk / np.split);
\*                    "strided" - every second element of a buffer, starting at element 1 (must be made contiguous)
\*                    "colmajor" - the buffer holds the elements in column-major (Fortran) order of the tensor's
\*                                shape: a transposed / order="F" array; logical (row-major) order must come out
\*                    "swapped" - the buffer holds every element in the non-native byte order (numpy dtype ">f4",
\*                                ">i2", ...): same element values; the library may REFUSE such an array (Refusable),
\*                                but a representation it accepts must deliver the little-endian bytes all the same
Rep(kind, flav, field, offk, lenGiven, inner, cache, view) ==
  [kind |-> kind, flav |-> flav, field |-> field, offk |-> offk, lenGiven |-> lenGiven, inner |-> inner, cache |-> cache,
   view |-> view]

RArrayV(flav, v)  == Rep("array", flav, "-", "-", FALSE, "-", FALSE, v)
RArray(flav)      == RArrayV(flav, "own")
RPacked           == Rep("packed", "-", "-", "-", FALSE, "-", FALSE, "-")
RProto(field)     == Rep("proto", "-", field, "-", FALSE, "-", FALSE, "-")
RExt(offk, lg)    == Rep("external", "-", "-", offk, lg, "-", FALSE, "-")
RLazy(inner, c)   == Rep("lazy", "-", "-", "-", FALSE, inner, c, "-")
RTorchV(v)        == Rep("torch", "-", "-", "-", FALSE, "-", FALSE, v)
RTorch            == RTorchV("own")

\* element types that numpy itself does not have: the library also accepts their bit patterns in an unsigned container
NonNative == {"BFLOAT16", "FLOAT8E4M3FN", "FLOAT8E4M3FNUZ", "FLOAT8E5M2", "FLOAT8E5M2FNUZ", "FLOAT8E8M0",
              "INT4", "UINT4", "FLOAT4E2M1", "INT2", "UINT2"}
\* element types the torch adapter maps (tensor_adapters.from_torch_dtype)
TorchOK == {"BFLOAT16", "BOOL", "COMPLEX128", "COMPLEX64", "FLOAT16", "FLOAT", "DOUBLE", "FLOAT8E4M3FN",
            "FLOAT8E4M3FNUZ", "FLOAT8E5M2", "FLOAT8E5M2FNUZ", "INT16", "INT32", "INT64", "INT8", "UINT8",
            "UINT16", "UINT32", "UINT64", "FLOAT8E8M0", "INT2", "UINT2"}

Views == {"own", "win", "chunk", "strided", "colmajor"}
\* element types numpy stores natively in more than one byte (the only ones a byte order applies to)
Swappable == {"FLOAT16", "FLOAT", "DOUBLE", "INT16", "INT32", "INT64", "UINT16", "UINT32", "UINT64", "COMPLEX64", "COMPLEX128"}
Refusable(rep) == rep.kind = "array" /\ rep.view = "swapped"

\* what a lazy tensor wraps
InnerRep(inner, cls) ==
  CASE inner = "array"    -> RArray("native")
    [] inner = "packed"   -> RPacked
    [] inner = "proto"    -> RProto(IF cls = "string" THEN "string_data" ELSE "raw_data")
    [] inner = "external" -> RExt("one", TRUE)
    [] inner = "torchwin" -> RTorchV("win")
    [] inner = "extpage"  -> RExt("p4097", FALSE)

Base(rep, cls) == IF rep.kind = "lazy" THEN InnerRep(rep.inner, cls) ELSE rep

RepOK0(r, d) ==
  CASE r.kind = "array" /\ r.view = "swapped" -> r.flav \in {"native", "ctor"} /\ d \in Swappable
    [] r.kind = "array"    -> (CASE r.flav = "native" -> TRUE [] r.flav = "bits" -> d \in NonNative [] r.flav = "ctor" -> d # "STRING"
                                 [] r.flav = "sbits" -> d \in {"INT4", "INT2"} [] r.flav = "list" -> d = "STRING")
    [] r.kind = "packed"   -> d \in Numeric /\ BitWidth[d] \in {2, 4}
    [] r.kind = "proto"    -> r.field \in LegalField(d)
    [] r.kind = "external" -> d # "STRING"
    [] r.kind = "torch"    -> d \in TorchOK

RepOK(rep, d) == RepOK0(Base(rep, ClsOf(d)), d)
ApplicableDef(rep, cls) == {d \in DTypesOf(cls) : RepOK(rep, d)}

AllReps ==
  {RArray(f) : f \in {"native", "bits", "ctor", "sbits", "list"}} \cup {RPacked, RTorch}
  \cup {RArrayV(f, v) : f \in {"native", "bits"}, v \in Views \ {"own"}} \cup {RTorchV(v) : v \in Views \ {"own"}}
  \cup {RArrayV("native", "swapped"), RArrayV("ctor", "swapped")}
  \cup {RProto(f) : f \in Fields}
  \cup {RExt(o, lg) : o \in OffKinds, lg \in BOOLEAN}
  \cup {RLazy("array", FALSE), RLazy("proto", TRUE), RLazy("external", FALSE), RLazy("packed", TRUE),
        RLazy("torchwin", FALSE), RLazy("extpage", TRUE)}

\* (constant tables, evaluated once by TLC; {x : x \in S} makes TLC enumerate the filtered set eagerly)
ApplicableT == [r \in AllReps, c \in Classes |-> {d : d \in ApplicableDef(r, c)}]
Applicable(rep, cls) == ApplicableT[rep, cls]
RepsOfT == [c \in Classes |-> {r : r \in {q \in AllReps : ApplicableT[q, c] # {}}}]
RepsOf(cls) == RepsOfT[cls]

(***************************************************************************)
(* What a representation stores, and what the library must derive from it  *)
(***************************************************************************)
NoStore == [codes |-> <<>>, start |-> 0, step |-> 1, order |-> "C", bytes |-> <<>>, ints |-> <<>>, entries |-> <<>>,
            file |-> NoFile, off |-> 0, len |-> 0]

\* all-zero / all-ones element pattern of a class
ZeroPat(cls) == CASE SubByte(cls) -> 0 [] cls = "string" -> <<>> [] OTHER -> Rpt(0, EBytes(cls))
OnesPat(cls) == CASE SubByte(cls) -> 2 ^ Bits(cls) - 1 [] cls = "bool" -> <<1>> [] cls = "string" -> <<255, 254>>
                  [] OTHER -> Rpt(255, EBytes(cls))
\* the elements of the larger buffer that do not belong to the tensor: a legal pattern that differs from the tensor's
\* first element (so that bytes taken from the start of the buffer are seen)
Junk(t) == IF t.n > 0 /\ t.codes[1] = ZeroPat(t.cls) THEN OnesPat(t.cls) ELSE ZeroPat(t.cls)

\* column-major layout of a tensor of shape ds: position k (0-based) of the buffer holds the element whose
\* multi-index is UnravelF(k); its row-major (logical) position is RavelC of that multi-index
RECURSIVE ProdSeq(_)
ProdSeq(ds) == IF ds = <<>> THEN 1 ELSE Head(ds) * ProdSeq(Tail(ds))
RECURSIVE UnravelF(_, _)
UnravelF(k, ds) == IF ds = <<>> THEN <<>> ELSE <<k % Head(ds)>> \o UnravelF(k \div Head(ds), Tail(ds))
RECURSIVE RavelC(_, _)
RavelC(m, ds) == IF ds = <<>> THEN 0 ELSE Head(m) * ProdSeq(Tail(ds)) + RavelC(Tail(m), Tail(ds))
RECURSIVE UnravelC(_, _)
UnravelC(k, ds) == IF ds = <<>> THEN <<>> ELSE <<k \div ProdSeq(Tail(ds))>> \o UnravelC(k % ProdSeq(Tail(ds)), Tail(ds))
RECURSIVE RavelF(_, _)
RavelF(m, ds) == IF ds = <<>> THEN 0 ELSE Head(m) + Head(ds) * RavelF(Tail(m), Tail(ds))
ToColMajor(codes, ds)   == [k \in 1..Len(codes) |-> codes[RavelC(UnravelF(k - 1, ds), ds) + 1]]
FromColMajor(codes, ds) == [i \in 1..Len(codes) |-> codes[RavelF(UnravelC(i - 1, ds), ds) + 1]]

\* the buffer behind a view, the element index where the tensor starts (0-based) and the element step
ViewBase(v, t) ==
  LET j == Junk(t) n == t.n
  IN CASE v = "win"     -> [codes |-> Rpt(j, 3) \o t.codes \o Rpt(j, 2), start |-> 3, step |-> 1]
       [] v = "chunk"   -> [codes |-> Rpt(j, n) \o t.codes, start |-> n, step |-> 1]
       [] v = "strided" -> [codes |-> [i \in 1..(2 * n + 1) |-> IF i % 2 = 0 THEN t.codes[i \div 2] ELSE j], start |-> 1, step |-> 2]
       [] v = "colmajor" -> [codes |-> ToColMajor(t.codes, t.dims), start |-> 0, step |-> 1]
       [] OTHER         -> [codes |-> t.codes, start |-> 0, step |-> 1]
\* the n elements a view refers to
Window(codes, start, step, n) == [i \in 1..n |-> codes[start + (i - 1) * step + 1]]

\* array flavours: "native" = numpy / ml_dtypes element type; "ctor" = the same through ir.tensor(); "bits" = bit patterns in
\* an unsigned container (uint8 / uint16); "sbits" = signed sub-byte values sign-extended in an int8 container (the
\* stored byte is the two's complement image); "list" = a Python list of byte strings (STRING)
SExt8(bits, c) == IF c >= 2 ^ (bits - 1) THEN c + 256 - 2 ^ bits ELSE c
Stored0(r, t, d) ==
  CASE r.kind = "array" /\ r.flav = "sbits" -> [NoStore EXCEPT !.codes = [i \in 1..t.n |-> SExt8(Bits(t.cls), t.codes[i])]]
    [] r.kind \in {"array", "torch"} ->
         LET b == ViewBase(r.view, t) IN [NoStore EXCEPT !.codes = b.codes, !.start = b.start, !.step = b.step,
                                                         !.order = IF r.view = "colmajor" THEN "F" ELSE "C"]
    [] r.kind = "packed" -> [NoStore EXCEPT !.bytes = Pack(t.cls, t.codes)]
    [] r.kind = "proto" ->
         (CASE r.field = "raw_data"    -> [NoStore EXCEPT !.bytes = Pack(t.cls, t.codes)]
            [] r.field = "int32_data"  -> [NoStore EXCEPT !.ints = Enc32(d, t.cls, t.codes)]
            [] r.field = "string_data" -> [NoStore EXCEPT !.entries = t.codes]
            [] OTHER                   -> [NoStore EXCEPT !.entries = EncEntries(r.field, t.cls, t.codes)])
    [] r.kind = "external" ->
         [NoStore EXCEPT !.file = ExtFile(r.offk, Pack(t.cls, t.codes)), !.off = ExtOff(r.offk),
                         !.len = IF r.lenGiven THEN NBytes(t.cls, t.n) ELSE -1]

Stored(rep, t, d) == Stored0(Base(rep, t.cls), t, d)

\* bytes returned by tobytes() / written by tofile(); only for HasBytes classes
Low(cls, codes) == IF SubByte(cls) THEN [i \in 1..Len(codes) |-> codes[i] % (2 ^ Bits(cls))] ELSE codes
\* the logical (row-major) elements of an array-backed representation
Elems(s, t) == IF s.order = "F" THEN FromColMajor(s.codes, t.dims) ELSE Window(s.codes, s.start, s.step, t.n)
RBytes0(r, t, s) ==
  CASE r.kind \in {"array", "torch"} ->                                            \* window, mask, pack on demand
         Pack(t.cls, Low(t.cls, Elems(s, t)))
    [] r.kind = "packed" -> s.bytes
    [] r.kind = "proto" ->
         (CASE r.field = "raw_data"   -> s.bytes
            [] r.field = "int32_data" -> Dec32Bytes(t.cls, s.ints)
            [] OTHER                  -> DecEntriesBytes(r.field, t.cls, s.entries))
    [] r.kind = "external" -> ExtWindow(s.file, s.off, IF s.len >= 0 THEN s.len ELSE NBytes(t.cls, t.n))

RBytes(rep, t, d) == RBytes0(Base(rep, t.cls), t, Stored(rep, t, d))

\* element patterns returned by numpy()
RValues0(r, t, s) ==
  CASE r.kind \in {"array", "torch"} -> Low(t.cls, Elems(s, t))
    [] r.kind = "proto" /\ r.field = "string_data" -> s.entries
    [] OTHER -> Unpack(t.cls, RBytes0(r, t, s), t.n)                                 \* unpacks on demand

RValues(rep, t, d) == RValues0(Base(rep, t.cls), t, Stored(rep, t, d))

Prod(dims) == LET P[k \in 0..Len(dims)] == IF k = 0 THEN 1 ELSE P[k - 1] * dims[k] IN P[Len(dims)]

(***************************************************************************)
(* Agree: THE property, for one logical tensor and one representation      *)
(***************************************************************************)
Agree(t, rep) ==
  /\ Prod(t.dims) = t.n /\ Len(t.codes) = t.n
  /\ \A d \in Applicable(rep, t.cls) :
       /\ RValues(rep, t, d) = t.codes
       /\ HasBytes(t.cls) =>
            /\ RBytes(rep, t, d) = Pack(t.cls, t.codes)
            /\ Len(RBytes(rep, t, d)) = NBytes(t.cls, t.n)
            /\ NBytes(t.cls, t.n) * ItemSize(d).den >= t.n * ItemSize(d).num          \* nbytes = ceil(size * itemsize)
            /\ (NBytes(t.cls, t.n) - 1) * ItemSize(d).den < t.n * ItemSize(d).num \/ t.n = 0

\* all representations of one logical tensor agree with each other (stated against one reference
\* representation; pairwise agreement follows by transitivity of equality)
AgreeAll(t) ==
  LET r0 == CHOOSE r \in RepsOf(t.cls) : TRUE
      d0 == CHOOSE d \in Applicable(r0, t.cls) : TRUE
      v0 == RValues(r0, t, d0)
      b0 == IF HasBytes(t.cls) THEN RBytes(r0, t, d0) ELSE <<>>
  IN \A r \in RepsOf(t.cls) : \A d \in Applicable(r, t.cls) :
        /\ RValues(r, t, d) = v0
        /\ HasBytes(t.cls) => RBytes(r, t, d) = b0

\* w consecutive tofile() calls into destination kind dk ended in dst
WroteOK(t, rep, dk, w, dst) ==
  LET init == DestInit(dk)
      nb == NBytes(t.cls, t.n)
      B == Pack(t.cls, t.codes)
      end == init.pos + w * nb
  IN /\ dst.pos = end
     /\ Len(dst.content) = Max(Len(init.content), end)
     /\ \A i \in 1..Len(dst.content) :
          dst.content[i] = IF i <= init.pos \/ i > end THEN init.content[i] ELSE B[((i - init.pos - 1) % nb) + 1]
=============================================================================
