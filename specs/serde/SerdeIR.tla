------------------------------- MODULE SerdeIR -------------------------------
(***************************************************************************)
(* C03 - IR -> proto -> IR preserves the model; serialization has no side  *)
(* effects.  Design level, on top of the IR state machine (IRGraph/IRClone).*)
(*                                                                         *)
(*   Ser(cs, g)          the abstract proto serde.serialize_graph_into must *)
(*                       write for graph g (and everything nested in it)    *)
(*   SerEffect(cs, g)    the IR state after serialization (the only effect: *)
(*                       tensor.name := value.name for written initializers)*)
(*   Deser(p)            the IR state serde._deserialize_graph rebuilds from*)
(*                       an abstract proto: scoped name resolution, all node*)
(*                       outputs of a scope declared before any input is    *)
(*                       resolved, placeholders in the innermost scope,     *)
(*                       graph outputs looked up in the current scope only  *)
(*   Serializable(cs, g) the precondition under which a round trip CAN be   *)
(*                       an isomorphism (what ONNX names/scopes can express)*)
(*   Iso(cs, g, cs2, g2) isomorphism of two IR graphs as object graphs      *)
(*                                                                         *)
(* Theorem (checked by TLC on every reachable state of SerdeIRMC, and on    *)
(* every pair (real model, real deserialized model) by SerdeIRTrace):       *)
(*     Serializable(cs, g) => Iso(cs, g, Deser(Ser(cs, g)))                 *)
(*                                                                         *)
(* The state is IRClone's record cs extended by four per-value components:  *)
(*   vdoc  doc string token ("" = none)                                     *)
(*   tn    the const tensor's OWN name (NoName = no tensor / name None)     *)
(*   cty   the const tensor's element type ("" = no tensor)                 *)
(*   csh   the const tensor's shape (NoShape = no tensor)                   *)
(* An abstract proto is                                                     *)
(*   [inputs: Seq(VI), inits: Seq([name, ty, sh]), nodes: Seq([name, ins,   *)
(*    outs: Seq(STRING), attrs, md, subs: Seq(proto)]), outputs: Seq(VI),   *)
(*    vinfo: Seq(VI), md]          VI == [name, ty, sh, md, doc]            *)
(***************************************************************************)
EXTENDS IRClone

MaxNest == 3            \* nesting depth the recursive operators unfold
DefaultTy == "FLOAT"    \* the tensor the harness attaches by default: float32[1]
DefaultSh == <<1>>

\* ---- tensor implementation kinds (op SetTensor): what the abstract state knows about each -----
\* "npT": an array-backed tensor over a transposed (Fortran-contiguous) 2 x 3 array - its bytes in memory are
\* not in the logical (row-major) order serialization must produce
KindTy(k) == CASE k = "np" -> "FLOAT" [] k = "lazy" -> "INT64" [] k = "packed" -> "INT4"
               [] k = "proto" -> "INT32" [] k = "string" -> "STRING" [] k = "npT" -> "INT16" [] OTHER -> "FLOAT"
KindSh(k) == CASE k = "np" -> <<1>> [] k = "lazy" -> <<1, 3>> [] k = "packed" -> <<3>>
               [] k = "proto" -> <<2>> [] k = "string" -> <<2>> [] k = "npT" -> <<2, 3>> [] OTHER -> <<1>>
KindTn(k) == IF k = "proto" THEN "tp" ELSE NoName

\* ---- state ------------------------------------------------------------------------------------
SPad(cs) ==
  LET c == Pad(cs)
      nv == Len(c.s.vProd)
  IN [c EXCEPT !.vdoc = PadTo(@, nv, ""), !.tn = PadTo(@, nv, NoName),
               !.cty = PadTo(@, nv, ""), !.csh = PadTo(@, nv, NoShape)]

EmptySCS(ng, names, consts) ==
  LET nv == Len(names) IN
  [ vdoc |-> [v \in 1..nv |-> ""],
    tn   |-> [v \in 1..nv |-> IF consts[v] THEN names[v] ELSE NoName],
    cty  |-> [v \in 1..nv |-> IF consts[v] THEN DefaultTy ELSE ""],
    csh  |-> [v \in 1..nv |-> IF consts[v] THEN DefaultSh ELSE NoShape] ]
  @@ EmptyCS(EmptyState(ng, names, consts))

SApply(cs, c) ==
  CASE c.op = "SetDoc"    -> COk([cs EXCEPT !.vdoc[c.v] = c.name])
    [] c.op = "SetTensor" -> COk([cs EXCEPT !.s.vConst[c.v] = TRUE, !.cty[c.v] = KindTy(c.name),
                                            !.csh[c.v] = KindSh(c.name), !.tn[c.v] = KindTn(c.name)])
    [] c.op = "SetConst"  -> COk([cs EXCEPT !.s.vConst[c.v] = c.flag, !.tn[c.v] = NoName,
                                            !.cty[c.v] = IF c.flag THEN DefaultTy ELSE "",
                                            !.csh[c.v] = IF c.flag THEN DefaultSh ELSE NoShape])
    [] OTHER -> LET r  == CApply(cs, c)
                    c1 == SPad(r.s)
                    nv == Len(cs.s.vName)
                \* the Value.name setter also renames the backing constant tensor
                IN [s |-> [c1 EXCEPT !.tn = [v \in DOMAIN @ |->
                                               IF v <= nv /\ c1.s.vName[v] # cs.s.vName[v] /\ c1.s.vConst[v]
                                               THEN c1.s.vName[v] ELSE @[v]]],
                    out |-> r.out]

SApplyAll(cs, calls) == FoldLeft(LAMBDA acc, c : SApply(acc, c).s, cs, calls)
SOutcomes(cs, calls) ==
  FoldLeft(LAMBDA acc, c : LET r == SApply(acc.s, c) IN [s |-> r.s, h |-> Append(acc.h, [c |-> c, out |-> r.out])],
           [s |-> cs, h |-> <<>>], calls).h

\* ---- the graphs nested under g ---------------------------------------------------------------------
InitValsOf(cs, g) == [x \in DOMAIN cs.s.gInit[g] |-> cs.s.gInit[g][x][2]]
NodeOutsOf(cs, g) == FlattenSeq([x \in DOMAIN cs.s.gNodes[g] |-> cs.s.nOut[cs.s.gNodes[g][x]]])
NodeInsOf(cs, g)  == FlattenSeq([x \in DOMAIN cs.s.gNodes[g] |-> cs.s.nIn[cs.s.gNodes[g][x]]])
ChildrenOf(cs, g) == FlattenSeq([x \in DOMAIN cs.s.gNodes[g] |-> cs.sub[cs.s.gNodes[g][x]]])

RECURSIVE GraphSeq(_, _, _)
GraphSeq(cs, g, d) ==      \* pre-order, with repetitions when a graph is attached more than once
  <<g>> \o (IF d = 0 THEN <<>>
            ELSE FlattenSeq([y \in DOMAIN ChildrenOf(cs, g) |-> GraphSeq(cs, ChildrenOf(cs, g)[y], d - 1)]))
GraphSetOf(cs, g) == RangeS(GraphSeq(cs, g, MaxNest))

\* =====================================================================================================
\* Ser: serde.serialize_graph_into / serialize_node_into / serialize_value_into
\* =====================================================================================================
Named(nm) == nm \notin {NoName, ""}                   \* Python: bool(value.name)
HasInfo(cs, v) == cs.ty[v] # "" \/ cs.sh[v] # NoShape \/ cs.md[v] # {} \/ cs.vdoc[v] # ""
ShouldVI(cs, v) == HasInfo(cs, v) /\ Named(cs.s.vName[v])     \* _should_create_value_info_for_value

\* serialize_value_into: the shape can only be written under a type
VI(cs, v) == [name |-> cs.s.vName[v], ty |-> cs.ty[v],
              sh |-> IF cs.ty[v] = "" THEN NoShape ELSE cs.sh[v], md |-> cs.md[v], doc |-> cs.vdoc[v]]

\* _remove_trailing_outputs
TrimOuts(cs, n) ==
  LET outs == cs.s.nOut[n]
      named == {x \in DOMAIN outs : Named(cs.s.vName[outs[x]])}
  IN IF named = {} THEN <<>> ELSE SubSeq(outs, 1, Max(named))

NodeName(cs, n) == IF "nName" \in DOMAIN cs THEN cs.nName[n] ELSE "n" \o ToString(n)

RECURSIVE SerGraph(_, _, _)
SerGraph(cs, g, d) ==
  LET s == cs.s
      inNames == {s.vName[s.gIn[g][x]] : x \in DOMAIN s.gIn[g]}
      ivs == InitValsOf(cs, g)
      \* value-info: initializers carrying information, unless a graph input has the name ...
      viInit == SelectSeq(ivs, LAMBDA v : ShouldVI(cs, v) /\ s.vName[v] \notin inNames)
      \* ... then node outputs carrying information that are not outputs of a graph (flag, not membership)
      viNode == SelectSeq(NodeOutsOf(cs, g), LAMBDA v : ~s.vIsOut[v] /\ ShouldVI(cs, v))
      vis == viInit \o viNode
      withData == SelectSeq(ivs, LAMBDA v : s.vConst[v])       \* initializers without a tensor are skipped
      SerNode(n) ==
        [ name |-> NodeName(cs, n),
          ins  |-> [x \in DOMAIN s.nIn[n] |-> IF s.nIn[n][x] = 0 THEN "" ELSE s.vName[s.nIn[n][x]]],
          outs |-> [x \in DOMAIN TrimOuts(cs, n) |-> s.vName[TrimOuts(cs, n)[x]]],
          attrs |-> cs.nat[n], md |-> cs.nmd[n],
          subs |-> IF d = 0 THEN <<>> ELSE [y \in DOMAIN cs.sub[n] |-> SerGraph(cs, cs.sub[n][y], d - 1)] ]
  IN [ inputs  |-> [x \in DOMAIN s.gIn[g] |-> VI(cs, s.gIn[g][x])],
       inits   |-> [x \in DOMAIN withData |-> [name |-> s.vName[withData[x]], ty |-> cs.cty[withData[x]], sh |-> cs.csh[withData[x]]]],
       nodes   |-> [x \in DOMAIN s.gNodes[g] |-> SerNode(s.gNodes[g][x])],
       outputs |-> [x \in DOMAIN s.gOut[g] |-> VI(cs, s.gOut[g][x])],
       vinfo   |-> [x \in DOMAIN vis |-> VI(cs, vis[x])],
       md      |-> cs.gmd[g] ]

Ser(cs, g) == SerGraph(cs, g, MaxNest)

\* the only effect of serialization on the IR: every written initializer tensor takes its value's name
WrittenInits(cs, g) ==
  UNION {{v \in RangeS(InitValsOf(cs, h)) : cs.s.vConst[v]} : h \in GraphSetOf(cs, g)}
SerEffect(cs, g) ==
  [cs EXCEPT !.tn = [v \in DOMAIN @ |-> IF v \in WrittenInits(cs, g) THEN cs.s.vName[v] ELSE @[v]]]

\* =====================================================================================================
\* Serializable: what a round trip through ONNX names and scopes can preserve
\* =====================================================================================================
HasInfoRaw(cs, v) == cs.ty[v] # "" \/ cs.sh[v] # NoShape \/ cs.md[v] # {} \/ cs.vdoc[v] # ""

\* S1  the nesting under g is a tree of depth <= MaxNest: no graph attached twice, none inside itself
TreeOK(cs, g) ==
  LET q == GraphSeq(cs, g, MaxNest + 1)
  IN /\ \A x, y \in DOMAIN q : x # y => q[x] # q[y]
     /\ Len(q) = Len(GraphSeq(cs, g, MaxNest))

\* S2  everything referenced carries a usable name; a node output may be "" (absent optional output)
\*     but then nothing refers to it
NamesOK(cs, h) ==
  /\ \A v \in RangeS(cs.s.gIn[h]) \cup RangeS(InitValsOf(cs, h)) \cup RangeS(cs.s.gOut[h])
              \cup (RangeS(NodeInsOf(cs, h)) \ {0}) : Named(cs.s.vName[v])
  /\ \A v \in RangeS(NodeOutsOf(cs, h)) : cs.s.vName[v] # NoName

\* S3  one definition per name and scope: graph inputs listed once; the values a graph defines (inputs,
\*     initializers, named node outputs) are pairwise distinctly named (an initializer may be the very
\*     same object as an input)
DefSeq(cs, h) ==
  cs.s.gIn[h] \o SelectSeq(InitValsOf(cs, h), LAMBDA v : ~InSeq(cs.s.gIn[h], v))
              \o SelectSeq(NodeOutsOf(cs, h), LAMBDA v : cs.s.vName[v] # "")
DefsUnique(cs, h) ==
  LET q == DefSeq(cs, h)
  IN \A x, y \in DOMAIN q : x # y => (q[x] # q[y] /\ cs.s.vName[q[x]] # cs.s.vName[q[y]])
DefNames(cs, h) == {cs.s.vName[DefSeq(cs, h)[x]] : x \in DOMAIN DefSeq(cs, h)}

\* S4  every use resolves, by name, innermost scope first, to the very value used:
\*     a node input is defined by its graph or an enclosing one and not shadowed by a closer definition
\*     of the same name; a graph output is defined by the graph itself (outputs are looked up in the
\*     current scope only, ONNX has no way to return an outer-scope value without a node)
ResolvesTo(cs, chain, v) ==      \* chain: the graph and its ancestors, innermost first
  \E k \in DOMAIN chain :
     /\ v \in DefinedBy(cs, chain[k])
     /\ \A j \in 1..(k - 1) : cs.s.vName[v] \notin DefNames(cs, chain[j])
\* S4'  a value that nothing defines any more (its producer was removed without safe=True, ...) may still be used:
\*      it is written as a bare name and read back as ONE placeholder value, provided all its uses sit in a single
\*      graph (the placeholder lives in the innermost scope), its name resolves to nothing else there, no other
\*      undefined value of the model has the same name, it is not a graph output, and it carries nothing but its
\*      name (type, shape, metadata and doc string of a value nobody defines are not written)
UndefinedIn(cs, root, v) == \A h2 \in GraphSetOf(cs, root) : v \notin DefinedBy(cs, h2)
UserGraphs(cs, root, v) ==
  {h2 \in GraphSetOf(cs, root) : InSeq(NodeInsOf(cs, h2), v) \/ InSeq(cs.s.gOut[h2], v)}
DanglesLocally(cs, root, chain, v) ==
  /\ UndefinedIn(cs, root, v)
  /\ UserGraphs(cs, root, v) = {chain[1]}
  /\ ~InSeq(cs.s.gOut[chain[1]], v)
  /\ \A j \in DOMAIN chain : cs.s.vName[v] \notin DefNames(cs, chain[j])
  /\ \A h2 \in GraphSetOf(cs, root) : \A w \in (RangeS(NodeInsOf(cs, h2)) \cup RangeS(cs.s.gOut[h2])) \ {0, v} :
        cs.s.vName[w] = cs.s.vName[v] => ~UndefinedIn(cs, root, w)     \* no other undefined value of that name anywhere
  /\ ~HasInfoRaw(cs, v)
RECURSIVE ScopesOKR(_, _, _, _, _)
ScopesOKR(cs, root, h, outer, d) ==
  LET chain == <<h>> \o outer IN
  /\ \A v \in RangeS(NodeInsOf(cs, h)) \ {0} : ResolvesTo(cs, chain, v) \/ DanglesLocally(cs, root, chain, v)
  /\ \A v \in RangeS(cs.s.gOut[h]) : v \in DefinedBy(cs, h)
  /\ d > 0 => \A y \in DOMAIN ChildrenOf(cs, h) : ScopesOKR(cs, root, ChildrenOf(cs, h)[y], chain, d - 1)
ScopesOK(cs, h, outer, d) == ScopesOKR(cs, h, h, outer, d)
\* S4 without the clause on graph outputs (used to count the states only that clause excludes)
RECURSIVE InputsResolve(_, _, _, _)
InputsResolve(cs, h, outer, d) ==
  LET chain == <<h>> \o outer IN
  /\ \A v \in RangeS(NodeInsOf(cs, h)) \ {0} : ResolvesTo(cs, chain, v)
  /\ \A v \in RangeS(cs.s.gOut[h]) : ResolvesTo(cs, chain, v)
  /\ d > 0 => \A y \in DOMAIN ChildrenOf(cs, h) : InputsResolve(cs, ChildrenOf(cs, h)[y], chain, d - 1)

\* S5  initializers have data (an initializer without a tensor is not written)
InitsHaveData(cs, h) == \A v \in RangeS(InitValsOf(cs, h)) : cs.s.vConst[v]

\* S6  a shape is representable only under a type (TypeProto holds the shape)
ShapesTyped(cs, h) == \A v \in DefinedBy(cs, h) : (cs.s.vName[v] # "" /\ cs.sh[v] # NoShape) => cs.ty[v] # ""

\* S7  a node output that is a graph output is an output of the graph its node is in (is_graph_output()
\*     does not say of which graph; value-info is left to "the" graph that lists it as output)
OutputsHome(cs, h) == \A v \in RangeS(NodeOutsOf(cs, h)) : cs.s.vIsOut[v] => InSeq(cs.s.gOut[h], v)

SerializableBut(cs, g, scopes) ==
  /\ TreeOK(cs, g)
  /\ \A h \in GraphSetOf(cs, g) :
        NamesOK(cs, h) /\ DefsUnique(cs, h) /\ InitsHaveData(cs, h) /\ ShapesTyped(cs, h) /\ OutputsHome(cs, h)
  /\ scopes

Serializable(cs, g) == SerializableBut(cs, g, ScopesOK(cs, g, <<>>, MaxNest))
\* the same with graph outputs allowed to be outer-scope values (reading under which the known
\* "outer value as subgraph output" behaviour would be a violation) - reported, not used for verdicts
SerializableLoose(cs, g) ==
  /\ TreeOK(cs, g)
  /\ \A h \in GraphSetOf(cs, g) :
        /\ NamesOK(cs, h) /\ DefsUnique(cs, h) /\ InitsHaveData(cs, h) /\ ShapesTyped(cs, h)
        /\ \A v \in RangeS(NodeOutsOf(cs, h)) : cs.s.vIsOut[v] => \E h2 \in GraphSetOf(cs, g) : InSeq(cs.s.gOut[h2], v)
  /\ InputsResolve(cs, g, <<>>, MaxNest)

WhyNot(cs, g) ==     \* first failing clause, for classification only
  IF ~TreeOK(cs, g) THEN "tree"
  ELSE IF \E h \in GraphSetOf(cs, g) : ~NamesOK(cs, h) THEN "names"
  ELSE IF \E h \in GraphSetOf(cs, g) : ~DefsUnique(cs, h) THEN "defs-unique"
  ELSE IF \E h \in GraphSetOf(cs, g) : ~InitsHaveData(cs, h) THEN "init-no-data"
  ELSE IF \E h \in GraphSetOf(cs, g) : ~ShapesTyped(cs, h) THEN "shape-without-type"
  ELSE IF ~InputsResolve(cs, g, <<>>, MaxNest) THEN "scope"
  ELSE IF ~ScopesOK(cs, g, <<>>, MaxNest) THEN "outer-value-as-graph-output"
  ELSE IF \E h \in GraphSetOf(cs, g) : ~OutputsHome(cs, h) THEN "output-of-other-graph"
  ELSE ""

\* =====================================================================================================
\* Deser: serde._deserialize_graph / _declare_node_outputs / _deserialize_node
\* =====================================================================================================
ScHas(sc, nm) == \E p \in sc : p[1] = nm
ScGet(sc, nm) == (CHOOSE p \in sc : p[1] = nm)[2]
ScPut(sc, nm, v) == {p \in sc : p[1] # nm} \cup {<<nm, v>>}
\* innermost scope first: the current graph, then the enclosing ones from the closest outwards; 0 = unknown
ScLookup(cur, stack, nm) ==
  IF ScHas(cur, nm) THEN ScGet(cur, nm)
  ELSE LET hits == {k \in DOMAIN stack : ScHas(stack[k], nm)}
       IN IF hits = {} THEN 0 ELSE ScGet(stack[Max(hits)], nm)

HasVI(P, nm) == \E x \in DOMAIN P.vinfo : P.vinfo[x].name = nm
LastVI(P, nm) == P.vinfo[Max({x \in DOMAIN P.vinfo : P.vinfo[x].name = nm})]   \* {info.name: info}: the last wins

DNew(cs, nm) ==     \* Value(name=nm); its id is DLast of the result
  LET c1 == SPad([cs EXCEPT !.s = AddFreshVals(cs.s, 1)])
  IN [c1 EXCEPT !.s.vName[Len(c1.s.vProd)] = nm]
DLast(cs) == Len(cs.s.vProd)
\* deserialize_value_info_proto: type and shape overwritten when the entry has a type (an entry without one
\* leaves what the value already has, e.g. what an initializer took from its tensor), metadata merged,
\* doc string overwritten
DApplyVI(cs, v, vi) == [cs EXCEPT !.ty[v] = IF vi.ty = "" THEN @ ELSE vi.ty, !.sh[v] = IF vi.ty = "" THEN @ ELSE vi.sh,
                                  !.md[v] = @ \cup vi.md, !.vdoc[v] = vi.doc]
DMaybeVI(cs, v, P, nm) == IF HasVI(P, nm) THEN DApplyVI(cs, v, LastVI(P, nm)) ELSE cs
DSetTensor(cs, v, t) == [cs EXCEPT !.s.vConst[v] = TRUE, !.cty[v] = t.ty, !.csh[v] = t.sh, !.tn[v] = t.name]

RECURSIVE DeserGraph(_, _, _)
\* a: [cs, stack (scopes of the enclosing graphs, innermost last), cur, err, last, vals, subs, nodes]
DeserGraph(a0, P, d) ==
  LET \* values for inputs, value-info applied
      a1 == FoldLeft(LAMBDA a, vi : LET c == DNew(a.cs, vi.name)
                                    IN [a EXCEPT !.cs = DApplyVI(c, DLast(c), vi), !.vals = Append(@, DLast(c))],
                     [a0 EXCEPT !.vals = <<>>], P.inputs)
      ins == a1.vals
      sc0 == FoldLeft(LAMBDA sc, v : ScPut(sc, a1.cs.s.vName[v], v), {}, ins)     \* a later input of the same name wins
      \* initializer tensors: unnamed skipped; the name of an input attaches to it; else a new value typed by the tensor
      a2 == FoldLeft(LAMBDA a, t :
                IF t.name = "" THEN a
                ELSE IF ScHas(a.cur, t.name)
                THEN LET v == ScGet(a.cur, t.name) IN [a EXCEPT !.cs = DSetTensor(a.cs, v, t), !.vals = Append(@, v)]
                ELSE LET c1 == DNew(a.cs, t.name)
                         v  == DLast(c1)
                         c2 == [DSetTensor(c1, v, t) EXCEPT !.ty[v] = t.ty, !.sh[v] = t.sh]
                     IN [a EXCEPT !.cs = DMaybeVI(c2, v, P, t.name), !.cur = ScPut(@, t.name, v), !.vals = Append(@, v)],
                [a1 EXCEPT !.vals = <<>>, !.cur = sc0], P.inits)
      inits == a2.vals
      \* declare every node output of this graph before resolving any input
      a3 == FoldLeft(LAMBDA a, nm :
                IF a.err # "" \/ nm = "" THEN a
                ELSE IF ScHas(a.cur, nm) THEN [a EXCEPT !.err = "redeclared"]
                ELSE LET c1 == DNew(a.cs, nm)
                     IN [a EXCEPT !.cs = DMaybeVI(c1, DLast(c1), P, nm), !.cur = ScPut(@, nm, DLast(c1))],
                a2, FlattenSeq([x \in DOMAIN P.nodes |-> P.nodes[x].outs]))
      NodeStep(a, pn) ==
        IF a.err # "" THEN a
        ELSE
        LET \* inputs: "" -> None; known name -> that value; unknown -> placeholder in the innermost scope
            b1 == FoldLeft(LAMBDA b, nm :
                     IF nm = "" THEN [b EXCEPT !.vals = Append(@, 0)]
                     ELSE LET r == ScLookup(b.cur, b.stack, nm) IN
                          IF r # 0 THEN [b EXCEPT !.vals = Append(@, r)]
                          ELSE LET c1 == DNew(b.cs, nm)
                               IN [b EXCEPT !.cs = DMaybeVI(c1, DLast(c1), P, nm), !.cur = ScPut(@, nm, DLast(c1)),
                                            !.vals = Append(@, DLast(c1))],
                     [a EXCEPT !.vals = <<>>], pn.ins)
            nins == b1.vals
            \* outputs: "" -> a fresh value named ""; else the value declared in the current scope
            b2 == FoldLeft(LAMBDA b, nm :
                     IF nm = "" THEN LET c1 == DNew(b.cs, "") IN [b EXCEPT !.cs = c1, !.vals = Append(@, DLast(c1))]
                     ELSE [b EXCEPT !.vals = Append(@, ScGet(b.cur, nm))],
                     [b1 EXCEPT !.vals = <<>>], pn.outs)
            nouts == b2.vals
            \* graph attributes recurse with the scope stack (the current scope pushed)
            b3 == IF d = 0 THEN [b2 EXCEPT !.subs = <<>>]
                  ELSE FoldLeft(LAMBDA b, sp :
                          IF b.err # "" THEN b
                          ELSE LET r == DeserGraph([b EXCEPT !.stack = Append(b.stack, b.cur)], sp, d - 1)
                               IN [b EXCEPT !.cs = r.cs, !.err = r.err, !.subs = Append(@, r.last)],
                          [b2 EXCEPT !.subs = <<>>], pn.subs)
            res == NewNode(b3.cs.s, nins, nouts, 0, 0)
            nn  == Len(b3.cs.s.nIn) + 1
            c4  == SPad([b3.cs EXCEPT !.s = res.s])
        IN IF b3.err # "" THEN b3
           ELSE IF res.out # "ok" THEN [b3 EXCEPT !.err = "node:" \o res.out]
           ELSE [b3 EXCEPT !.cs = [c4 EXCEPT !.sub[nn] = b3.subs, !.nat[nn] = pn.attrs, !.nmd[nn] = pn.md,
                                             !.nName = Append(@, pn.name)],
                           !.nodes = Append(@, nn)]
      a4 == FoldLeft(NodeStep, [a3 EXCEPT !.nodes = <<>>], P.nodes)
      \* outputs: looked up in the CURRENT scope only, unknown -> a fresh value; value-info applied
      a5 == FoldLeft(LAMBDA a, vi :
                LET hit == ScHas(a.cur, vi.name)
                    c1  == IF hit THEN a.cs ELSE DNew(a.cs, vi.name)
                    v   == IF hit THEN ScGet(a.cur, vi.name) ELSE DLast(c1)
                IN [a EXCEPT !.cs = DApplyVI(c1, v, vi), !.vals = Append(@, v)],
                [a4 EXCEPT !.vals = <<>>], P.outputs)
      c6  == SPad(BuildGraph(a5.cs, ins, a5.vals, a4.nodes, inits))
      gid == Len(c6.s.gNodes)
  IN IF a0.err # "" THEN a0
     ELSE IF a4.err # "" THEN [a0 EXCEPT !.err = a4.err, !.cs = a4.cs]
     ELSE [a0 EXCEPT !.cs = [c6 EXCEPT !.gmd[gid] = P.md], !.last = gid]

Deser(P) ==
  LET a == DeserGraph([cs |-> [nName |-> <<>>] @@ EmptySCS(0, <<>>, <<>>), stack |-> <<>>, cur |-> {}, err |-> "", last |-> 0,
                       vals |-> <<>>, subs |-> <<>>, nodes |-> <<>>], P, MaxNest)
  IN [cs |-> a.cs, root |-> a.last, err |-> a.err]

\* =====================================================================================================
\* Iso: isomorphism of two IR graphs (with everything nested) as object graphs
\* =====================================================================================================
\* The skeleton fixes order and arity of everything; the walk lists every value occurrence in the order
\* of the skeleton (inputs, initializers, per node: inputs, outputs, nested graphs, then graph outputs).
\* Every entry of a node's device configurations is part of the skeleton, in order (configuration name, stage,
\* axes and devices of each sharding spec); the sharded values are occurrences of the walk (bound by identity).
\* Two graphs are isomorphic when the skeletons are equal, the two walks have the same equality pattern
\* (two occurrences are the same object on one side exactly when they are on the other: sharing between
\* scopes, captured values resolved to the SAME outer object, a value listed twice) and corresponding
\* values carry equal tokens.  Trailing empty-named outputs are absent optional outputs on both sides.
\* node device configurations (only observed states carry them; the component is absent from model states):
\* per node a sequence of [cfg: configuration name, stage: pipeline stage or -1, specs: Seq([v, axes, devs])]
NodeDc(cs, n) == IF "ndc" \in DOMAIN cs THEN cs.ndc[n] ELSE <<>>
DcSkel(cs, n) == [x \in DOMAIN NodeDc(cs, n) |->
                    [ cfg |-> NodeDc(cs, n)[x].cfg, stage |-> NodeDc(cs, n)[x].stage,
                      specs |-> [y \in DOMAIN NodeDc(cs, n)[x].specs |->
                                   [axes |-> NodeDc(cs, n)[x].specs[y].axes, devs |-> NodeDc(cs, n)[x].specs[y].devs]] ]]
DcVals(cs, n) == FlattenSeq([x \in DOMAIN NodeDc(cs, n) |->
                    [y \in DOMAIN NodeDc(cs, n)[x].specs |-> NodeDc(cs, n)[x].specs[y].v]])

RECURSIVE SkelOf(_, _, _)
SkelOf(cs, g, d) ==
  [ nin |-> Len(cs.s.gIn[g]), ninit |-> Len(cs.s.gInit[g]), nout |-> Len(cs.s.gOut[g]), md |-> cs.gmd[g],
    nodes |-> [x \in DOMAIN cs.s.gNodes[g] |->
                 LET n == cs.s.gNodes[g][x] IN
                 [ name |-> NodeName(cs, n), nins |-> Len(cs.s.nIn[n]), nouts |-> Len(TrimOuts(cs, n)),
                   attrs |-> cs.nat[n], md |-> cs.nmd[n], dc |-> DcSkel(cs, n),
                   subs |-> IF d = 0 THEN <<>> ELSE [y \in DOMAIN cs.sub[n] |-> SkelOf(cs, cs.sub[n][y], d - 1)] ]] ]

RECURSIVE WalkOf(_, _, _)
WalkOf(cs, g, d) ==     \* sequence of [v, role]
  LET R(q, role) == [x \in DOMAIN q |-> [v |-> q[x], role |-> role]] IN
  R(cs.s.gIn[g], "in") \o R(InitValsOf(cs, g), "init")
  \o FlattenSeq([x \in DOMAIN cs.s.gNodes[g] |->
        LET n == cs.s.gNodes[g][x] IN
        R(cs.s.nIn[n], "use") \o R(TrimOuts(cs, n), "def") \o R(DcVals(cs, n), "shard")
        \o (IF d = 0 THEN <<>> ELSE FlattenSeq([y \in DOMAIN cs.sub[n] |-> WalkOf(cs, cs.sub[n][y], d - 1)]))])
  \o R(cs.s.gOut[g], "out")

\* tokens of corresponding values: name, type, shape, metadata, doc string; an initializer also its data's
\* type and shape.  An absent optional output ("" name) carries nothing.  An initializer left without type
\* and shape in the original may come back typed by its tensor (the deserializer's documented choice).
TokOK(c1, v1, r1, c2, v2) ==
  IF v1 = 0 \/ v2 = 0 THEN v1 = v2
  ELSE /\ c1.s.vName[v1] = c2.s.vName[v2]
       /\ c1.s.vName[v1] # "" =>
            /\ c1.md[v1] = c2.md[v2] /\ c1.vdoc[v1] = c2.vdoc[v2]
            /\ \/ c1.ty[v1] = c2.ty[v2] /\ c1.sh[v1] = c2.sh[v2]
               \/ /\ r1 = "init" /\ c1.ty[v1] = "" /\ c1.sh[v1] = NoShape /\ c1.s.vConst[v1]
                  /\ c2.ty[v2] = c1.cty[v1] /\ c2.sh[v2] = c1.csh[v1]
       /\ r1 = "init" => /\ c1.s.vConst[v1] = c2.s.vConst[v2]
                         /\ c1.cty[v1] = c2.cty[v2] /\ c1.csh[v1] = c2.csh[v2]

\* an initializer position tells the role of every other occurrence of the same value
IsInitIn(W, v) == \E x \in DOMAIN W : W[x].v = v /\ W[x].role = "init"

Iso(c1, g1, c2, g2) ==
  LET W1 == WalkOf(c1, g1, MaxNest)
      W2 == WalkOf(c2, g2, MaxNest)
  IN /\ SkelOf(c1, g1, MaxNest) = SkelOf(c2, g2, MaxNest)
     /\ Len(W1) = Len(W2)
     /\ \A x, y \in DOMAIN W1 : (W1[x].v = W1[y].v) <=> (W2[x].v = W2[y].v)
     /\ \A x \in DOMAIN W1 :
           TokOK(c1, W1[x].v, IF W1[x].v # 0 /\ IsInitIn(W1, W1[x].v) THEN "init" ELSE W1[x].role, c2, W2[x].v)

\* =====================================================================================================
\* C03 at the design level
\* =====================================================================================================
RoundTrip(cs, g) == Deser(Ser(cs, g))
RoundTripIso(cs, g) == LET r == RoundTrip(cs, g) IN r.err = "" /\ Iso(cs, g, r.cs, r.root)
C03RoundTrip(cs, g) == Serializable(cs, g) => RoundTripIso(cs, g)
\* serializing twice gives equal protos: the proto does not depend on what serialization changes
C03Twice(cs, g) == Ser(SerEffect(cs, g), g) = Ser(cs, g) /\ SerEffect(SerEffect(cs, g), g) = SerEffect(cs, g)
\* nothing but tensor names changes, and those only on written initializers, to the value's name
C03Effect(cs, g) ==
  LET e == SerEffect(cs, g) IN
  /\ [e EXCEPT !.tn = cs.tn] = cs
  /\ \A v \in DOMAIN cs.tn : e.tn[v] # cs.tn[v] => (v \in WrittenInits(cs, g) /\ e.tn[v] = cs.s.vName[v])
\* what the deserializer builds is a consistent IR (the C01 invariants hold on it)
DeserConsistent(cs, g) == LET r == RoundTrip(cs, g) IN r.err = "" => C01Inv(Obs(r.cs.s))
=============================================================================
