CONSTANTS
  Dev = {}
  Mode = "valid"
  MaxNodes = 2
  MaxGraphs = 3
  MaxDepth = 2
  MaxSlots = 4
  MaxIO = 2
  MaxNodeIO = 2
  MaxInits = 1
  Irvs = {9, 10, 11}
  WithFunc = "only"
  MaxAnn = 3
  EmitOn = TRUE
SPECIFICATION Spec
CONSTRAINT Bound
INVARIANT Holds
CHECK_DEADLOCK FALSE
