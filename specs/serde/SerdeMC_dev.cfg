\* The observed deviations of the code, switched on in the model: TLC must report Holds violated
\* (payload duplication / loss is visible at the design level).  Not a design configuration.
CONSTANTS
  Dev = {"quant-twice", "tensor-meta-twice", "func-input-vi-lost"}
  Mode = "valid"
  MaxNodes = 2
  MaxGraphs = 2
  MaxDepth = 2
  MaxSlots = 3
  MaxIO = 2
  MaxNodeIO = 2
  MaxInits = 1
  Irvs = {11}
  WithFunc = "yes"
  MaxAnn = 3
  EmitOn = FALSE
SPECIFICATION Spec
CONSTRAINT Bound
INVARIANT Holds
CHECK_DEADLOCK FALSE
