----------------------------- MODULE SerdeTrace -----------------------------
(***************************************************************************)
(* C17, code -> specification: the IR object graphs that the real          *)
(* deserializer returned (for enumerated, field-mutated and byte-mutated   *)
(* protos) are projected through public accessors to the observable record *)
(* of IRGraph (Obs) and written, de-duplicated, to the file named by the   *)
(* environment variable TRACE_FILE:                                        *)
(*     { "obs": [ <observable record>, ... ] }                             *)
(* TLC evaluates the C01 invariants of IRGraph ON EVERY OBSERVED STATE     *)
(* (one initial state per record, no transitions) and prints               *)
(*     ["bad", i, <names of the broken invariants>]                        *)
(* for the records that break one; the number of distinct states is the    *)
(* number of records examined.                                             *)
(***************************************************************************)
EXTENDS IRGraph, Json, IOUtils

Data == JsonDeserialize(IOEnv.TRACE_FILE)
ObsSeq == Data.obs

VARIABLE i
Init == i \in 1..Len(ObsSeq)
Next == FALSE /\ i' = i
Spec == Init /\ [][Next]_i

Broken(o) == (IF UseDef(o) THEN <<>> ELSE <<"UseDef">>) \o (IF ProducerOK(o) THEN <<>> ELSE <<"ProducerOK">>)
          \o (IF NodeGraphOK(o) THEN <<>> ELSE <<"NodeGraphOK">>) \o (IF FlagsOK(o) THEN <<>> ELSE <<"FlagsOK">>)
          \o (IF InitKeyOK(o) THEN <<>> ELSE <<"InitKeyOK">>) \o (IF NoProducer(o) THEN <<>> ELSE <<"NoProducer">>)

\* well-formedness of the record itself (ids in range): a projection that refers to an object the traversal
\* could not number (-1) is an inconsistency of the object graph, reported under the name "Closed"
Closed(o) ==
  LET nV == Len(o.vProd)
      nN == Len(o.nIn)
      nG == Len(o.gNodes)
  IN /\ \A n \in 1..nN : /\ \A x \in DOMAIN o.nIn[n] : o.nIn[n][x] \in 0..nV
                         /\ \A x \in DOMAIN o.nOut[n] : o.nOut[n][x] \in 1..nV
                         /\ o.nGraph[n] \in 0..nG
     /\ \A g \in 1..nG : /\ \A x \in DOMAIN o.gNodes[g] : o.gNodes[g][x] \in 1..nN
                         /\ \A x \in DOMAIN o.gIn[g] : o.gIn[g][x] \in 1..nV
                         /\ \A x \in DOMAIN o.gOut[g] : o.gOut[g][x] \in 1..nV
                         /\ \A x \in DOMAIN o.gInitV[g] : o.gInitV[g][x] \in 1..nV
     /\ \A v \in 1..nV : o.vProd[v] \in 0..nN /\ o.vGraph[v] \in 0..nG

Report ==
  LET o == ObsSeq[i]
      b == IF Closed(o) THEN Broken(o) ELSE <<"Closed">>
  IN b # <<>> => PrintT(ToJson(<<"bad", i, b>>))
=============================================================================
