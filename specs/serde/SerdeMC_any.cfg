CONSTANTS
  Dev = {}
  Mode = "any"
  MaxNodes = 2
  MaxGraphs = 3
  MaxDepth = 2
  MaxSlots = 4
  MaxIO = 2
  MaxNodeIO = 2
  MaxInits = 2
  Irvs = {11}
  WithFunc = "no"
  MaxAnn = 3
  EmitOn = TRUE
SPECIFICATION Spec
INVARIANT Holds
CHECK_DEADLOCK FALSE
