CONSTANTS
  SeedIds = {5}
  Focus = {"SetName"}
  MaxDepth = 1
  EditVals = {1}
  EditNodes = {1}
  EmitOn = FALSE
INIT Init
NEXT Next
VIEW View
CONSTRAINT Bound
INVARIANT InvRoundTripLoose
