INIT Init
NEXT Next
INVARIANT Judge
