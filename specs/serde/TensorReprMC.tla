----------------------------- MODULE TensorReprMC -----------------------------
(***************************************************************************)
(* Model-checking harness of TensorRepr.                                   *)
(*                                                                         *)
(* Initial states: every logical tensor of the bounded space               *)
(* cls x n in NSet x 3 shapes x 5 code patterns.  Construct(r): build      *)
(* representation r in RepsOf(cls).  FirstWrite(k) / NextWrite: tofile()   *)
(* into a destination of kind k chosen at the first write (at most         *)
(* MaxWrites consecutive writes into the same destination).                *)
(* Invariants: AgreeInv (the property for this state), PackLen, WriteInv,   *)
(* AgreeAllInv (pairwise agreement, evaluated once per logical tensor).     *)
(* EmitState prints one JSON record per distinct state: the logical tensor,*)
(* the representation, what it stores (per applicable element type), the   *)
(* expected bytes / nbytes / dims, and the expected file content and        *)
(* position after the writes.  The binding executes each record on the     *)
(* real library.                                                           *)
(*                                                                         *)
(* TensorReprMC_tables.cfg: a single state; invariant Tables, EmitTables   *)
(* prints the element type tables for comparison with onnx_ir._enums.      *)
(***************************************************************************)
EXTENDS TensorRepr, Json

CONSTANTS NSet, ClsSet, MaxWrites, EmitOn,
          WritePats   \* code patterns for which tofile() is explored (all of them in the thorough tier)

VARIABLES t, rep, w, dk, dst
vars == <<t, rep, w, dk, dst>>

(***************************************************************************)
(* Element pattern catalogues (little-endian bytes).                       *)
(***************************************************************************)
B8 == << <<0>>, <<1>>, <<127>>, <<128>>, <<255>>, <<124>>, <<252>>, <<126>>, <<129>>, <<85>>, <<120>>, <<8>> >>
\* 0x0000 0x0001 0x7FFF 0x8000 0xFFFF | f16 +inf -inf qNaN sNaN 1.0 | bf16 +inf -inf qNaN | byte order probes
B16 == << <<0, 0>>, <<1, 0>>, <<255, 127>>, <<0, 128>>, <<255, 255>>,
          <<0, 124>>, <<0, 252>>, <<0, 126>>, <<1, 124>>, <<0, 60>>,
          <<128, 127>>, <<128, 255>>, <<192, 127>>,
          <<255, 0>>, <<0, 255>>, <<52, 18>>, <<255, 251>>, <<1, 128>> >>
\* 0 1 INT_MAX INT_MIN -1 | +inf -inf qNaN qNaN+payload -qNaN FLT_MAX min-normal 1.0 -0.0(dup of INT_MIN avoided) | probes
B32 == << <<0, 0, 0, 0>>, <<1, 0, 0, 0>>, <<255, 255, 255, 127>>, <<0, 0, 0, 128>>, <<255, 255, 255, 255>>,
          <<0, 0, 128, 127>>, <<0, 0, 128, 255>>, <<0, 0, 192, 127>>, <<1, 0, 192, 127>>, <<0, 0, 192, 255>>,
          <<255, 255, 127, 127>>, <<0, 0, 128, 0>>, <<0, 0, 128, 63>>,
          <<4, 3, 2, 1>>, <<0, 0, 0, 1>>, <<255, 0, 0, 0>>, <<1, 0, 0, 128>>, <<0, 202, 154, 59>> >>
B64 == << <<0, 0, 0, 0, 0, 0, 0, 0>>, <<1, 0, 0, 0, 0, 0, 0, 0>>, <<255, 255, 255, 255, 255, 255, 255, 127>>,
          <<0, 0, 0, 0, 0, 0, 0, 128>>, <<255, 255, 255, 255, 255, 255, 255, 255>>,
          <<0, 0, 0, 0, 0, 0, 240, 127>>, <<0, 0, 0, 0, 0, 0, 240, 255>>, <<0, 0, 0, 0, 0, 0, 248, 127>>,
          <<1, 0, 0, 0, 0, 0, 240, 127>>, <<1, 0, 0, 0, 0, 0, 248, 255>>,
          <<255, 255, 255, 255, 255, 255, 239, 127>>, <<0, 0, 0, 0, 0, 0, 16, 0>>, <<0, 0, 0, 0, 0, 0, 240, 63>>,
          <<8, 7, 6, 5, 4, 3, 2, 1>>, <<0, 0, 0, 0, 1, 0, 0, 0>>, <<255, 255, 255, 255, 0, 0, 0, 0>>,
          <<0, 0, 0, 128, 0, 0, 0, 0>>, <<1, 0, 0, 0, 0, 0, 0, 128>> >>
\* complex: (re, im) pairs drawn from the component catalogues
Pair(P, i, j) == P[i] \o P[j]
C64  == << Pair(B32, 1, 1), Pair(B32, 13, 7), Pair(B32, 8, 13), Pair(B32, 11, 12), Pair(B32, 5, 5), Pair(B32, 14, 1),
           Pair(B32, 1, 14), Pair(B32, 6, 9), Pair(B32, 4, 2), Pair(B32, 10, 3), Pair(B32, 15, 16), Pair(B32, 17, 18) >>
C128 == << Pair(B64, 1, 1), Pair(B64, 13, 7), Pair(B64, 8, 13), Pair(B64, 11, 12), Pair(B64, 5, 5), Pair(B64, 14, 1),
           Pair(B64, 1, 14), Pair(B64, 6, 9), Pair(B64, 4, 2), Pair(B64, 10, 3), Pair(B64, 15, 16), Pair(B64, 17, 18) >>
\* strings (no trailing NUL - onnx.proto forbids it): "", "a", "abc", UTF-8 e-acute, embedded NUL, invalid UTF-8, long
Str == << <<>>, <<97>>, <<97, 98, 99>>, <<195, 169>>, <<0, 98>>, <<255, 254>>, <<120, 0, 255, 121>>,
          <<32>>, <<97, 32, 98, 10, 99>> >>

Pats(cls) == CASE cls = "b2" -> <<0, 1, 2, 3>>
               [] cls = "b4" -> <<0, 1, 2, 3, 4, 5, 6, 7, 8, 9, 10, 11, 12, 13, 14, 15>>
               [] cls = "bool" -> << <<0>>, <<1>> >>
               [] cls = "b8" -> B8 [] cls = "b16" -> B16 [] cls = "b32" -> B32 [] cls = "b64" -> B64
               [] cls = "c64" -> C64 [] cls = "c128" -> C128 [] cls = "string" -> Str

PatKinds == {"zeros", "ones", "ramp", "rev", "alt"}
CodesOf(cls, n, pat) ==
  LET P == Pats(cls) L == Len(P)
  IN [i \in 1..n |->
        CASE pat = "zeros" -> ZeroPat(cls)
          [] pat = "ones"  -> OnesPat(cls)
          [] pat = "ramp"  -> P[((i - 1) % L) + 1]
          [] pat = "rev"   -> P[L - ((i - 1) % L)]
          [] pat = "alt"   -> IF i % 2 = 1 THEN OnesPat(cls) ELSE ZeroPat(cls)]

\* smallest factor > 1
SF(n) == CHOOSE a \in 2..n : n % a = 0 /\ \A b \in 2..(a - 1) : n % b # 0
\* up to three shapes of n elements: rank 1, rank 2 (rank 0 for a single element), rank 5
Shapes(n) ==
  IF n = 0 THEN << <<0>>, <<2, 0, 3>>, <<1, 0, 2, 0, 1>> >>
  ELSE IF n = 1 THEN << <<>>, <<1>>, <<1, 1, 1, 1, 1>> >>
  ELSE << <<n>>, <<SF(n), n \div SF(n)>>, <<1, SF(n), 1, n \div SF(n), 1>> >>

Tensors ==
  {[cls |-> c, n |-> n, dims |-> Shapes(n)[s], pat |-> p, codes |-> CodesOf(c, n, p)] :
      c \in ClsSet, n \in NSet, s \in 1..3, p \in PatKinds}

NoDst == [content |-> <<>>, pos |-> 0]

NoRep == Rep("none", "-", "-", "-", FALSE, "-", FALSE, "-")

\* a logical tensor, not yet represented
Init ==
  /\ t \in {x \in Tensors : x.n > 0 \/ x.pat = "zeros"}
  /\ rep = NoRep
  /\ w = 0 /\ dk = "none" /\ dst = NoDst

\* build one representation of the logical tensor
Construct(r) ==
  /\ rep = NoRep /\ rep' = r
  /\ UNCHANGED <<t, w, dk, dst>>

\* the bytes the representation hands to tofile(): independent of the element type when Agree holds
WBytes == RBytes(rep, t, CHOOSE d \in Applicable(rep, t.cls) : TRUE)

FirstWrite(k) ==
  /\ rep # NoRep /\ w = 0 /\ HasBytes(t.cls) /\ MaxWrites >= 1
  /\ dk' = k /\ dst' = ToFile(DestInit(k), WBytes) /\ w' = 1
  /\ UNCHANGED <<t, rep>>

NextWrite ==
  /\ w >= 1 /\ w < MaxWrites
  /\ dst' = ToFile(dst, WBytes) /\ w' = w + 1
  /\ UNCHANGED <<t, rep, dk>>

\* (guards first: TLC then does not enumerate the quantified sets in states where the action is disabled)
ConstructAny  == rep = NoRep /\ \E r \in RepsOf(t.cls) : Construct(r)
FirstWriteAny == rep # NoRep /\ w = 0 /\ (t.n = 0 \/ t.pat \in WritePats) /\ \E k \in DestKinds : FirstWrite(k)

Next == ConstructAny \/ FirstWriteAny \/ NextWrite

Spec == Init /\ [][Next]_vars

(***************************************************************************)
(* Invariants                                                              *)
(***************************************************************************)
AgreeInv == rep # NoRep => Agree(t, rep)

PackLen == HasBytes(t.cls) =>
  /\ Len(Pack(t.cls, t.codes)) = NBytes(t.cls, t.n)
  /\ Unpack(t.cls, Pack(t.cls, t.codes), t.n) = t.codes
  /\ \A i \in 1..NBytes(t.cls, t.n) : Pack(t.cls, t.codes)[i] \in 0..255

WriteInv == w > 0 => WroteOK(t, rep, dk, w, dst)
\* writing in pieces (short transfers of the operating system) gives the same destination
ShortTransferInv == (w = 1) => ShortTransferOK(DestInit(dk), WBytes)

\* agreement of all representations with each other, once per logical tensor (on the unrepresented state)
AgreeAllInv == rep = NoRep => AgreeAll(t)

TypeOK ==
  /\ t.cls \in Classes /\ (rep = NoRep \/ Applicable(rep, t.cls) # {}) /\ w \in 0..MaxWrites
  /\ (rep = NoRep => w = 0)
  /\ (w = 0) = (dk = "none") /\ (w > 0 => dk \in DestKinds)

(***************************************************************************)
(* Emission                                                                *)
(***************************************************************************)
PerDType ==
  LET ds == Applicable(rep, t.cls)
      S(d) == Stored(rep, t, d)
  IN {[d |-> d, ints |-> S(d).ints] : d \in ds}

StateRec ==
  LET d0 == CHOOSE d \in Applicable(rep, t.cls) : TRUE
      s == Stored(rep, t, d0)
      hb == HasBytes(t.cls)
  IN [cls |-> t.cls, n |-> t.n, dims |-> t.dims, pat |-> t.pat, codes |-> t.codes,
      rep |-> rep,
      base |-> Base(rep, t.cls),
      per |-> PerDType,
      scodes |-> s.codes, start |-> s.start, step |-> s.step, sbytes |-> s.bytes, entries |-> s.entries, file |-> s.file, off |-> s.off, len |-> s.len,
      bytes |-> IF hb THEN Pack(t.cls, t.codes) ELSE <<>>,
      nbytes |-> IF hb THEN NBytes(t.cls, t.n) ELSE -1,
      w |-> w, dk |-> dk,
      dinit |-> IF w > 0 THEN DestInit(dk) ELSE NoDst,
      dst |-> dst]

EmitState == (EmitOn /\ rep # NoRep) => PrintT(ToJson(StateRec))

(***************************************************************************)
(* Tables configuration                                                    *)
(***************************************************************************)
InitTables == t = [cls |-> "b8", n |-> 0, dims |-> <<0>>, pat |-> "zeros", codes |-> <<>>]
              /\ rep = NoRep /\ w = 0 /\ dk = "none" /\ dst = NoDst
NextTables == UNCHANGED vars

TablesInv == w >= 0 /\ Tables

TableRec ==
  {[name |-> d, value |-> EnumValue[d], kind |-> Kind[d], cls |-> ClsOf(d),
    bits |-> IF d \in Numeric THEN BitWidth[d] ELSE -1,
    isnum |-> IF d \in Numeric THEN ItemSize(d).num ELSE -1, isden |-> 8,
    np |-> NumpyType[d], short |-> ShortName[d],
    fields |-> LegalField(d), torch |-> d \in TorchOK, nonnative |-> d \in NonNative] : d \in Names}

EmitTables == PrintT(ToJson([tables |-> TableRec, w |-> w]))
=============================================================================
