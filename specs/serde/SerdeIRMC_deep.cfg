CONSTANTS
  SeedIds = {1, 2, 3, 4, 5, 6, 7}
  Focus = {"SetName","ReplaceInput","GInsertBefore","IOAppend","IOPop","InitAdd","SetType","SetShape","AttachSub","SetTensor","ResizeOutputs"}
  MaxDepth = 4
  EditVals = {1, 6, 7}
  EditNodes = {2, 3}
  EmitOn = TRUE
INIT Init
NEXT Next
VIEW View
CONSTRAINT Bound
INVARIANT EmitState
INVARIANT InvRoundTrip
INVARIANT InvTwice
INVARIANT InvEffect
INVARIANT InvC01
INVARIANT InvMech
PROPERTY RejectAtomic
