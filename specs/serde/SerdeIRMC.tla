----------------------------- MODULE SerdeIRMC -----------------------------
(***************************************************************************)
(* Edit histories over seed models; on every reachable state TLC checks    *)
(* the C03 theorems of SerdeIR and prints the state with its history, the  *)
(* Serializable verdict and the abstract proto the serializer must write   *)
(* (same emission scheme as IRCloneMC: EmitState as INVARIANT).            *)
(***************************************************************************)
EXTENDS SerdeIR, Json

CONSTANTS SeedIds, Focus, MaxDepth, EditVals, EditNodes, EmitOn

Names5  == <<"a", "b", "a", "<none>", "c">>
Consts5 == <<FALSE, TRUE, TRUE, TRUE, FALSE>>

VARIABLES st, last, hist, depth
vars == <<st, last, hist, depth>>

C(op) == [NoCall EXCEPT !.op = op]
In(g, v)  == [C("IOAppend") EXCEPT !.k = "in", !.g = g, !.v = v]
Out(g, v) == [C("IOAppend") EXCEPT !.k = "out", !.g = g, !.v = v]
Node(ins, k, g) == [C("NewNode") EXCEPT !.vs = ins, !.i = k, !.g = g]
Sub(n, g) == [C("AttachSub") EXCEPT !.n = n, !.g = g]
Ty(v, t) == [C("SetType") EXCEPT !.v = v, !.name = t]
Sh(v, d) == [C("SetShape") EXCEPT !.v = v, !.vs = d]
Nm(v, nm) == [C("SetName") EXCEPT !.v = v, !.name = nm]

\* A: capture over two levels.  g1(in a=v1, init b=v2): n1(v1,v2)->o6 ; n2(o6)->o7 {g2} ; out o7
\*    g2: n3(o6, v1)->o8 ; n5(o8)->o10 {g3} ; out o10        g3: n4(o8, o6, v1)->o9 ; out o9
\*    (g3 captures a node output of g2, a node output of g1 and an input of g1)
SeedA ==
  << In(1, 1), [C("InitAdd") EXCEPT !.g = 1, !.v = 2],
     Node(<<1, 2>>, 1, 1), Node(<<6>>, 1, 1), Node(<<6, 1>>, 1, 2), Node(<<8, 6, 1>>, 1, 3), Out(3, 9),
     Node(<<8>>, 1, 2), Sub(5, 3), Out(2, 10), Sub(2, 2), Out(1, 7),
     Ty(1, "FLOAT"), Sh(1, <<2, 3>>), Ty(6, "FLOAT"), Sh(6, <<-1, 0, -3>>), Ty(9, "INT64"),
     Ty(2, DefaultTy), Sh(2, DefaultSh),      \* the initializer b declares exactly the type and shape of its tensor
     [C("MetaPut") EXCEPT !.v = 1, !.name = "k1"], [C("SetDoc") EXCEPT !.v = 8, !.name = "d1"],
     [C("NodeMetaPut") EXCEPT !.n = 1, !.name = "k1"], [C("AttrPut") EXCEPT !.n = 1, !.name = "alpha"],
     [C("GraphMetaPut") EXCEPT !.g = 2, !.name = "k1"] >>

\* B: unsorted.  g1 = [n1()->o6 {g2}, n3(o7, o6)->o8, n2()->o7]: n3 uses o7 produced after it;
\*    g2 (carried by the FIRST node): n4(o7)->o9 uses a value the outer graph produces later
SeedB ==
  << Node(<<>>, 1, 1), Node(<<>>, 1, 0), Node(<<7, 6>>, 1, 1), [C("GAppend") EXCEPT !.g = 1, !.n = 2],
     Node(<<7>>, 1, 2), Out(2, 9), Sub(1, 2), Out(1, 8), In(1, 1), Ty(7, "FLOAT") >>

\* C: roles and optional things.  v2 is input + initializer + output (listed twice); None inputs in the middle
\*    and at the end; a node without outputs; an unused empty-named trailing output and one in the middle;
\*    values without type or shape; a type without shape
SeedC ==
  << In(1, 2), [C("InitAdd") EXCEPT !.g = 1, !.v = 2], Out(1, 2), Out(1, 2), In(1, 1),
     Node(<<1, 0, 2>>, 2, 1), Nm(7, ""), Node(<<6, 0>>, 0, 1), Node(<<0, 6>>, 3, 1), Nm(9, ""),
     Out(1, 10), Out(1, 8), Ty(2, "FLOAT"), Ty(10, "INT64"), Sh(10, <<>>),
     [C("MetaPut") EXCEPT !.v = 8, !.name = "k1"], [C("SetDoc") EXCEPT !.v = 6, !.name = "d1"] >>

\* D: shadowing and siblings.  g1(in a=v1): n1(v1)->o6 ; n3(o6)->o8 {g2, g3} ; out o8
\*    g2(in a=v3 with initializer, init b=v2): n2(v3, v2, o6)->o7 ; out o7   (its own "a" shadows the outer one)
\*    g3: n4(o6, v1)->o9 renamed "o7" (same name as in the sibling) ; out o9
SeedD ==
  << In(1, 1), Node(<<1>>, 1, 1), In(2, 3), [C("InitAdd") EXCEPT !.g = 2, !.v = 3],
     [C("InitAdd") EXCEPT !.g = 2, !.v = 2], Node(<<3, 2, 6>>, 1, 2), Out(2, 7), Node(<<6>>, 1, 1),
     Sub(3, 2), Node(<<6, 1>>, 1, 3), Out(3, 9), Sub(3, 3), Nm(9, "o7"), Out(1, 8),
     Ty(3, "FLOAT"), Sh(3, <<1>>), Ty(7, "FLOAT") >>

\* E: an outer-scope value listed as output of a subgraph.  g1(in a): n1(v1)->o6 ; n2(v1)->o7 {g2} ; out o7
\*    g2: outputs = [o6] (produced in g1)
SeedE ==
  << In(1, 1), Node(<<1>>, 1, 1), Node(<<1>>, 1, 1), Sub(2, 2), Out(2, 6), Out(1, 7), Ty(6, "FLOAT") >>

\* F: a value nothing defines (its producer n2 is in no graph), named "dg", used three times inside the body g2
\*    (twice by n3, once by n4) - it must be written as a bare name and come back as ONE placeholder
\*    g1(in a=v1): n1(v1)->o6 ; n5(o6)->o10 {g2} ; out o10        g2: n3(o7, o7, o6)->o8 ; n4(o7, o8)->o9 ; out o9
SeedF ==
  << In(1, 1), Node(<<1>>, 1, 1), Node(<<>>, 1, 0), Nm(7, "dg"),
     Node(<<7, 7, 6>>, 1, 2), Node(<<7, 8>>, 1, 2), Out(2, 9), Node(<<6>>, 1, 1), Sub(5, 2), Out(1, 10) >>

\* G: E after a history that comes back to (almost) where it started through a REJECTED edit: main.outputs.append(o6)
\*    is refused while o6 is an output of g2 (owned by another graph); g2 gives o6 up; o6 becomes an output of g1 and
\*    stops being one again.  In the specification all that is left is "g2 has no output"; whatever the refused call
\*    or the release left behind in the implementation shows when the model is written out.  (Histories are invisible
\*    in the state: TLC would report the state under its shortest history, hence a seed.)
SeedG == SeedE \o << Out(1, 6), [C("IOPop") EXCEPT !.k = "out", !.g = 2, !.i = -1],
                     Out(1, 6), [C("IOPop") EXCEPT !.k = "out", !.g = 1, !.i = -1] >>

Seed(id) == CASE id = 1 -> SeedA [] id = 2 -> SeedB [] id = 3 -> SeedC [] id = 4 -> SeedD [] id = 5 -> SeedE
              [] id = 6 -> SeedF [] id = 7 -> SeedG

Empty == EmptySCS(3, Names5, Consts5)

Init ==
  \E id \in SeedIds :
     /\ st = SApplyAll(Empty, Seed(id))
     /\ hist = SOutcomes(Empty, Seed(id))
     /\ last = [c |-> NoCall, out |-> "init"]
     /\ depth = 1

V == 1..Len(st.s.vProd)
N == 1..Len(st.s.nIn)
G == 1..Len(st.s.gNodes)
EV == EditVals \cap V
EN == EditNodes \cap N
InG(n) == st.s.nGraph[n]

EditCalls ==
     {[C("SetName") EXCEPT !.v = v, !.name = nm] : v \in EV, nm \in {"a", "", "o7"}}
  \cup {[C("SetName") EXCEPT !.v = v, !.name = NoName] : v \in EV \cap {1, 6}}
  \cup {[C("ReplaceInput") EXCEPT !.n = n, !.i = 0, !.v = v] : n \in EN, v \in (EV \cap {1, 3, 6, 7}) \cup {0}}
  \cup {[C("ReplaceInput") EXCEPT !.n = n, !.i = 1, !.v = v] : n \in EN, v \in {0, 8}}
  \cup {[C("ResizeOutputs") EXCEPT !.n = n, !.i = k] : n \in EN, k \in {0, 2}}
  \cup {[C("ResizeInputs") EXCEPT !.n = n, !.i = 1] : n \in EN}
  \cup {[C("GRemove") EXCEPT !.g = InG(n), !.vs = <<n>>, !.flag = FALSE] : n \in {m \in EN : InG(m) # 0}}
  \cup {[C("GInsertBefore") EXCEPT !.g = InG(n), !.n = st.s.gNodes[InG(n)][1], !.vs = <<n>>, !.flag = TRUE]
          : n \in {m \in EN : InG(m) # 0 /\ st.s.gNodes[InG(m)][1] # m}}
  \cup {[C("NewNode") EXCEPT !.vs = <<v>>, !.i = 1, !.g = g] : v \in EV \cap {1, 6}, g \in {1, 2}}
  \cup {[C("IOAppend") EXCEPT !.k = k, !.g = g, !.v = v] : k \in {"in", "out"}, g \in {1, 2}, v \in EV \cap {1, 3, 6, 7}}
  \cup {[C("IOPop") EXCEPT !.k = k, !.g = g, !.i = -1] : k \in {"in", "out"}, g \in G}
  \cup {[C("InitAdd") EXCEPT !.g = g, !.v = v] : g \in {1, 2}, v \in EV \cap {2, 3, 5}}
  \cup {[C("InitDel") EXCEPT !.g = g, !.name = nm] : g \in {1, 2}, nm \in {"a", "b"}}
  \cup {[C("SetType") EXCEPT !.v = v, !.name = t] : v \in EV, t \in {"", "INT64"}}
  \cup {[C("SetShape") EXCEPT !.v = v, !.vs = d] : v \in EV, d \in {NoShape, <<-1, 0>>, <<1>>}}   \* <<1>>: the shape of the default tensor (declared = the tensor's)
  \cup {[C("MetaPut") EXCEPT !.v = v, !.name = "k2"] : v \in EV}
  \cup {[C("ValMetaPut") EXCEPT !.v = v, !.name = "k2"] : v \in EV \cap {1, 6}}
  \cup {[C("SetDoc") EXCEPT !.v = v, !.name = "d2"] : v \in EV}
  \cup {[C("NodeMetaPut") EXCEPT !.n = n, !.name = "k2"] : n \in EN}
  \cup {[C("AttrPut") EXCEPT !.n = n, !.name = "beta"] : n \in EN}
  \cup {[C("AttrDel") EXCEPT !.n = n, !.name = "alpha"] : n \in EN}
  \cup {[C("GraphMetaPut") EXCEPT !.g = g, !.name = "k2"] : g \in G}
  \cup {[C("SetConst") EXCEPT !.v = v, !.flag = f] : v \in EV \cap {2, 3, 5}, f \in BOOLEAN}
  \cup {[C("SetTensor") EXCEPT !.v = v, !.name = k] : v \in EV \cap {2, 3}, k \in {"np", "lazy", "packed", "proto", "string", "npT"}}
  \cup {[C("AttachSub") EXCEPT !.n = n, !.g = g] : n \in EN \cap {1, 2}, g \in {2, 3}}

Calls == {c \in EditCalls : c.op \in Focus}

\* The number of edits is part of the state (and of the VIEW): with several workers TLC's own level of a state
\* depends on which path finds it first, a bound on the level alone would make the explored set vary from run to run.
Next ==
  /\ depth < MaxDepth
  /\ depth' = depth + 1
  /\ \E c \in Calls :
     LET r == SApply(st, c) IN
     /\ st' = r.s
     /\ last' = [c |-> c, out |-> r.out]
     /\ hist' = Append(hist, last')

Bound == depth <= MaxDepth
View == <<st, depth>>

Compact(c) == <<c.op, c.g, c.n, c.v, c.w, c.i, c.j, c.vs, c.ws, c.k, c.flag, c.name>>

\* the part of the state the binding compares with the real objects
Shown(cs) ==
  [ s |-> [nIn |-> cs.s.nIn, nOut |-> cs.s.nOut, nGraph |-> cs.s.nGraph, gNodes |-> cs.s.gNodes, gIn |-> cs.s.gIn,
           gOut |-> cs.s.gOut, gInit |-> cs.s.gInit, vName |-> cs.s.vName, vConst |-> cs.s.vConst,
           vIsOut |-> cs.s.vIsOut, vProd |-> cs.s.vProd],
    sub |-> cs.sub, ty |-> cs.ty, sh |-> cs.sh, md |-> cs.md, mt |-> cs.mt, nmd |-> cs.nmd, nat |-> cs.nat,
    gmd |-> cs.gmd, vdoc |-> cs.vdoc, tn |-> cs.tn, cty |-> cs.cty, csh |-> cs.csh ]

EmitState ==
  (EmitOn /\ Bound) =>
     PrintT(ToJson([ h |-> [x \in DOMAIN hist |-> <<Compact(hist[x].c), hist[x].out>>],
                     st |-> Shown(st),
                     ser |-> Serializable(st, 1),
                     loose |-> SerializableLoose(st, 1),
                     why |-> WhyNot(st, 1),
                     proto |-> Ser(st, 1),
                     tnPost |-> SerEffect(st, 1).tn ]))

\* ---- the design theorems of SerdeIR as invariants -----------------------------------------------------
\* C03RoundTrip(st, 1) /\ DeserConsistent(st, 1), written out so that the round trip is computed once per state
InvRoundTrip ==
  LET r == RoundTrip(st, 1) IN
  /\ Serializable(st, 1) => (r.err = "" /\ Iso(st, 1, r.cs, r.root))
  /\ r.err = "" => C01Inv(Obs(r.cs.s))
\* NOT a theorem (SerdeIRMC_loose.cfg shows the counterexample, seed E): with graph outputs allowed to be
\* outer-scope values the round trip loses the identity of such an output - the reason for clause S4's second line
InvRoundTripLoose == SerializableLoose(st, 1) => RoundTripIso(st, 1)
InvTwice == C03Twice(st, 1)
InvEffect == C03Effect(st, 1)
InvC01 == C01Inv(Obs(st.s))
InvMech == CountOK(st.s) /\ OwnerOK(st.s)
RejectAtomic == [][IsRej(last'.out) => st' = st]_vars
=============================================================================
