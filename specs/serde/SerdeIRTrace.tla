---------------------------- MODULE SerdeIRTrace ----------------------------
(***************************************************************************)
(* Judges pairs (original IR, IR deserialized from its proto) observed on  *)
(* the implementation.  Each record of the trace file holds the two object *)
(* graphs in the shape of SerdeIR's state (projected through public        *)
(* accessors); TLC evaluates, on the OBSERVED objects,                      *)
(*    ser   Serializable(orig, root)                                       *)
(*          (node device configurations, component ndc, are part of Iso;   *)
(*          the harness records them for the original from IR version 11)  *)
(*    iso   Iso(orig, root, deser, droot)          -- C03: ser => iso      *)
(*    miso  the specification's own Deser(Ser(orig)) is isomorphic to what  *)
(*          the implementation rebuilt (conformance of Ser and Deser)       *)
(* and prints one verdict line per record.  The records are visited as a   *)
(* binary tree over their indices so that all workers share the batch.     *)
(***************************************************************************)
EXTENDS SerdeIR, Json, IOUtils

Trace == JsonDeserialize(IOEnv.TRACE_FILE)
NRec == Len(Trace)

VARIABLE i
vars == <<i>>

SetsOf(q) == [x \in DOMAIN q |-> RangeS(q[x])]
FromJ(j) == [j EXCEPT !.md = SetsOf(@), !.nmd = SetsOf(@), !.nat = SetsOf(@), !.gmd = SetsOf(@)]

Init == i = 1 /\ NRec >= 1
Next == \E k \in {2 * i, 2 * i + 1} : k <= NRec /\ i' = k

Verdict(r) ==
  LET o == FromJ(r.orig)
      d == FromJ(r.deser)
      iso == Iso(o, o.root, d, d.root)
      rt == IF r.kind = "model" THEN RoundTrip(o, o.root) ELSE [err |-> "skip"]
  IN [ id |-> r.id, kind |-> r.kind, fn |-> r.fn,
       ser |-> Serializable(o, o.root), why |-> IF Serializable(o, o.root) THEN "" ELSE WhyNot(o, o.root), iso |-> iso,
       rtErr |-> rt.err,
       \* Ser/Deser do not model device configurations: that component is left out of this comparison
       miso |-> IF rt.err = "" THEN Iso(rt.cs, rt.root, [f \in DOMAIN d \ {"ndc"} |-> d[f]], d.root) ELSE FALSE ]

Judge == PrintT(ToJson(Verdict(Trace[i])))
=============================================================================
