CONSTANTS
  SeedIds = {1, 2, 3, 4, 5, 6, 7}
  Focus = {"SetName","ReplaceInput","ResizeOutputs","ResizeInputs","GRemove","GInsertBefore","NewNode","IOAppend","IOPop","InitAdd","InitDel","SetType","SetShape","MetaPut","ValMetaPut","SetDoc","NodeMetaPut","AttrPut","AttrDel","GraphMetaPut","SetConst","SetTensor","AttachSub"}
  MaxDepth = 3
  EditVals = {1, 2, 3, 5, 6, 7, 8, 9}
  EditNodes = {1, 2, 3, 4}
  EmitOn = TRUE
INIT Init
NEXT Next
VIEW View
CONSTRAINT Bound
INVARIANT EmitState
INVARIANT InvRoundTrip
INVARIANT InvTwice
INVARIANT InvEffect
INVARIANT InvC01
INVARIANT InvMech
PROPERTY RejectAtomic
