\* quick: the whole bounded space of (tensor, representation); one tofile() per destination kind for the ramp pattern (and empty tensors)
CONSTANTS
  NSet = {0, 1, 2, 3, 4, 5, 6, 7, 8, 9}
  ClsSet = {"b2", "b4", "b8", "b16", "b32", "b64", "c64", "c128", "bool", "string"}
  MaxWrites = 1
  WritePats = {"ramp"}
  EmitOn = TRUE
INIT Init
NEXT Next
INVARIANT TypeOK
INVARIANT AgreeInv
INVARIANT PackLen
INVARIANT WriteInv
INVARIANT ShortTransferInv
INVARIANT AgreeAllInv
INVARIANT EmitState
