------------------------------ MODULE SerdeOne ------------------------------
(***************************************************************************)
(* Replay helper: evaluates the formulas of Serde.tla on ONE implicit      *)
(* abstract proto read from the JSON file named by TRACE_FILE              *)
(* ({"p": <proto as emitted by SerdeMC>}) and emits the same record        *)
(* SerdeMC emits for it (Norm(p) in mode "valid", outcome class and IR     *)
(* projection in mode "any").                                              *)
(***************************************************************************)
EXTENDS SerdeMC, IOUtils

Given == JsonDeserialize(IOEnv.TRACE_FILE).p

GraphOf(j) == [kind |-> j.kind, par |-> j.par, pnode |-> j.pnode, ins |-> j.ins, inits |-> j.inits,
               nodes |-> [k \in DOMAIN j.nodes |-> [ins |-> j.nodes[k].ins, outs |-> j.nodes[k].outs]],
               outs |-> j.outs, vinfo |-> RangeS(j.vinfo), quant |-> RangeS(j.quant), untyped |-> RangeS(j.untyped)]

InitOne == p = [irv |-> Given.irv, dev |-> Given.dev, gs |-> [g \in DOMAIN Given.gs |-> GraphOf(Given.gs[g])]]
SpecOne == InitOne /\ [][FALSE /\ p' = p]_vars

\* like SerdeMC!Holds without the renaming filter
One == LET e == Explicit(p)
           v == Valid(e)
           d == Deser(e)
       IN PrintT(ToJson([c02 |-> C02With(e, d), c17 |-> C17With(d)] @@ Rec(e, d, v)))
=============================================================================
