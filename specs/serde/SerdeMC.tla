------------------------------- MODULE SerdeMC -------------------------------
(***************************************************************************)
(* Bounded enumeration of ABSTRACT PROTOS for C02 / C17.                   *)
(*                                                                         *)
(* The state is one implicit abstract proto p, grown one element at a time *)
(* (an input, an initializer, a node, a node input/output name, a nested   *)
(* graph, a function, a graph output, a value-info / quantization entry);  *)
(* every reachable state IS a proto, so TLC's breadth-first search is a    *)
(* complete generator of all protos within the bounds, without duplicates. *)
(* Payload tokens are implicit: the carrier at a given place holds the     *)
(* tokens named after that place (Explicit(p) spells them out).            *)
(*                                                                         *)
(* Mode = "valid":  only valid protos are explored (every valid proto can  *)
(*                  be grown through valid ones); checks C02 and C17 and   *)
(*                  emits (p, Norm(p)).                                    *)
(* Mode = "any":    anything goes (dangling, duplicated, empty names,      *)
(*                  outputs without producers, cycles, unsorted nodes,     *)
(*                  missing types); checks C17 (and C02 where Valid) and   *)
(*                  emits (p, outcome class, expected IR projection).      *)
(* Protos are emitted up to renaming of the names (first occurrences in    *)
(* reading order are a, b, c): Deser/Ser/Norm mention no name but "".      *)
(***************************************************************************)
EXTENDS Serde, Json

CONSTANTS Mode, MaxNodes, MaxGraphs, MaxDepth, MaxSlots, MaxIO, MaxNodeIO, MaxInits,
          Irvs, WithFunc, EmitOn, MaxAnn

NameSeq == <<"a", "b", "c">>
Names == RangeS(NameSeq)
IONames == IF Mode = "any" THEN Names \cup {""} ELSE Names
NodeNames == Names \cup {""}

VARIABLE p
vars == <<p>>

EmptyG(kind, par, pnode) ==
  [kind |-> kind, par |-> par, pnode |-> pnode, ins |-> <<>>, inits |-> <<>>, nodes |-> <<>>, outs |-> <<>>,
   vinfo |-> {}, quant |-> {}, untyped |-> {}, doconly |-> {}]

\* ---- implicit -> explicit ------------------------------------------------------------------------
GK(g) == "g" \o ToString(g)
VK(g, nm) == GK(g) \o ":" \o nm
IK(g, j) == GK(g) \o ".i" \o ToString(j)
NK(g, k) == GK(g) \o ".n" \o ToString(k)
Tok(key, kind) == key \o "." \o kind

\* doconly: an entry without a type that still carries a doc string and metadata (legal for the inputs and outputs
\* of a control-flow body, whose types the enclosing node implies)
InfoOf(pg, g, nm) ==
  IF nm \in pg.untyped THEN NoInfo
  ELSE IF nm \in pg.doconly THEN [NoInfo EXCEPT !.doc = B1(Tok(VK(g, nm), "doc")), !.meta = B1(Tok(VK(g, nm), "meta"))]
  ELSE [ty |-> B1(Tok(VK(g, nm), "ty")), sh |-> B1(Tok(VK(g, nm), "sh")),
        doc |-> B1(Tok(VK(g, nm), "doc")), meta |-> B1(Tok(VK(g, nm), "meta"))]
TensOf(g, j) == [key |-> IK(g, j), t |-> B1(Tok(IK(g, j), "t")), doc |-> B1(Tok(IK(g, j), "tdoc")), meta |-> B1(Tok(IK(g, j), "tmeta"))]

ExplicitG(q, g) ==
  LET pg == q.gs[g]
      isF == pg.kind = "func"
      ownVI == IF isF /\ q.irv < 10 THEN <<>> ELSE SetToSeq(pg.vinfo)
      fnVI == IF g = 1 /\ q.irv < 10
              THEN FlattenSeq([f \in 1..Len(q.gs) |->
                      IF q.gs[f].kind = "func"
                      THEN LET ns == SetToSeq(q.gs[f].vinfo) IN [x \in DOMAIN ns |-> [name |-> ns[x], info |-> InfoOf(q.gs[f], f, ns[x]), fn |-> f]]
                      ELSE <<>>])
              ELSE <<>>
      qs == SetToSeq(pg.quant)
  IN [ kind |-> pg.kind, par |-> pg.par, pnode |-> pg.pnode,
       pay |-> BOfSet({Tok(GK(g), "head"), Tok(GK(g), "doc"), Tok(GK(g), "meta")}
                      \cup (IF isF THEN {Tok(GK(g), "opset"), Tok(GK(g), "attrs")} ELSE {})),
       ins |-> [x \in DOMAIN pg.ins |-> [name |-> pg.ins[x], info |-> IF isF THEN NoInfo ELSE InfoOf(pg, g, pg.ins[x])]],
       inits |-> [x \in DOMAIN pg.inits |-> [name |-> pg.inits[x], tens |-> TensOf(g, x)]],
       nodes |-> [k \in DOMAIN pg.nodes |->
                    [ins |-> pg.nodes[k].ins, outs |-> pg.nodes[k].outs,
                     pay |-> [base |-> BOfSet({Tok(NK(g, k), "head"), Tok(NK(g, k), "doc"), Tok(NK(g, k), "meta"), Tok(NK(g, k), "attrs")}),
                              dev |-> IF q.dev THEN B1(Tok(NK(g, k), "dev")) ELSE EB]]],
       outs |-> [x \in DOMAIN pg.outs |-> [name |-> pg.outs[x], info |-> IF isF THEN NoInfo ELSE InfoOf(pg, g, pg.outs[x])]],
       vinfo |-> [x \in DOMAIN ownVI |-> [name |-> ownVI[x], info |-> InfoOf(pg, g, ownVI[x]), fn |-> 0]] \o fnVI,
       quant |-> [x \in DOMAIN qs |-> [name |-> qs[x], q |-> B1(Tok(VK(g, qs[x]), "q"))]] ]

Explicit(q) ==
  [ irv |-> q.irv,
    mpay |-> [base |-> BOfSet({"m.head", "m.doc", "m.meta", "m.opset"}), cfg |-> IF q.dev THEN B1("m.cfg") ELSE EB],
    gs |-> [g \in 1..Len(q.gs) |-> ExplicitG(q, g)] ]

\* ---- size ------------------------------------------------------------------------------------------
SumSeq(q) == FoldLeft(LAMBDA a, b : a + b, 0, q)
NodesIn(q) == SumSeq([g \in 1..Len(q.gs) |-> Len(q.gs[g].nodes)])
SlotsG(pg) == Len(pg.ins) + Len(pg.inits) + Len(pg.outs) + Cardinality(pg.vinfo) + Cardinality(pg.quant)
              + Cardinality(pg.untyped) + Cardinality(pg.doconly)
              + SumSeq([k \in DOMAIN pg.nodes |-> Len(pg.nodes[k].ins) + Len(pg.nodes[k].outs)])
Slots(q) == SumSeq([g \in 1..Len(q.gs) |-> SlotsG(q.gs[g])])
RECURSIVE DepthOf(_, _)
DepthOf(q, g) == IF q.gs[g].kind = "sub" THEN 1 + DepthOf(q, q.gs[g].par) ELSE 0
HasFunc(q) == \E g \in 1..Len(q.gs) : q.gs[g].kind = "func"

\* ---- names up to renaming: first occurrences in reading order are a, b, c ---------------------------
ReadG(pg) == pg.ins \o pg.inits \o FlattenSeq([k \in DOMAIN pg.nodes |-> pg.nodes[k].ins \o pg.nodes[k].outs]) \o pg.outs
             \o SetToSeq(pg.vinfo \ (RangeS(pg.ins) \cup RangeS(pg.inits) \cup RangeS(pg.outs) \cup NodeOutNames(pg) \cup NodeInNames(pg)))
             \o SetToSeq(pg.quant \ (pg.vinfo \cup RangeS(pg.ins) \cup RangeS(pg.inits) \cup RangeS(pg.outs) \cup NodeOutNames(pg) \cup NodeInNames(pg)))
Reading(q) == SelectSeq(FlattenSeq([g \in 1..Len(q.gs) |-> ReadG(q.gs[g])]), LAMBDA nm : nm # "")
FirstOcc(q) == LET r == Reading(q) IN SelectSeq([x \in DOMAIN r |-> x], LAMBDA x : \A y \in 1..(x-1) : r[y] # r[x])
Canonical(q) == LET r == Reading(q)
                    f == FirstOcc(q)
                IN \A i \in DOMAIN f : r[f[i]] = NameSeq[i]
\* SetToSeq orders a set arbitrarily: the untyped/vinfo/quant sets make the reading ambiguous only among
\* names that occur nowhere else, which is harmless (a few protos are emitted in two renamings)

\* ---- the generator --------------------------------------------------------------------------------
\* device configurations exist from IR version 11; in the "any" mode they are present regardless
\* WithFunc: "no" | "yes" (a function may be added) | "only" (a function exists and only it is grown)
Init == /\ p \in [irv : Irvs, dev : BOOLEAN,
                  gs : {IF WithFunc = "only" THEN <<EmptyG("main", 0, 0), EmptyG("func", 0, 0)>> ELSE <<EmptyG("main", 0, 0)>>}]
        /\ p.dev = (Mode = "any" \/ p.irv >= 11)

Gs == IF WithFunc = "only" THEN 2..Len(p.gs) ELSE 1..Len(p.gs)
\* a new name may be introduced only after the names before it (renaming symmetry, coarse part)
UsedNames == RangeS(Reading(p))
Fresh(nm) == nm = "" \/ nm \in UsedNames \/ \A i \in DOMAIN NameSeq : NameSeq[i] = nm => \A j \in 1..(i-1) : NameSeq[j] \in UsedNames
Room == Slots(p) < MaxSlots
Upd(g, f, val) == p' = [p EXCEPT !.gs[g][f] = val]

BAddIn(g, nm)   == Room /\ Len(p.gs[g].ins) < MaxIO /\ Upd(g, "ins", Append(p.gs[g].ins, nm))
BAddInit(g, nm) == Room /\ p.gs[g].kind # "func" /\ Len(p.gs[g].inits) < MaxInits /\ Upd(g, "inits", Append(p.gs[g].inits, nm))
BAddOut(g, nm)  == Room /\ Len(p.gs[g].outs) < MaxIO /\ Upd(g, "outs", Append(p.gs[g].outs, nm))
BAddNode(g)     == NodesIn(p) < MaxNodes /\ Upd(g, "nodes", Append(p.gs[g].nodes, [ins |-> <<>>, outs |-> <<>>]))
BAddNIn(g, k, nm)  == Room /\ Len(p.gs[g].nodes[k].ins) < MaxNodeIO
                     /\ p' = [p EXCEPT !.gs[g].nodes[k].ins = Append(@, nm)]
BAddNOut(g, k, nm) == Room /\ Len(p.gs[g].nodes[k].outs) < MaxNodeIO
                     /\ p' = [p EXCEPT !.gs[g].nodes[k].outs = Append(@, nm)]
AnnRoom(g) == Cardinality(p.gs[g].vinfo) + Cardinality(p.gs[g].quant) + Cardinality(p.gs[g].untyped)
              + Cardinality(p.gs[g].doconly) < MaxAnn
BAddVI(g, nm)   == Room /\ AnnRoom(g) /\ nm \notin p.gs[g].vinfo /\ Upd(g, "vinfo", p.gs[g].vinfo \cup {nm})
BAddQ(g, nm)    == Room /\ AnnRoom(g) /\ p.gs[g].kind # "func" /\ nm \notin p.gs[g].quant /\ Upd(g, "quant", p.gs[g].quant \cup {nm})
BAddUntyped(g, nm) == Mode = "any" /\ Room /\ AnnRoom(g) /\ nm \notin p.gs[g].untyped \cup p.gs[g].doconly
                     /\ nm \in RangeS(p.gs[g].ins) \cup RangeS(p.gs[g].outs) \cup p.gs[g].vinfo
                     /\ Upd(g, "untyped", p.gs[g].untyped \cup {nm})
BAddDocOnly(g, nm) == Room /\ AnnRoom(g) /\ p.gs[g].kind = "sub" /\ nm \notin p.gs[g].doconly \cup p.gs[g].untyped
                     /\ nm \in RangeS(p.gs[g].ins) \cup RangeS(p.gs[g].outs)
                     /\ (Mode = "any" \/ nm \notin RangeS(p.gs[g].inits))
                     /\ Upd(g, "doconly", p.gs[g].doconly \cup {nm})
\* graphs are numbered in non-decreasing (parent, node) order: one flat numbering per tree
BAddSub(g, k)   == /\ Len(p.gs) < MaxGraphs /\ DepthOf(p, g) < MaxDepth /\ (WithFunc = "only" \/ ~HasFunc(p))
                  /\ LET last == p.gs[Len(p.gs)] IN
                     (last.kind # "sub" \/ last.par < g \/ (last.par = g /\ last.pnode <= k))
                  /\ p' = [p EXCEPT !.gs = Append(@, EmptyG("sub", g, k))]
BAddFunc        == WithFunc = "yes" /\ Len(p.gs) < MaxGraphs /\ ~HasFunc(p)
                  /\ p' = [p EXCEPT !.gs = Append(@, EmptyG("func", 0, 0))]

Next ==
  \/ \E g \in Gs :
       \/ \E nm \in {x \in IONames : Fresh(x)} : BAddIn(g, nm) \/ BAddOut(g, nm) \/ BAddInit(g, nm)
       \/ BAddNode(g)
       \/ \E k \in DOMAIN p.gs[g].nodes :
            \/ \E nm \in {x \in NodeNames : Fresh(x)} : BAddNIn(g, k, nm) \/ BAddNOut(g, k, nm)
            \/ BAddSub(g, k)
       \/ \E nm \in {x \in Names : Fresh(x)} : BAddVI(g, nm) \/ BAddQ(g, nm) \/ BAddUntyped(g, nm) \/ BAddDocOnly(g, nm)
  \/ BAddFunc

Spec == Init /\ [][Next]_vars

\* in the valid mode every explored proto is valid
Bound == Mode = "valid" => Valid(Explicit(p))

\* ---- emission ----------------------------------------------------------------------------------------
FlatBag(b) == FlattenSeq([x \in DOMAIN SetToSeq(DOMAIN b) |-> [y \in 1..b[SetToSeq(DOMAIN b)[x]] |-> SetToSeq(DOMAIN b)[x]]])
FlatInfo(i) == FlatBag(i.ty) \o FlatBag(i.sh) \o FlatBag(i.doc) \o FlatBag(i.meta)
FlatTens(t) == FlatBag(t.t) \o FlatBag(t.doc) \o FlatBag(t.meta)
CompactG(eg) ==
  [ kind |-> eg.kind, par |-> eg.par, pnode |-> eg.pnode, pay |-> FlatBag(eg.pay),
    ins |-> [x \in DOMAIN eg.ins |-> <<eg.ins[x].name, FlatInfo(eg.ins[x].info)>>],
    inits |-> [x \in DOMAIN eg.inits |-> <<eg.inits[x].name, FlatTens(eg.inits[x].tens)>>],
    nodes |-> [k \in DOMAIN eg.nodes |-> <<eg.nodes[k].ins, eg.nodes[k].outs, FlatBag(eg.nodes[k].pay.base) \o FlatBag(eg.nodes[k].pay.dev)>>],
    outs |-> [x \in DOMAIN eg.outs |-> <<eg.outs[x].name, FlatInfo(eg.outs[x].info)>>],
    vinfo |-> [x \in DOMAIN eg.vinfo |-> <<eg.vinfo[x].name, FlatInfo(eg.vinfo[x].info), eg.vinfo[x].fn>>],
    quant |-> [x \in DOMAIN eg.quant |-> <<eg.quant[x].name, FlatBag(eg.quant[x].q)>>] ]
Compact(e) == [irv |-> e.irv, mpay |-> FlatBag(e.mpay.base) \o FlatBag(e.mpay.cfg), gs |-> [g \in DOMAIN e.gs |-> CompactG(e.gs[g])]]

ObsX(s) == [o |-> Obs(s), nSubs |-> s.nSubs, vConst |-> s.vConst,
            vHasInfo |-> [v \in DOMAIN s.vInfo |-> HasInfo(s.vInfo[v])]]

\* ---- the formulas and the emitted record, evaluated once per (canonical) proto -------------------------
Rec(e, d, v) ==
  [ p |-> p, e |-> IF Mode = "valid" THEN Compact(e) ELSE <<>>, valid |-> v, strict |-> v /\ Strict(e),
    cls |-> IF d.err = "" THEN "ir" ELSE "error", err |-> d.err,
    norm |-> IF v /\ Mode = "valid" THEN Compact(Norm(e)) ELSE <<>>,
    obs |-> IF d.err = "" /\ Mode = "any" THEN ObsX(d.s) ELSE <<>> ]

\* one evaluation per proto: the record carries both verdicts, the invariant is their conjunction
\* (TLC evaluates invariants also on successors that the CONSTRAINT discards: those are skipped here)
Holds == IF ~Canonical(p) THEN TRUE
         ELSE LET e == Explicit(p)
                  v == Valid(e)
              IN IF Mode = "valid" /\ ~v THEN TRUE ELSE
              LET d == Deser(e)
                  c02 == C02With(e, d)
                  c17 == C17With(d)
              \* emitting: the verdicts travel in the record and the search goes on (every counterexample of
              \* the model is then tried on the code); not emitting: a plain invariant
              IN IF EmitOn THEN PrintT(ToJson([c02 |-> c02, c17 |-> c17] @@ Rec(e, d, v)))
                 ELSE c02 /\ c17
=============================================================================
