CONSTANTS
  MaxInits = 3
SPECIFICATION CSpec
INVARIANT Unchanged
INVARIANT NoLoss
CHECK_DEADLOCK FALSE
