----------------------------- MODULE ExtractMC -----------------------------
(***************************************************************************)
(* Complete enumeration of Extract instances and cuts up to a bound.       *)
(*                                                                         *)
(* Init enumerates the SHAPES (number of nodes, their graphs, the owner of *)
(* every nested body, output counts, leaf kinds; one representative per    *)
(* isomorphism class: node ids = recursive iteration order, graph ids =    *)
(* order of first appearance); Choose picks the inputs of node 1, 2, ...   *)
(* among the values visible to it (sorted models); Extract then picks a    *)
(* graph-like kind, a set of boundary inputs and a non-empty set of        *)
(* outputs among the root values and runs the TRANSCRIBED algorithm; the   *)
(* theorems of Extract.tla are invariants of the resulting states (aux =   *)
(* the instance tables, exp = the declarative outcome, res = the code's).  *)
(* EmitInstance prints, once per completed instance, the instance, the     *)
(* captures of every nested graph, the source denotation of every root     *)
(* value and the DECLARATIVE expected outcome of every cut as one JSON     *)
(* line; the harness rebuilds the instance with real onnx_ir objects.      *)
(***************************************************************************)
EXTENDS Extract, Json

CONSTANTS MinN, MaxN,      \* number of nodes
          MinG, MaxG,      \* number of graphs (root + nested bodies)
          MaxDepth,        \* nesting depth of a body (1 = bodies of root nodes only)
          MinDepth,        \* at least one body is nested this deep (0 = no requirement)
          MaxIn,           \* inputs per node
          MaxOut,          \* outputs per node
          MaxExtraOut,     \* total number of second outputs in an instance
          AllowNone,       \* a node may have an omitted (None) first input
          LeafChoices,     \* set of leaf-kind sequences of the root graph
          Kinds,           \* graph-like kinds given to the algorithm: "graph" (= view), "function"
          MaxOutsCard,     \* size of the output set of a cut
          Growing,         \* TRUE: enumerate only shapes whose graphs are numbered in order of first appearance
                           \* (one representative per renumbering; makes deep nestings affordable)
          EmitOn

VARIABLES inst, k, aux, cut, exp, res
vars == <<inst, k, aux, cut, exp, res>>

LeafQuick    == {<<"in", "init">>}
LeafBoth     == {<<"in", "init">>, <<"in", "both">>}
LeafExtra    == {<<"in", "in", "init">>, <<"in", "both">>}

NoCut == [kind |-> "none", ins |-> {}, outs |-> {}]
NoAux == [dep |-> <<>>, ext |-> <<>>, init |-> {}, den |-> <<>>]
NoExp == [need |-> {}, inits |-> {}, frontier |-> {}]
NoRes == [find |-> [ok |-> FALSE, nodes |-> <<>>, inits |-> {}], clone |-> NoClone]

\* ---- shapes
RECURSIVE PreNodes(_, _)
RECURSIVE PreSubs(_, _)
PreNodes(I, ns) == IF ns = <<>> THEN <<>>
                   ELSE <<Head(ns)>> \o PreSubs(I, SubSeqOf(I, Head(ns))) \o PreNodes(I, Tail(ns))
PreSubs(I, gs) == IF gs = <<>> THEN <<>> ELSE PreNodes(I, NodeSeq(I, Head(gs))) \o PreSubs(I, Tail(gs))
RECURSIVE SumExtra(_, _)
SumExtra(I, n) == IF n = 0 THEN 0 ELSE (I.nout[n] - 1) + SumExtra(I, n - 1)

ShapeOK(I) ==
  LET n == Len(I.gOf)
      ng == Len(I.owner)
  IN /\ I.owner[Root] = 0
     /\ \A g \in 2..ng : I.owner[g] >= 1 /\ I.gOf[I.owner[g]] < g
     /\ \A g \in 2..ng : NodesOf(I, g) # {}
     /\ \A g \in 2..(ng - 1) : I.owner[g] <= I.owner[g + 1]
     /\ \A g \in 2..ng : Cardinality(Anc(I, g)) <= MaxDepth
     /\ (MinDepth > 0 => \E g \in 2..ng : Cardinality(Anc(I, g)) >= MinDepth)
     /\ PreNodes(I, NodeSeq(I, Root)) = [i \in 1..n |-> i]
     /\ SumExtra(I, n) <= MaxExtraOut

MaxUpTo(f, i) == CHOOSE m \in {f[j] : j \in 1..i} : \A j \in 1..i : f[j] <= m
GOfCands(n, ng) ==
  IF Growing THEN {f \in [1..n -> 1..ng] : f[1] = 1 /\ \A i \in 1..(n - 1) : f[i + 1] <= MaxUpTo(f, i) + 1}
  ELSE [1..n -> 1..ng]
OwnerCands(n, ng) ==
  IF Growing THEN {o \in [1..ng -> 0..n] : o[1] = 0 /\ \A g \in 2..ng : o[g] >= 1 /\ (g < ng => o[g] <= o[g + 1])}
  ELSE [1..ng -> 0..n]
ShapesN(n, ng) ==
  {I \in {[gOf |-> gOf, owner |-> owner, nout |-> nout, ins |-> [i \in 1..n |-> <<>>], leaf |-> l] :
            gOf \in GOfCands(n, ng), owner \in OwnerCands(n, ng), nout \in [1..n -> 1..MaxOut], l \in LeafChoices}
     : ShapeOK(I)}
Shapes == UNION {ShapesN(n, ng) : n \in MinN..MaxN, ng \in MinG..MaxG}

InSeqs(I, n) ==
  {XSorted(S) : S \in {S \in SUBSET (Visible(I, n) \cup (IF AllowNone THEN {None} ELSE {})) : Cardinality(S) <= MaxIn}}

\* ---- behaviour
Init == /\ inst \in Shapes
        /\ k = 0
        /\ aux = NoAux
        /\ cut = NoCut
        /\ exp = NoExp
        /\ res = NoRes

Choose == /\ cut.kind = "none"
          /\ k < Len(inst.gOf)
          /\ \E s \in InSeqs(inst, k + 1) : inst' = [inst EXCEPT !.ins[k + 1] = s]
          /\ k' = k + 1
          /\ aux' = IF k' = Len(inst.gOf) THEN Tables(inst') ELSE NoAux       \* instance complete: derive its tables
          /\ UNCHANGED <<cut, exp, res>>

OutSets(I) == {S \in SUBSET RootVals(I) : S # {} /\ Cardinality(S) <= MaxOutsCard}

Extract == /\ cut.kind = "none"
           /\ k = Len(inst.gOf)
           /\ \E kind \in Kinds : \E ins \in SUBSET RootVals(inst) : \E outs \in OutSets(inst) :
                /\ cut' = [kind |-> kind, ins |-> ins, outs |-> outs]
                /\ exp' = Decl(aux, ins, outs)                                           \* the definition
                /\ res' = AlgExtract(inst, aux, kind, XSorted(ins), XSorted(outs), TRUE)   \* the code
           /\ UNCHANGED <<inst, k, aux>>

Next == Choose \/ Extract
Spec == Init /\ [][Next]_vars

Complete == k = Len(inst.gOf) /\ cut.kind = "none"
HasCut   == cut.kind # "none"

\* ---- emission (one line per completed instance)
ExpC(T, ins, outs) == LET E == Expected(T, ins, outs) IN <<IF E.raise THEN 1 ELSE 0, E.nodes, E.inits, E.frontier>>
EmitInstance ==
  (Complete /\ EmitOn) =>
    PrintT(ToJson([g |-> inst.gOf, o |-> inst.owner, n |-> inst.nout, i |-> inst.ins, l |-> inst.leaf,
                   caps |-> [g \in Nested(inst) |-> Captures(inst, g)],
                   den |-> aux.den,
                   cuts |-> {<<ins, outs, ExpC(aux, ins, outs)>> :
                               ins \in SUBSET RootVals(inst), outs \in OutSets(inst)}]))

\* ---- theorems
InvWellFormed   == WellFormed(inst)
InvCaptures     == Complete => CapturesExact(inst) /\ ImplicitRootClean(inst)
InvTables       == Complete => aux = Tables(inst)
InvNeedLeast    == HasCut => NeedLeast(inst, aux, cut.ins, cut.outs, exp)
InvNeedUnion    == HasCut => NeedUnion(aux, cut.ins, cut.outs, exp)
InvDenRestrict  == HasCut => DenRestrict(inst, cut.ins, cut.outs, exp)
InvAlgExact     == HasCut => AlgExact(aux, cut.kind, cut.ins, exp, res.clone)
InvAlgRaises    == HasCut => AlgRaisesIffFrontier(exp, res.clone)
InvAlgDenEq     == HasCut => AlgDenEq(inst, aux, XSorted(cut.outs), res.clone)
InvAlgClosed    == HasCut => AlgClosed(inst, cut.ins, res.clone)
\* the iteration order of the Python sets does not matter
InvWalkOrder    == HasCut => Find(inst, aux, cut.kind, XSorted(cut.ins), XSorted(cut.outs), FALSE) = res.find
\* the strong reading; NOT an invariant when a node has two outputs (ExtractMC_free.cfg shows the counterexample)
InvAlgDenEqFree == HasCut => AlgDenEqFree(inst, cut.ins, XSorted(cut.outs), res.clone)
=============================================================================
