------------------------------- MODULE Rewrite -------------------------------
(***************************************************************************)
(* Abstract dataflow programs and their Herbrand denotation (C05, C14).    *)
(*                                                                         *)
(* A program P is                                                          *)
(*   [ nin   number of non-initializer inputs of the main graph            *)
(*     g     sequence of graphs, g[1] = main graph; a graph is             *)
(*             [ nodes, outs, inits ] with                                 *)
(*             nodes : sequence of [op, attr, ins, nout, subs, fn]         *)
(*             outs  : sequence of references                              *)
(*             inits : sequence of constant tokens (its initializers)      *)
(*     f     sequence of model-local functions [body (graph id), nin] ]    *)
(* A reference is <<kind, g, i, o>>:                                       *)
(*   <<"in", g, k, 0>>   k-th input of graph g (main input or formal)      *)
(*   <<"init", g, k, 0>> k-th initializer of graph g                       *)
(*   <<"out", g, i, o>>  o-th output of the i-th node of graph g           *)
(*   <<"none", 0, 0, 0>> omitted optional input                            *)
(* References are global (graph id, position), so a node of a nested body  *)
(* that uses a value of an enclosing graph simply refers to it (capture).  *)
(*                                                                         *)
(* Den(P) maps every output position of the main graph to a Herbrand term: *)
(* Identity is transparent, a Constant node and an initializer holding the *)
(* same constant denote the same constant, a call denotes its body with    *)
(* the actual arguments (and the attribute parameter) substituted, If      *)
(* denotes ite(cond, then-term, else-term).  Equal terms imply equal       *)
(* computed outputs for all inputs and ALL interpretations of the operator *)
(* symbols - strictly stronger than any concrete test.                     *)
(***************************************************************************)
EXTENDS Integers, Sequences, FiniteSets, TLC, SequencesExt

NoRef == <<"none", 0, 0, 0>>
NoEnv == [args |-> <<>>, p |-> <<>>, fbody |-> 0]

\* Attributes are sequences of <<name, value>> string pairs (sorted by name, schema defaults removed by
\* the abstraction).  Inside a function body a value "@param" refers to the attribute `param` of the
\* call: it is replaced by the call's value, or the attribute is dropped when the call omits it.
IsRefAttr(v) == Len(v) > 0 /\ SubSeq(v, 1, 1) = "@"
ParamOf(v) == SubSeq(v, 2, Len(v))
AttrTok(a, env) ==
  LET look(param) == SelectSeq(env.p, LAMBDA q : q[1] = param)
      one(pair) == IF IsRefAttr(pair[2])
                   THEN (IF look(ParamOf(pair[2])) = <<>> THEN <<>> ELSE <<<<pair[1], look(ParamOf(pair[2]))[1][2]>>>>)
                   ELSE <<pair>>
  IN FoldLeft(LAMBDA acc, pair : acc \o one(pair), <<>>, a)

RECURSIVE Term(_, _, _, _)
\* term denoted by reference r of program P under function environment env; fuel bounds unfolding
Term(P, r, env, fuel) ==
  IF fuel = 0 THEN <<"deep">>
  ELSE
  CASE r[1] = "none" -> <<"none">>
    [] r[1] = "in"   -> IF env.fbody # 0 /\ r[2] = env.fbody THEN env.args[r[3]] ELSE <<"in", r[3]>>
    [] r[1] = "init" -> <<"const", P.g[r[2]].inits[r[3]]>>
    [] r[1] = "out"  ->
         LET n == P.g[r[2]].nodes[r[3]] IN
         CASE n.op = "Identity" /\ Len(n.ins) = 1 -> Term(P, n.ins[1], env, fuel - 1)
           [] n.op = "Constant" -> <<"const", n.attr[1][2]>>
           [] n.op = "If" ->
                <<"ite", Term(P, n.ins[1], env, fuel - 1),
                         Term(P, P.g[n.subs[1]].outs[r[4]], env, fuel - 1),
                         Term(P, P.g[n.subs[2]].outs[r[4]], env, fuel - 1)>>
           [] n.fn # 0 ->
                LET fb == P.f[n.fn].body
                    e2 == [args |-> [k \in DOMAIN n.ins |-> Term(P, n.ins[k], env, fuel - 1)],
                           p |-> AttrTok(n.attr, env), fbody |-> fb]
                IN Term(P, P.g[fb].outs[r[4]], e2, fuel - 1)
           [] OTHER ->
                <<n.op, AttrTok(n.attr, env), [k \in DOMAIN n.ins |-> Term(P, n.ins[k], env, fuel - 1)], r[4]>>

Fuel == 12
Den(P) == [o \in DOMAIN P.g[1].outs |-> Term(P, P.g[1].outs[o], NoEnv, Fuel)]

\* what C05 demands of (before, after): same number and order of outputs, same non-initializer
\* inputs, equal denotation position by position
SameInterface(P, Q) == P.nin = Q.nin /\ Len(P.g[1].outs) = Len(Q.g[1].outs)
Equiv(P, Q) == SameInterface(P, Q) /\ Den(P) = Den(Q)

\* ---- well-formedness of a program (what the generator produces; also evaluated on observed ones) ----
RefOK(P, gid, pos, r) ==   \* a reference used by node `pos` of graph gid (pos = Len+1 for graph outputs)
  CASE r[1] = "none" -> TRUE
    [] r[1] = "in"   -> r[2] \in DOMAIN P.g
    [] r[1] = "init" -> r[2] \in DOMAIN P.g /\ r[3] \in DOMAIN P.g[r[2]].inits
    [] r[1] = "out"  -> /\ r[2] \in DOMAIN P.g
                        /\ r[3] \in DOMAIN P.g[r[2]].nodes
                        /\ r[4] \in 1..P.g[r[2]].nodes[r[3]].nout
                        /\ (r[2] = gid => r[3] < pos)          \* topological order inside a graph
    [] OTHER -> FALSE
WellFormed(P) ==
  \A gid \in DOMAIN P.g :
     /\ \A i \in DOMAIN P.g[gid].nodes : \A k \in DOMAIN P.g[gid].nodes[i].ins : RefOK(P, gid, i, P.g[gid].nodes[i].ins[k])
     /\ \A o \in DOMAIN P.g[gid].outs : RefOK(P, gid, Len(P.g[gid].nodes) + 1, P.g[gid].outs[o])
=============================================================================
