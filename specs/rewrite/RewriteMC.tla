------------------------------ MODULE RewriteMC ------------------------------
(***************************************************************************)
(* Complete generator of small abstract programs (the corpus of C05/C14):  *)
(* TLC's reachable "done" states are exactly the well-formed programs with *)
(* at most MaxNodes main-graph nodes over the operator catalogue below     *)
(* (unary / binary / multi-output operators, Identity, Constant, If with   *)
(* bodies capturing outer values, calls of model-local functions with and  *)
(* without an attribute parameter, duplicate initializers, outputs         *)
(* aliasing inputs or initializers, duplicate outputs).                    *)
(* Checked on every generated program: WellFormed, and Den is defined      *)
(* (no "deep" marker) - i.e. the denotation semantics is total on the      *)
(* corpus.                                                                 *)
(***************************************************************************)
EXTENDS Rewrite, Json

CONSTANTS MaxNodes, Ops, MaxOuts, EmitOn,
          SampleMod, SampleRes   \* emit only programs whose structural checksum is SampleRes modulo SampleMod (1, 0 = all)

VARIABLES p, phase
vars == <<p, phase>>

R(kind, g, i, o) == <<kind, g, i, o>>
Nd(op, attr, ins, nout, subs, fn) == [op |-> op, attr |-> attr, ins |-> ins, nout |-> nout, subs |-> subs, fn |-> fn]
Gr(nodes, outs, inits) == [nodes |-> nodes, outs |-> outs, inits |-> inits]

\* function bodies (graphs 2, 3, 4):  F1(x) = Neg(x) ; F2(x, y) = Add(Sub(x, y), x) ; F3(x){p} = Elu[alpha=@p](x)
F1Body == Gr(<<Nd("Neg", <<>>, <<R("in", 2, 1, 0)>>, 1, <<>>, 0)>>, <<R("out", 2, 1, 1)>>, <<>>)
F2Body == Gr(<<Nd("Sub", <<>>, <<R("in", 3, 1, 0), R("in", 3, 2, 0)>>, 1, <<>>, 0),
               Nd("Add", <<>>, <<R("out", 3, 1, 1), R("in", 3, 1, 0)>>, 1, <<>>, 0)>>, <<R("out", 3, 2, 1)>>, <<>>)
F3Body == Gr(<<Nd("Elu", <<<<"alpha", "@p">>>>, <<R("in", 4, 1, 0)>>, 1, <<>>, 0)>>, <<R("out", 4, 1, 1)>>, <<>>)
\* F4(x) = ai.onnx.ml::Binarizer(x): a body that needs an operator set the main graph does not import
\* F5: a function calling another function (present in every model, called or not) - defined below
F4Body == Gr(<<Nd("ai.onnx.ml::Binarizer", <<>>, <<R("in", 5, 1, 0)>>, 1, <<>>, 0)>>, <<R("out", 5, 1, 1)>>, <<>>)
\* F6(x) = (Neg(x), Add(Neg(x), x)): two outputs, the first one also used inside the body; a call may omit
\* (leave unnamed) one of the outputs - recorded on the call as the pseudo attribute __omit
F6Body == Gr(<<Nd("Neg", <<>>, <<R("in", 7, 1, 0)>>, 1, <<>>, 0),
               Nd("Add", <<>>, <<R("out", 7, 1, 1), R("in", 7, 1, 0)>>, 1, <<>>, 0)>>,
             <<R("out", 7, 1, 1), R("out", 7, 2, 1)>>, <<>>)
\* F5(x) = Sub(F2(F2(x, x), x), x): a function calling another function TWICE (with F2's internal value that makes
\*         several instantiations of one body with an internal value per inlining of F5)
F5Body == Gr(<<Nd("F2", <<>>, <<R("in", 6, 1, 0), R("in", 6, 1, 0)>>, 1, <<>>, 2),
               Nd("F2", <<>>, <<R("out", 6, 1, 1), R("in", 6, 1, 0)>>, 1, <<>>, 2),
               Nd("Sub", <<>>, <<R("out", 6, 2, 1), R("in", 6, 1, 0)>>, 1, <<>>, 0)>>, <<R("out", 6, 3, 1)>>, <<>>)
\* F7(x, c) = If(c) { F1(x) } { Neg(x) }: a function whose body calls another function only from inside a
\*            control-flow body (graphs 9 and 10 are the bodies; they capture the formal input x of graph 8)
F7Body == Gr(<<Nd("If", <<>>, <<R("in", 8, 2, 0)>>, 1, <<9, 10>>, 0)>>, <<R("out", 8, 1, 1)>>, <<>>)
F7Then == Gr(<<Nd("F1", <<>>, <<R("in", 8, 1, 0)>>, 1, <<>>, 1)>>, <<R("out", 9, 1, 1)>>, <<>>)
F7Else == Gr(<<Nd("Neg", <<>>, <<R("in", 8, 1, 0)>>, 1, <<>>, 0)>>, <<R("out", 10, 1, 1)>>, <<>>)

Init ==
  /\ p = [nin |-> 3,
          g |-> <<Gr(<<>>, <<>>, <<"c1", "c1", "s1", "b1">>), F1Body, F2Body, F3Body, F4Body, F5Body, F6Body, F7Body, F7Then, F7Else>>,
          f |-> <<[body |-> 2, nin |-> 1], [body |-> 3, nin |-> 2], [body |-> 4, nin |-> 1],
                  [body |-> 5, nin |-> 1], [body |-> 6, nin |-> 1], [body |-> 7, nin |-> 1], [body |-> 8, nin |-> 2]>>]
  /\ phase = "build"

Main == p.g[1]
AllNodeOuts == UNION {{R("out", 1, i, o) : o \in 1..Main.nodes[i].nout} : i \in DOMAIN Main.nodes}
\* typing: everything is a float tensor except the mask of Dropout (bool; never referenced) and the
\* integer constants k1, k2 (same bytes and shape, different element types), which only Cast and graph
\* outputs accept
TypedTok == {"k1", "k2"}
IsMask(r) == Main.nodes[r[3]].op = "Dropout" /\ r[4] = 2
IsTyped(r) == Main.nodes[r[3]].op = "Constant" /\ Main.nodes[r[3]].attr[1][2] \in TypedTok
TypedOuts == {r \in AllNodeOuts : IsTyped(r)}
IsOmitted(r) == \E k \in DOMAIN Main.nodes[r[3]].attr :
                   Main.nodes[r[3]].attr[k] = <<"__omit", IF r[4] = 1 THEN "1" ELSE "2">>
NodeOuts == {r \in AllNodeOuts : ~IsMask(r) /\ ~IsTyped(r) /\ ~IsOmitted(r)}
Avail == {R("in", 1, 1, 0), R("in", 1, 2, 0), R("init", 1, 1, 0), R("init", 1, 2, 0)} \cup NodeOuts
\* second operands: a small representative subset
Second == {R("in", 1, 1, 0), R("init", 1, 2, 0)} \cup {r \in NodeOuts : r[3] = Len(Main.nodes)}
Chan == R("init", 1, 4, 0)        \* per-channel parameter (rank 1): scale / bias / mean / variance of the normalisation operators
\* the running statistics BatchNormalization returns are rank 1: usable everywhere (broadcast) except as the
\* value a control-flow body passes through (both bodies of an If must agree on the rank)
IsStat(r) == r[1] = "out" /\ Main.nodes[r[3]].op = "BatchNormalization" /\ r[4] > 1
Cond == R("in", 1, 3, 0)      \* the boolean input, used by If only

AddNode(n) == p' = [p EXCEPT !.g[1].nodes = Append(@, n)]
\* an If node whose two bodies become new graphs at the end of p.g
\* `two`: the then-body gets a second node using the first one (a body whose node order matters)
\* `own`: both bodies hold an initializer of their own (c1 / c2) and pass it through (siblings may repeat a name)
AddIf(thenNode, elseNode, two, own) ==
  LET k == Len(p.g)
      thenG == IF own THEN Gr(<<Nd("Identity", <<>>, <<R("init", k + 1, 1, 0)>>, 1, <<>>, 0)>>, <<R("out", k + 1, 1, 1)>>, <<"c1">>)
               ELSE IF two THEN Gr(<<thenNode, Nd("Neg", <<>>, <<R("out", k + 1, 1, 1)>>, 1, <<>>, 0)>>, <<R("out", k + 1, 2, 1)>>, <<>>)
               ELSE Gr(<<thenNode>>, <<R("out", k + 1, 1, 1)>>, <<>>)
      elseG == IF own THEN Gr(<<Nd("Identity", <<>>, <<R("init", k + 2, 1, 0)>>, 1, <<>>, 0)>>, <<R("out", k + 2, 1, 1)>>, <<"c2">>)
               ELSE Gr(<<elseNode>>, <<R("out", k + 2, 1, 1)>>, <<>>)
  IN
  p' = [p EXCEPT !.g = Append(Append([@ EXCEPT ![1].nodes = Append(@, Nd("If", <<>>, <<Cond>>, 1, <<k + 1, k + 2>>, 0))],
                                     thenG),
                              elseG)]

Build ==
  /\ phase = "build"
  /\ Len(Main.nodes) < MaxNodes
  /\ \/ \E x \in Avail : "Neg" \in Ops /\ AddNode(Nd("Neg", <<>>, <<x>>, 1, <<>>, 0))
     \/ \E x \in Avail : "Identity" \in Ops /\ AddNode(Nd("Identity", <<>>, <<x>>, 1, <<>>, 0))
     \/ \E x \in Avail, y \in Second : "Add" \in Ops /\ AddNode(Nd("Add", <<>>, <<x, y>>, 1, <<>>, 0))
     \/ \E x \in Avail, y \in Second : "Sub" \in Ops /\ AddNode(Nd("Sub", <<>>, <<x, y>>, 1, <<>>, 0))
     \/ \E c \in {"c1", "c2"} : "Constant" \in Ops /\ AddNode(Nd("Constant", <<<<"const", c>>>>, <<>>, 1, <<>>, 0))
     \/ \E c \in TypedTok : "TypedConst" \in Ops /\ AddNode(Nd("Constant", <<<<"const", c>>>>, <<>>, 1, <<>>, 0))
     \/ \E x \in TypedOuts : "TypedConst" \in Ops /\ AddNode(Nd("Cast", <<<<"to", "1">>>>, <<x>>, 1, <<>>, 0))
     \/ \E x \in Avail : "Split" \in Ops /\ AddNode(Nd("Split", <<<<"axis", "-1">>>>, <<x>>, 2, <<>>, 0))
     \* operators with optional outputs: used or not by what follows
     \/ \E x \in Avail : "Dropout" \in Ops /\ AddNode(Nd("Dropout", <<>>, <<x>>, 2, <<>>, 0))
     \/ \E x \in Avail : "LayerNorm" \in Ops
           /\ AddNode(Nd("LayerNormalization", <<>>, <<x, Chan>>, 3, <<>>, 0))
     \/ \E x \in {R("in", 1, 1, 0), R("in", 1, 2, 0)}, training \in BOOLEAN : "BatchNorm" \in Ops
           /\ AddNode(Nd("BatchNormalization", IF training THEN <<<<"training_mode", "1">>>> ELSE <<>>,
                         <<x, Chan, Chan, Chan, Chan>>, IF training THEN 3 ELSE 1, <<>>, 0))
     \/ \E x \in Avail : "Clip" \in Ops /\ AddNode(Nd("Clip", <<>>, <<x, NoRef, R("init", 1, 3, 0)>>, 1, <<>>, 0))
     \/ \E x \in {r \in Avail : ~IsStat(r)}, y \in Second, tb \in {"Neg", "Identity", "Neg2"}, eb \in {"Add", "Constant"} :
           /\ "If" \in Ops
           /\ AddIf(Nd(IF tb = "Neg2" THEN "Neg" ELSE tb, <<>>, <<x>>, 1, <<>>, 0),
                    IF eb = "Add" THEN Nd("Add", <<>>, <<x, y>>, 1, <<>>, 0) ELSE Nd("Constant", <<<<"const", "c1">>>>, <<>>, 1, <<>>, 0),
                    tb = "Neg2", FALSE)
     \/ /\ "If" \in Ops
        /\ AddIf(Nd("Identity", <<>>, <<>>, 1, <<>>, 0), Nd("Identity", <<>>, <<>>, 1, <<>>, 0), FALSE, TRUE)
     \/ \E x \in Avail : "Call" \in Ops /\ AddNode(Nd("F1", <<>>, <<x>>, 1, <<>>, 1))
     \/ \E x \in Avail, y \in Second : "Call" \in Ops /\ AddNode(Nd("F2", <<>>, <<x, y>>, 1, <<>>, 2))
     \/ \E x \in Avail, a \in {<<>>, <<<<"p", "2.0">>>>} : "Call" \in Ops /\ AddNode(Nd("F3", a, <<x>>, 1, <<>>, 3))
     \/ \E x \in Avail : "Call2" \in Ops /\ AddNode(Nd("F4", <<>>, <<x>>, 1, <<>>, 4))
     \/ \E x \in Avail : "Call2" \in Ops /\ AddNode(Nd("F5", <<>>, <<x>>, 1, <<>>, 5))
     \/ \E x \in Avail, om \in {<<>>, <<<<"__omit", "1">>>>} :   \* (a trailing omitted output is trimmed by serialization itself)
           "Call2" \in Ops /\ AddNode(Nd("F6", om, <<x>>, 2, <<>>, 6))
     \/ \E x \in Avail : "Call2" \in Ops /\ AddNode(Nd("F7", <<>>, <<x, Cond>>, 1, <<>>, 7))
  /\ UNCHANGED phase

OutChoices == NodeOuts \cup TypedOuts \cup {R("in", 1, 1, 0), R("init", 1, 1, 0)}
Finish ==
  /\ phase = "build"
  /\ Main.nodes # <<>>
  /\ \E outs \in UNION {[1..l -> OutChoices] : l \in 1..MaxOuts} :
        \* at least one output comes from the last node, so every size is generated once per "newest" node
        /\ \E o \in DOMAIN outs : outs[o][1] = "out" /\ outs[o][3] = Len(Main.nodes)
        /\ p' = [p EXCEPT !.g[1].outs = outs]
  /\ phase' = "done"

Next == Build \/ Finish
Spec == Init /\ [][Next]_vars

\* a deterministic structural checksum (TLC's output order and RandomElement depend on worker scheduling)
OpCode(op) == CASE op = "Neg" -> 1 [] op = "Identity" -> 2 [] op = "Add" -> 3 [] op = "Sub" -> 4 [] op = "Constant" -> 5
                [] op = "Split" -> 6 [] op = "Clip" -> 7 [] op = "If" -> 8 [] op = "F1" -> 9 [] op = "F2" -> 10 [] op = "F3" -> 11
                [] op = "Cast" -> 13 [] op = "Dropout" -> 14 [] op = "LayerNormalization" -> 15 [] op = "BatchNormalization" -> 16
                [] op = "F4" -> 17 [] op = "F5" -> 18 [] op = "F6" -> 19 [] op = "F7" -> 20 [] OTHER -> 12
RefCode(r) == (IF r[1] = "in" THEN 1 ELSE IF r[1] = "init" THEN 2 ELSE IF r[1] = "out" THEN 3 ELSE 0) + 5 * r[2] + 11 * r[3] + 17 * r[4]
NodeCode(n) == OpCode(n.op) + 13 * Len(n.attr) + FoldLeft(LAMBDA a, r : (a * 7 + RefCode(r)) % 100003, 0, n.ins)
GraphCode(g) == FoldLeft(LAMBDA a, r : (a * 3 + RefCode(r)) % 100003,
                         FoldLeft(LAMBDA a, n : (a * 31 + NodeCode(n)) % 100003, 0, g.nodes), g.outs)
Chk(q) == FoldLeft(LAMBDA a, g : (a * 37 + GraphCode(g)) % 100003, 0, q.g)

EmitProg == (EmitOn /\ phase = "done" /\ Chk(p) % SampleMod = SampleRes) => PrintT(ToJson(p))

InvWellFormed == WellFormed(p)
RECURSIVE HasDeep(_)
HasDeep(t) == IF t = <<"deep">> THEN TRUE
              ELSE IF Len(t) = 4 /\ t[1] \notin {"ite"} THEN \E k \in DOMAIN t[3] : HasDeep(t[3][k])
              ELSE IF t[1] = "ite" THEN HasDeep(t[2]) \/ HasDeep(t[3]) \/ HasDeep(t[4])
              ELSE FALSE
InvDenTotal == phase = "done" => \A o \in DOMAIN Den(p) : ~HasDeep(Den(p)[o])
=============================================================================
