------------------------------ MODULE RewriteMC ------------------------------
(***************************************************************************)
(* Complete generator of small abstract programs (the corpus of C05/C14):  *)
(* TLC's reachable "done" states are exactly the well-formed programs with *)
(* at most MaxNodes main-graph nodes over the operator catalogue below     *)
(* (unary / binary / multi-output operators, Identity, Constant, If with   *)
(* bodies capturing outer values, calls of model-local functions with and  *)
(* without an attribute parameter, duplicate initializers, outputs         *)
(* aliasing inputs or initializers, duplicate outputs).                    *)
(* Checked on every generated program: WellFormed, and Den is defined      *)
(* (no "deep" marker) - i.e. the denotation semantics is total on the      *)
(* corpus.                                                                 *)
(***************************************************************************)
EXTENDS Rewrite, Json

CONSTANTS MaxNodes, Ops, MaxOuts, EmitOn,
          SampleMod, SampleRes   \* emit only programs whose structural checksum is SampleRes modulo SampleMod (1, 0 = all)

VARIABLES p, phase
vars == <<p, phase>>

R(kind, g, i, o) == <<kind, g, i, o>>
Nd(op, attr, ins, nout, subs, fn) == [op |-> op, attr |-> attr, ins |-> ins, nout |-> nout, subs |-> subs, fn |-> fn]
Gr(nodes, outs, inits) == [nodes |-> nodes, outs |-> outs, inits |-> inits]

\* function bodies (graphs 2, 3, 4):  F1(x) = Neg(x) ; F2(x, y) = Add(Sub(x, y), x) ; F3(x){p} = Elu[alpha=@p](x)
F1Body == Gr(<<Nd("Neg", <<>>, <<R("in", 2, 1, 0)>>, 1, <<>>, 0)>>, <<R("out", 2, 1, 1)>>, <<>>)
F2Body == Gr(<<Nd("Sub", <<>>, <<R("in", 3, 1, 0), R("in", 3, 2, 0)>>, 1, <<>>, 0),
               Nd("Add", <<>>, <<R("out", 3, 1, 1), R("in", 3, 1, 0)>>, 1, <<>>, 0)>>, <<R("out", 3, 2, 1)>>, <<>>)
F3Body == Gr(<<Nd("Elu", <<<<"alpha", "@p">>>>, <<R("in", 4, 1, 0)>>, 1, <<>>, 0)>>, <<R("out", 4, 1, 1)>>, <<>>)

Init ==
  /\ p = [nin |-> 3,
          g |-> <<Gr(<<>>, <<>>, <<"c1", "c1", "s1">>), F1Body, F2Body, F3Body>>,
          f |-> <<[body |-> 2, nin |-> 1], [body |-> 3, nin |-> 2], [body |-> 4, nin |-> 1]>>]
  /\ phase = "build"

Main == p.g[1]
NodeOuts == UNION {{R("out", 1, i, o) : o \in 1..Main.nodes[i].nout} : i \in DOMAIN Main.nodes}
Avail == {R("in", 1, 1, 0), R("in", 1, 2, 0), R("init", 1, 1, 0), R("init", 1, 2, 0)} \cup NodeOuts
\* second operands: a small representative subset
Second == {R("in", 1, 1, 0), R("init", 1, 2, 0)} \cup {r \in NodeOuts : r[3] = Len(Main.nodes)}
Cond == R("in", 1, 3, 0)      \* the boolean input, used by If only

AddNode(n) == p' = [p EXCEPT !.g[1].nodes = Append(@, n)]
\* an If node whose two bodies become new graphs at the end of p.g
\* `two`: the then-body gets a second node using the first one (a body whose node order matters)
AddIf(thenNode, elseNode, two) ==
  LET k == Len(p.g)
      thenG == IF two THEN Gr(<<thenNode, Nd("Neg", <<>>, <<R("out", k + 1, 1, 1)>>, 1, <<>>, 0)>>, <<R("out", k + 1, 2, 1)>>, <<>>)
               ELSE Gr(<<thenNode>>, <<R("out", k + 1, 1, 1)>>, <<>>)
  IN
  p' = [p EXCEPT !.g = Append(Append([@ EXCEPT ![1].nodes = Append(@, Nd("If", <<>>, <<Cond>>, 1, <<k + 1, k + 2>>, 0))],
                                     thenG),
                              Gr(<<elseNode>>, <<R("out", k + 2, 1, 1)>>, <<>>))]

Build ==
  /\ phase = "build"
  /\ Len(Main.nodes) < MaxNodes
  /\ \/ \E x \in Avail : "Neg" \in Ops /\ AddNode(Nd("Neg", <<>>, <<x>>, 1, <<>>, 0))
     \/ \E x \in Avail : "Identity" \in Ops /\ AddNode(Nd("Identity", <<>>, <<x>>, 1, <<>>, 0))
     \/ \E x \in Avail, y \in Second : "Add" \in Ops /\ AddNode(Nd("Add", <<>>, <<x, y>>, 1, <<>>, 0))
     \/ \E x \in Avail, y \in Second : "Sub" \in Ops /\ AddNode(Nd("Sub", <<>>, <<x, y>>, 1, <<>>, 0))
     \/ \E c \in {"c1", "c2"} : "Constant" \in Ops /\ AddNode(Nd("Constant", <<<<"const", c>>>>, <<>>, 1, <<>>, 0))
     \/ \E x \in Avail : "Split" \in Ops /\ AddNode(Nd("Split", <<>>, <<x>>, 2, <<>>, 0))
     \/ \E x \in Avail : "Clip" \in Ops /\ AddNode(Nd("Clip", <<>>, <<x, NoRef, R("init", 1, 3, 0)>>, 1, <<>>, 0))
     \/ \E x \in Avail, y \in Second, tb \in {"Neg", "Identity", "Neg2"}, eb \in {"Add", "Constant"} :
           /\ "If" \in Ops
           /\ AddIf(Nd(IF tb = "Neg2" THEN "Neg" ELSE tb, <<>>, <<x>>, 1, <<>>, 0),
                    IF eb = "Add" THEN Nd("Add", <<>>, <<x, y>>, 1, <<>>, 0) ELSE Nd("Constant", <<<<"const", "c1">>>>, <<>>, 1, <<>>, 0),
                    tb = "Neg2")
     \/ \E x \in Avail : "Call" \in Ops /\ AddNode(Nd("F1", <<>>, <<x>>, 1, <<>>, 1))
     \/ \E x \in Avail, y \in Second : "Call" \in Ops /\ AddNode(Nd("F2", <<>>, <<x, y>>, 1, <<>>, 2))
     \/ \E x \in Avail, a \in {<<>>, <<<<"p", "2.0">>>>} : "Call" \in Ops /\ AddNode(Nd("F3", a, <<x>>, 1, <<>>, 3))
  /\ UNCHANGED phase

OutChoices == NodeOuts \cup {R("in", 1, 1, 0), R("init", 1, 1, 0)}
Finish ==
  /\ phase = "build"
  /\ Main.nodes # <<>>
  /\ \E outs \in UNION {[1..l -> OutChoices] : l \in 1..MaxOuts} :
        \* at least one output comes from the last node, so every size is generated once per "newest" node
        /\ \E o \in DOMAIN outs : outs[o][1] = "out" /\ outs[o][3] = Len(Main.nodes)
        /\ p' = [p EXCEPT !.g[1].outs = outs]
  /\ phase' = "done"

Next == Build \/ Finish
Spec == Init /\ [][Next]_vars

\* a deterministic structural checksum (TLC's output order and RandomElement depend on worker scheduling)
OpCode(op) == CASE op = "Neg" -> 1 [] op = "Identity" -> 2 [] op = "Add" -> 3 [] op = "Sub" -> 4 [] op = "Constant" -> 5
                [] op = "Split" -> 6 [] op = "Clip" -> 7 [] op = "If" -> 8 [] op = "F1" -> 9 [] op = "F2" -> 10 [] op = "F3" -> 11 [] OTHER -> 12
RefCode(r) == (IF r[1] = "in" THEN 1 ELSE IF r[1] = "init" THEN 2 ELSE IF r[1] = "out" THEN 3 ELSE 0) + 5 * r[2] + 11 * r[3] + 17 * r[4]
NodeCode(n) == OpCode(n.op) + 13 * Len(n.attr) + FoldLeft(LAMBDA a, r : (a * 7 + RefCode(r)) % 100003, 0, n.ins)
GraphCode(g) == FoldLeft(LAMBDA a, r : (a * 3 + RefCode(r)) % 100003,
                         FoldLeft(LAMBDA a, n : (a * 31 + NodeCode(n)) % 100003, 0, g.nodes), g.outs)
Chk(q) == FoldLeft(LAMBDA a, g : (a * 37 + GraphCode(g)) % 100003, 0, q.g)

EmitProg == (EmitOn /\ phase = "done" /\ Chk(p) % SampleMod = SampleRes) => PrintT(ToJson(p))

InvWellFormed == WellFormed(p)
RECURSIVE HasDeep(_)
HasDeep(t) == IF t = <<"deep">> THEN TRUE
              ELSE IF Len(t) = 4 /\ t[1] \notin {"ite"} THEN \E k \in DOMAIN t[3] : HasDeep(t[3][k])
              ELSE IF t[1] = "ite" THEN HasDeep(t[2]) \/ HasDeep(t[3]) \/ HasDeep(t[4])
              ELSE FALSE
InvDenTotal == phase = "done" => \A o \in DOMAIN Den(p) : ~HasDeep(Den(p)[o])
=============================================================================
