CONSTANTS
  MinN = 1
  MaxN = 2
  MinG = 1
  MaxG = 2
  MaxDepth = 1
  MinDepth = 0
  MaxIn = 2
  MaxOut = 2
  MaxExtraOut = 1
  AllowNone = FALSE
  LeafChoices <- LeafQuick
  Kinds = {"graph"}
  MaxOutsCard = 9
  Growing = FALSE
  EmitOn = FALSE
INIT Init
NEXT Next
CHECK_DEADLOCK FALSE
INVARIANT InvAlgDenEqFree
