CONSTANTS
  MinN = 1
  MaxN = 2
  MinG = 1
  MaxG = 2
  MaxDepth = 1
  MinDepth = 0
  MaxIn = 2
  MaxOut = 2
  MaxExtraOut = 1
  AllowNone = TRUE
  LeafChoices <- LeafBoth
  Kinds = {"graph", "function"}
  MaxOutsCard = 9
  Growing = FALSE
  EmitOn = TRUE
INIT Init
NEXT Next
CHECK_DEADLOCK FALSE
INVARIANT EmitInstance
INVARIANT InvWellFormed
INVARIANT InvTables
INVARIANT InvCaptures
INVARIANT InvNeedLeast
INVARIANT InvNeedUnion
INVARIANT InvDenRestrict
INVARIANT InvAlgExact
INVARIANT InvAlgRaises
INVARIANT InvAlgDenEq
INVARIANT InvAlgClosed
INVARIANT InvWalkOrder
