------------------------------ MODULE Extract ------------------------------
(***************************************************************************)
(* C18 - region extraction (ir.convenience.extract) and implicit-capture   *)
(* analysis (ir.analysis.analyze_implicit_usage) are exact.                *)
(*                                                                         *)
(* An INSTANCE I is a forest of graphs (graph 1 = the root, every other    *)
(* graph is the body held by a GRAPH attribute of its owner node):         *)
(*   I.gOf[n]   graph of node n            I.owner[g] owner node (0: root) *)
(*   I.nout[n]  number of outputs of n     I.ins[n]   input values (0=None)*)
(*   I.leaf[i]  kind of root leaf i: "in" | "init" | "both"                *)
(* Node ids are the recursive iteration order, so "original order" of a    *)
(* graph is ascending id.  VALUES are integers:                            *)
(*   i (1..9) root leaf i;  10+g formal input of nested graph g;           *)
(*   100+10n+k output k of node n.                                         *)
(*                                                                         *)
(* Part 1 is the DECLARATIVE definition the property talks about: Need =   *)
(* least set of root nodes closed under producers of non-boundary inputs   *)
(* and of values captured by nested bodies; InitsNeeded; Frontier;         *)
(* Captures(g); the Herbrand denotation XDen.                              *)
(* Part 2 TRANSCRIBES the code: the stack walk and the frontier check of   *)
(* _find_subgraph_bounded_by_values, the GraphView construction, the       *)
(* Cloner (value map filled in clone order, later entries overwrite), and  *)
(* the graph-stack DFS of analyze_implicit_usage.                          *)
(* Part 3 states the theorems relating the two; TLC checks them for every  *)
(* instance and every cut of the bounded scope (ExtractMC).                *)
(***************************************************************************)
EXTENDS Integers, Sequences, FiniteSets, TLC

None == 0
Root == 1

\* ------------------------------------------------------------ values and structure
FormalVal(g) == 10 + g
OutVal(n, k) == 100 + 10 * n + k
IsLeaf(v)    == v \in 1..9
IsFormal(v)  == v \in 11..99
Prod(v)      == IF v > 100 THEN (v - 100) \div 10 ELSE 0

Nodes(I)    == 1..Len(I.gOf)
Graphs(I)   == 1..Len(I.owner)
LeafIds(I)  == 1..Len(I.leaf)
InitVals(I) == {i \in LeafIds(I) : I.leaf[i] \in {"init", "both"}}
GInVals(I)  == {i \in LeafIds(I) : I.leaf[i] \in {"in", "both"}}
NodeOuts(I, n) == {OutVal(n, k) : k \in 1..I.nout[n]}
GraphOfVal(I, v) == IF IsLeaf(v) THEN Root ELSE IF IsFormal(v) THEN v - 10 ELSE I.gOf[Prod(v)]
Parent(I, g) == IF g = Root THEN 0 ELSE I.gOf[I.owner[g]]

RECURSIVE Anc(_, _)
Anc(I, g)     == IF g = Root THEN {} ELSE {Parent(I, g)} \cup Anc(I, Parent(I, g))
AncSelf(I, g) == {g} \cup Anc(I, g)
NodesOf(I, g) == {n \in Nodes(I) : I.gOf[n] = g}
Inside(I, g)  == {h \in Graphs(I) : g \in AncSelf(I, h)}            \* g and the graphs nested in it
NodesDeep(I, g) == {n \in Nodes(I) : I.gOf[n] \in Inside(I, g)}
Subgraphs(I, n) == {g \in Graphs(I) : I.owner[g] = n}
Nested(I)     == Graphs(I) \ {Root}
UsedBy(I, n)  == {I.ins[n][i] : i \in DOMAIN I.ins[n]} \ {None}
ValuesOf(I, g) == (IF g = Root THEN LeafIds(I) ELSE {FormalVal(g)})
                  \cup UNION {NodeOuts(I, n) : n \in NodesOf(I, g)}
RootVals(I)   == ValuesOf(I, Root)
RootNodes(I)  == NodesOf(I, Root)

RECURSIVE XSorted(_)
XSorted(S) == IF S = {} THEN <<>>
              ELSE LET m == CHOOSE x \in S : \A y \in S : x <= y IN <<m>> \o XSorted(S \ {m})
XRev(s)   == [i \in 1..Len(s) |-> s[Len(s) + 1 - i]]
XRange(s) == {s[i] : i \in DOMAIN s}
NodeSeq(I, g) == XSorted(NodesOf(I, g))
SubSeqOf(I, n) == XSorted(Subgraphs(I, n))

\* the owner chain of a node, and the root node that (transitively) holds it
RECURSIVE RootOwner(_, _)
RootOwner(I, n) == IF I.gOf[n] = Root THEN n ELSE RootOwner(I, I.owner[I.gOf[n]])
RECURSIVE OwnerChain(_, _)
OwnerChain(I, n) == IF I.gOf[n] = Root THEN {} ELSE {I.owner[I.gOf[n]]} \cup OwnerChain(I, I.owner[I.gOf[n]])

\* values a node may use in a well formed, topologically sorted model
Visible(I, n) ==
  LeafIds(I)
  \cup {FormalVal(g) : g \in AncSelf(I, I.gOf[n]) \ {Root}}
  \cup UNION {NodeOuts(I, m) : m \in {m \in Nodes(I) : /\ m < n
                                                        /\ I.gOf[m] \in AncSelf(I, I.gOf[n])
                                                        /\ m \notin OwnerChain(I, n)}}
WellFormed(I) ==
  /\ Len(I.nout) = Len(I.gOf) /\ Len(I.ins) = Len(I.gOf) /\ Len(I.owner) >= 1 /\ I.owner[Root] = 0
  /\ \A g \in Nested(I) : I.owner[g] \in Nodes(I) /\ I.gOf[I.owner[g]] < g
  /\ \A n \in Nodes(I) : I.gOf[n] \in Graphs(I) /\ UsedBy(I, n) \subseteq Visible(I, n)

\* ================================================================= Part 1: declarative
\* values used in g or deeper whose defining graph is a strict ancestor of g
Captures(I, g) == {v \in UNION {UsedBy(I, n) : n \in NodesDeep(I, g)} : GraphOfVal(I, v) \in Anc(I, g)}

\* what a root node depends on: its inputs and everything its bodies capture
Dep(I, n) == UsedBy(I, n) \cup UNION {Captures(I, g) : g \in Subgraphs(I, n)}

\* _collect_all_external_values(parent_graph = root, g), used by Part 2
ExternalVals(I, g) == {v \in UNION {UsedBy(I, m) : m \in NodesDeep(I, g)} : GraphOfVal(I, v) = Root}

\* From here on T is the record of instance-level tables Tables(I) defined in Part 3 (T.dep[n] = Dep(I, n),
\* T.init = InitVals(I), T.ext, T.den); the model checker computes it once per instance.
Closed(T, S, ins) == \A n \in S : \A v \in T.dep[n] \ ins : Prod(v) # 0 => Prod(v) \in S
Seeds(ins, outs) == {Prod(v) : v \in outs \ ins} \ {0}

RECURSIVE NeedFix(_, _, _)
NeedFix(T, S, ins) ==
  LET X == S \cup ({Prod(v) : v \in UNION {T.dep[n] \ ins : n \in S}} \ {0})
  IN IF X = S THEN S ELSE NeedFix(T, X, ins)
Need(T, ins, outs) == NeedFix(T, Seeds(ins, outs), ins)

\* the non-boundary values met while computing outs from ins, given the needed nodes N
Reached(T, N, ins, outs) == (outs \ ins) \cup UNION {T.dep[n] \ ins : n \in N}
\* [need, inits, frontier] of a cut: needed nodes, initializers met, uncovered producer-less values
Decl(T, ins, outs) ==
  LET N == Need(T, ins, outs)
      R == Reached(T, N, ins, outs)
  IN [need |-> N, inits |-> R \cap T.init, frontier |-> {v \in R : Prod(v) = 0 /\ v \notin T.init}]

\* ---- Herbrand denotation.  A term is a sequence <<symbol, subterm, ...>>; the symbol of output k of
\* node n is the value id itself (distinct op per node); <<v>> is the variable/constant of leaf v;
\* <<0>> an omitted input; <<1000+g, t1..>> the body g with the terms of its outputs (the outputs of
\* its last node), its formal input being the variable <<10+g>>.  B = values taken as free variables.
BodyOut(I, g) == LET ns == NodeSeq(I, g)
                 IN IF ns = <<>> THEN <<FormalVal(g)>>
                    ELSE [k \in 1..I.nout[ns[Len(ns)]] |-> OutVal(ns[Len(ns)], k)]
RECURSIVE XDen(_, _, _)
RECURSIVE XBody(_, _, _)
XDen(I, B, v) ==
  IF v = None THEN <<0>>
  ELSE IF v \in B \/ Prod(v) = 0 THEN <<v>>
  ELSE LET n == Prod(v)
           subs == SubSeqOf(I, n)
       IN <<v>> \o [i \in 1..Len(I.ins[n]) |-> XDen(I, B, I.ins[n][i])]
               \o [i \in 1..Len(subs) |-> XBody(I, B, subs[i])]
XBody(I, B, g) == LET bo == BodyOut(I, g) IN <<1000 + g>> \o [i \in 1..Len(bo) |-> XDen(I, B, bo[i])]

\* the same denotation in the graph restricted to the root nodes S (with their bodies), boundary B and
\* initializers J: anything else is dangling (<<-1>>)
RECURSIVE RDen(_, _, _, _, _)
RECURSIVE RBody(_, _, _, _, _)
RDen(I, S, B, J, v) ==
  IF v = None THEN <<0>>
  ELSE IF v \in B THEN <<v>>
  ELSE IF Prod(v) = 0 THEN (IF v \in J \/ IsFormal(v) THEN <<v>> ELSE <<-1>>)
  ELSE IF RootOwner(I, Prod(v)) \notin S THEN <<-1>>
  ELSE LET n == Prod(v)
           subs == SubSeqOf(I, n)
       IN <<v>> \o [i \in 1..Len(I.ins[n]) |-> RDen(I, S, B, J, I.ins[n][i])]
               \o [i \in 1..Len(subs) |-> RBody(I, S, B, J, subs[i])]
RBody(I, S, B, J, g) == LET bo == BodyOut(I, g) IN <<1000 + g>> \o [i \in 1..Len(bo) |-> RDen(I, S, B, J, bo[i])]

\* the expected outcome of extract(root, ins, outs)
Expected(T, ins, outs) ==
  LET D == Decl(T, ins, outs)
  IN [raise |-> D.frontier # {}, nodes |-> XSorted(D.need), inits |-> D.inits, frontier |-> D.frontier]

\* ================================================================= Part 2: the code, transcribed
\* T.ext[n][i] = _collect_all_external_values(parent_graph = root, i-th body of n)  (ExternalVals above)
RECURSIVE ExtPush(_, _, _)
ExtPush(exts, vv, asc) ==          \* for attr in node.attributes: for val in values: if val not in visited
  IF exts = <<>> THEN <<>>
  ELSE LET s == XSorted(Head(exts) \ vv)                         \* a Python set: any order; asc picks one
       IN (IF asc THEN s ELSE XRev(s)) \o ExtPush(Tail(exts), vv, asc)

RECURSIVE Walk(_, _, _, _, _, _, _)
Walk(I, T, stack, vn, vv, inits, asc) ==
  IF stack = <<>> THEN [nodes |-> vn, inits |-> inits]
  ELSE LET v == stack[Len(stack)]
           rest == SubSeq(stack, 1, Len(stack) - 1)
       IN IF v \in vv THEN Walk(I, T, rest, vn, vv, inits, asc)
          ELSE LET inits2 == IF v \in T.init THEN inits \cup {v} ELSE inits
                   vv2 == vv \cup {v}
                   n == Prod(v)
               IN IF n # 0 /\ n \notin vn
                  THEN Walk(I, T, rest \o SelectSeq(I.ins[n], LAMBDA u : u \notin vv2 /\ u # None)
                                       \o ExtPush(T.ext[n], vv2, asc),
                            vn \cup {n}, vv2, inits2, asc)
                  ELSE Walk(I, T, rest, vn, vv2, inits2, asc)

\* _find_subgraph_bounded_by_values; kind "function" starts without the boundary initializers
Find(I, T, kind, insS, outsS, asc) ==
  LET ins == XRange(insS)
      W == Walk(I, T, outsS, {}, ins, IF kind = "function" THEN {} ELSE ins \cap T.init, asc)
      front == {v \in UNION {UsedBy(I, n) : n \in W.nodes} : Prod(v) = 0 \/ Prod(v) \notin W.nodes}
      unspecified == {v \in front : v \notin ins /\ v \notin T.init}
  IN [ok |-> unspecified = {}, nodes |-> XSorted(W.nodes), inits |-> W.inits]

\* ---- the cloner on GraphView(ins, outs, nodes, inits).  Clone values: -v = the fresh graph input /
\* initializer / formal input made for source value v;  OutVal(n,k) = output k of the clone of node n.
\* st = [ok, vm (value map), cins (inputs of the cloned nodes)]
MapPut(f, S, g(_)) == [x \in DOMAIN f \cup S |-> IF x \in S THEN g(x) ELSE f[x]]
Neg(x) == 0 - x
Ident(x) == x

RECURSIVE CloneNodes(_, _, _)
RECURSIVE CloneBodies(_, _, _)
CloneNode(I, n, st) ==
  IF \E u \in UsedBy(I, n) : u \notin DOMAIN st.vm
  THEN [st EXCEPT !.ok = FALSE]                                   \* outer-scope / forward reference: raises
  ELSE LET mine == [i \in 1..Len(I.ins[n]) |-> IF I.ins[n][i] = None THEN None ELSE st.vm[I.ins[n][i]]]
           st1 == [st EXCEPT !.cins = MapPut(@, {n}, LAMBDA x : mine)]
           st2 == CloneBodies(I, SubSeqOf(I, n), st1)             \* clone_attr -> clone_graph(body)
       IN IF st2.ok THEN [st2 EXCEPT !.vm = MapPut(@, NodeOuts(I, n), Ident)]    \* overwrites earlier entries
          ELSE st2
CloneNodes(I, ns, st) == IF ns = <<>> \/ ~st.ok THEN st ELSE CloneNodes(I, Tail(ns), CloneNode(I, Head(ns), st))
CloneBodies(I, gs, st) ==
  IF gs = <<>> \/ ~st.ok THEN st
  ELSE LET g == Head(gs)
           f == FormalVal(g)
           st1 == IF f \in DOMAIN st.vm THEN st ELSE [st EXCEPT !.vm = MapPut(@, {f}, Neg)]
           st2 == CloneNodes(I, NodeSeq(I, g), st1)
           st3 == IF st2.ok /\ XRange(BodyOut(I, g)) \subseteq DOMAIN st2.vm THEN st2 ELSE [st2 EXCEPT !.ok = FALSE]
       IN CloneBodies(I, Tail(gs), st3)

NoClone == [ok |-> FALSE, nodes |-> <<>>, inits |-> {}, cins |-> <<>>, outmap |-> <<>>]
CloneView(I, insS, outsS, nodes, inits) ==
  LET vm0 == MapPut(<<>>, XRange(insS) \cup inits, Neg)
      st == CloneNodes(I, nodes, [ok |-> TRUE, vm |-> vm0, cins |-> <<>>])
  IN IF st.ok /\ XRange(outsS) \subseteq DOMAIN st.vm
     THEN [ok |-> TRUE, nodes |-> nodes, inits |-> inits, cins |-> st.cins,
           outmap |-> [i \in 1..Len(outsS) |-> st.vm[outsS[i]]]]
     ELSE NoClone

\* ir.convenience.extract(root, ins, outs): the search, then GraphView(...).clone()
AlgExtract(I, T, kind, insS, outsS, asc) ==
  LET F == Find(I, T, kind, insS, outsS, asc)
  IN [find |-> F, clone |-> IF F.ok THEN CloneView(I, insS, outsS, F.nodes, F.inits) ELSE NoClone]

\* the denotation of a clone value in the extracted graph R.  den = T.den: the boundary variables that have
\* a producer in the source are instantiated with the source's own terms ("evaluated on the source's
\* values at the boundary inputs"); den = <<>>: they stay free variables
CloneOf(v) == IF Prod(v) = 0 THEN Neg(v) ELSE v            \* clone of a value defined inside a cloned body
RECURSIVE CDen(_, _, _, _)
RECURSIVE CBody(_, _, _, _)
CDen(I, R, den, c) ==
  IF c = None THEN <<0>>
  ELSE IF c < 0 THEN (IF Prod(Neg(c)) # 0 /\ Neg(c) \in DOMAIN den THEN den[Neg(c)] ELSE <<Neg(c)>>)
  ELSE LET n == Prod(c)
           subs == SubSeqOf(I, n)
       IN <<c>> \o [i \in 1..Len(R.cins[n]) |-> CDen(I, R, den, R.cins[n][i])]
               \o [i \in 1..Len(subs) |-> CBody(I, R, den, subs[i])]
CBody(I, R, den, g) ==
  LET bo == BodyOut(I, g) IN <<1000 + g>> \o [i \in 1..Len(bo) |-> CDen(I, R, den, CloneOf(bo[i]))]

\* ---- analyze_implicit_usage: DFS over nodes with a graph stack; usage[g] for every nested graph met
RECURSIVE AddUp(_, _, _, _, _)
AddUp(I, inp, stack, j, usage) ==      \* for g in reversed(graph_stack): if g is inp.graph: break; usage[g].add(inp)
  IF j = 0 THEN usage
  ELSE IF stack[j] = GraphOfVal(I, inp) THEN usage
  ELSE AddUp(I, inp, stack, j - 1, [usage EXCEPT ![stack[j]] = @ \cup {inp}])
RECURSIVE Collect(_, _, _, _, _)
Collect(I, inps, g, stack, usage) ==   \* _collect_implicit_usages(node, subgraph, ...)
  IF inps = <<>> THEN usage
  ELSE LET inp == Head(inps)
       IN Collect(I, Tail(inps), g, stack,
                  IF inp = None \/ GraphOfVal(I, inp) = g THEN usage ELSE AddUp(I, inp, stack, Len(stack), usage))
RECURSIVE ProcNode(_, _, _, _)
RECURSIVE ProcSubs(_, _, _, _)
RECURSIVE ProcBody(_, _, _, _, _)
ProcNode(I, n, stack, usage) == ProcSubs(I, SubSeqOf(I, n), stack, usage)
ProcSubs(I, gs, stack, usage) ==
  IF gs = <<>> THEN usage
  ELSE LET g == Head(gs)
           stack2 == Append(stack, g)
       IN ProcSubs(I, Tail(gs), stack, ProcBody(I, NodeSeq(I, g), g, stack2, usage))
ProcBody(I, ns, g, stack, usage) ==
  IF ns = <<>> THEN usage
  ELSE ProcBody(I, Tail(ns), g, stack,
                ProcNode(I, Head(ns), stack, Collect(I, I.ins[Head(ns)], g, stack, usage)))
RECURSIVE ProcTop(_, _, _)
ProcTop(I, ns, usage) == IF ns = <<>> THEN usage ELSE ProcTop(I, Tail(ns), ProcNode(I, Head(ns), <<Root>>, usage))
AlgImplicit(I) == ProcTop(I, NodeSeq(I, Root), [g \in Graphs(I) |-> {}])

\* ================================================================= Part 3: theorems (checked by TLC)
Tables(I) ==
  [dep  |-> [n \in RootNodes(I) |-> Dep(I, n)],
   ext  |-> [n \in RootNodes(I) |-> [i \in 1..Len(SubSeqOf(I, n)) |-> ExternalVals(I, SubSeqOf(I, n)[i])]],
   init |-> InitVals(I),
   den  |-> [v \in RootVals(I) |-> XDen(I, {}, v)]]

\* D.need is a closed superset of the seeds and the least one
NeedLeast(I, T, ins, outs, D) ==
  /\ Seeds(ins, outs) \subseteq D.need /\ D.need \subseteq RootNodes(I) /\ Closed(T, D.need, ins)
  /\ \A S \in SUBSET RootNodes(I) : (Seeds(ins, outs) \subseteq S /\ Closed(T, S, ins)) => D.need \subseteq S
\* restricted to Need, boundary and needed initializers the outputs denote what they denote in the source
DenRestrict(I, ins, outs, D) ==
  D.frontier = {} => \A o \in outs : RDen(I, D.need, ins, D.inits, o) = XDen(I, ins, o)
\* the needed node set is the union of what each single output needs
NeedUnion(T, ins, outs, D) == D.need = UNION {Need(T, ins, {o}) : o \in outs}

\* the code computes the declarative result (R = the clone part of AlgExtract)
AlgExact(T, kind, ins, D, R) ==
  R.ok => /\ R.nodes = XSorted(D.need)
          /\ kind = "function" => R.inits = D.inits
          /\ kind # "function" => R.inits = D.inits \cup (ins \cap T.init)
AlgRaisesIffFrontier(D, R) == ~R.ok <=> D.frontier # {}
\* weak reading (the statement): fed with the source's values at the boundary it yields the source's values
AlgDenEq(I, T, outsS, R) ==
  R.ok => \A i \in 1..Len(outsS) : CDen(I, R, T.den, R.outmap[i]) = T.den[outsS[i]]
\* strong reading: boundary inputs are free variables (fails when a boundary input is shadowed, see MC)
AlgDenEqFree(I, ins, outsS, R) ==
  R.ok => \A i \in 1..Len(outsS) : CDen(I, R, <<>>, R.outmap[i]) = XDen(I, ins, outsS[i])
\* every cloned node refers only to values of the clone (a missing map entry raises) and the clone covers
\* exactly the needed nodes with their bodies
AlgClosed(I, ins, R) ==
  R.ok => /\ DOMAIN R.cins = {n \in Nodes(I) : RootOwner(I, n) \in XRange(R.nodes)}
          /\ \A n \in DOMAIN R.cins : \A i \in 1..Len(R.cins[n]) :
               LET c == R.cins[n][i]
               IN \/ c = None
                  \/ c < 0 /\ (Neg(c) \in ins \cup R.inits \/ IsFormal(Neg(c)))
                  \/ c > 0 /\ Prod(c) \in DOMAIN R.cins
CapturesExact(I) == \A g \in Nested(I) : AlgImplicit(I)[g] = Captures(I, g)
ImplicitRootClean(I) == AlgImplicit(I)[Root] = {}
=============================================================================
