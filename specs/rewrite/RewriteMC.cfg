CONSTANTS
  MaxNodes = 2
  Ops = {"Neg","Identity","Add","Sub","Constant","Split","Clip","If","Call","Call2","TypedConst","Dropout","LayerNorm","BatchNorm"}
  MaxOuts = 2
  EmitOn = TRUE
  SampleMod = 1
  SampleRes = 0
INIT Init
NEXT Next
INVARIANT EmitProg
INVARIANT InvWellFormed
INVARIANT InvDenTotal
CHECK_DEADLOCK FALSE
