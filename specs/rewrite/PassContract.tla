---------------------------- MODULE PassContract ----------------------------
(***************************************************************************)
(* The contract of passes (C14), in three parts.                           *)
(*                                                                         *)
(* (1) The ONNX call boundary  call_onnx_api(func, model)  as an action    *)
(*     system with a fault transition at every step.  The model is the     *)
(*     part of the IR the function touches: the initializer dictionary     *)
(*     (order!), each initializer's data / shape / dtype, and the graph    *)
(*     input list.  Requirement: at EVERY exit - normal, serialization     *)
(*     error (e.g. a lazy tensor raising) or an exception of the ONNX call *)
(*     - the model equals the entry model.                                 *)
(*                                                                         *)
(* (2) The Sequential / PassManager combinators over abstract passes that  *)
(*     individually honour the flag contract: the combined flag is sound.  *)
(*                                                                         *)
(* (3) The contract formulas evaluated by TLC on OBSERVED pass             *)
(*     applications recorded from the real passes (trace validation).      *)
(***************************************************************************)
EXTENDS Integers, Sequences, FiniteSets, TLC, SequencesExt

\* ============================ (1) call_onnx_api ==========================================
CONSTANTS MaxInits     \* every entry model with at most this many initializers is explored
VARIABLES Inits,       \* the initializers at entry: sequence of [kind, isInput, typed]   (never changes)
                       \*   kind \in {"small", "big", "nodata"}; isInput: also a graph input; typed: shape/dtype set
          pc,          \* "strip" | "serialize" | "call" | "restore" | "done" | "raised"
          i,           \* loop index of strip / restore
          dict,        \* current initializer dictionary: sequence of indices into Inits (order matters)
          data,        \* per initializer: has data right now
          typed,       \* per initializer: shape/dtype set right now
          inputs,      \* graph inputs: sequence of 0 (a genuine input) or initializer indices
          err          \* an exception is propagating

cvars == <<Inits, pc, i, dict, data, typed, inputs, err>>

N == Len(Inits)
Entry == [dict |-> [k \in 1..N |-> k],
          data |-> [k \in 1..N |-> Inits[k].kind # "nodata"],
          typed |-> [k \in 1..N |-> Inits[k].typed],
          inputs |-> <<0>> \o SelectSeq([k \in 1..N |-> k], LAMBDA k : Inits[k].isInput)]
Current == [dict |-> dict, data |-> data, typed |-> typed, inputs |-> inputs]

InitRec == [kind : {"small", "big", "nodata"}, isInput : BOOLEAN, typed : BOOLEAN]
CInit == /\ Inits \in UNION {[1..n -> InitRec] : n \in 0..MaxInits}
         /\ pc = "strip" /\ i = 1 /\ err = FALSE
         /\ dict = Entry.dict /\ data = Entry.data /\ typed = Entry.typed /\ inputs = Entry.inputs

InList(q, x) == \E k \in DOMAIN q : q[k] = x

\* the protected region starts before the first modification: every later exit goes through Restore
Strip ==
  /\ pc = "strip"
  /\ IF i > N THEN pc' = "serialize" /\ UNCHANGED <<i, dict, data, typed, inputs, err>>
     ELSE /\ typed' = [typed EXCEPT ![i] = @ \/ data[i]]          \* shape/dtype taken from the tensor
          /\ inputs' = IF InList(inputs, i) THEN inputs ELSE Append(inputs, i)
          /\ IF Inits[i].kind = "nodata" THEN dict' = SelectSeq(dict, LAMBDA k : k # i) /\ data' = data
             ELSE IF Inits[i].kind = "big" THEN dict' = SelectSeq(dict, LAMBDA k : k # i) /\ data' = [data EXCEPT ![i] = FALSE]
             ELSE dict' = dict /\ data' = data
          /\ i' = i + 1
          /\ UNCHANGED <<pc, err>>

Serialize ==
  /\ pc = "serialize"
  /\ \/ pc' = "call" /\ err' = err
     \/ pc' = "restore" /\ err' = TRUE            \* serialization raises (lazy tensor, ...)
  /\ i' = 1 /\ UNCHANGED <<dict, data, typed, inputs>>

Call ==
  /\ pc = "call"
  /\ pc' = "restore" /\ i' = 1
  /\ err' \in {err, TRUE}                          \* the ONNX function may raise
  /\ UNCHANGED <<dict, data, typed, inputs>>

\* restore EXACTLY the entry model: data, the shape/dtype written by Strip, dictionary order, inputs
Restore ==
  /\ pc = "restore"
  /\ dict' = Entry.dict /\ data' = Entry.data /\ typed' = Entry.typed /\ inputs' = Entry.inputs
  /\ pc' = IF err THEN "raised" ELSE "done"
  /\ UNCHANGED <<i, err>>

CNext == (Strip \/ Serialize \/ Call \/ Restore) /\ UNCHANGED Inits
CSpec == CInit /\ [][CNext]_cvars

\* C14: analysis-only passes leave the model exactly unchanged, also when the boundary fails
Unchanged == pc \in {"done", "raised"} => Current = Entry
\* and nothing is ever lost for good: a stripped initializer is always restorable
NoLoss == \A k \in 1..N : Entry.data[k] => (data[k] \/ pc \in {"strip", "serialize", "call", "restore"})

\* ============================ (3) contract on observed applications ========================
\* a: [inplace, same, modified, changed, rounds: Seq([modified, changed]), size, invariantsOK, sortedBefore,
\*     sortedAfter, namesOK, analysis]
Identity(a) == a.inplace <=> a.same
FlagSound(a) == ~a.modified => ~a.changed
Fixpoint(a) == \E k \in DOMAIN a.rounds : k <= a.size + 1 /\ ~a.rounds[k].modified /\ ~a.rounds[k].changed
NoDamage(a) == a.invariantsOK /\ (a.sortedBefore => a.sortedAfter) /\ a.namesOK
AnalysisOnly(a) == a.analysis => ~a.changed
ContractBroken(a) ==
  (IF Identity(a) THEN <<>> ELSE <<"Identity">>) \o (IF FlagSound(a) THEN <<>> ELSE <<"FlagSound">>)
  \o (IF Fixpoint(a) THEN <<>> ELSE <<"Fixpoint">>) \o (IF NoDamage(a) THEN <<>> ELSE <<"NoDamage">>)
  \o (IF AnalysisOnly(a) THEN <<>> ELSE <<"AnalysisOnly">>)
=============================================================================
