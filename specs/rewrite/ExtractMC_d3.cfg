CONSTANTS
  MinN = 5
  MaxN = 5
  MinG = 4
  MaxG = 4
  MaxDepth = 3
  MinDepth = 3
  MaxIn = 1
  MaxOut = 1
  MaxExtraOut = 0
  AllowNone = FALSE
  LeafChoices <- LeafQuick
  Kinds = {"graph"}
  MaxOutsCard = 1
  Growing = TRUE
  EmitOn = TRUE
INIT Init
NEXT Next
CHECK_DEADLOCK FALSE
INVARIANT EmitInstance
INVARIANT InvWellFormed
INVARIANT InvTables
INVARIANT InvCaptures
INVARIANT InvNeedLeast
INVARIANT InvNeedUnion
INVARIANT InvDenRestrict
INVARIANT InvAlgExact
INVARIANT InvAlgRaises
INVARIANT InvAlgDenEq
INVARIANT InvAlgClosed
INVARIANT InvWalkOrder
