\* three main-graph nodes over a reduced operator catalogue; a checksum-selected sample is emitted
CONSTANTS
  MaxNodes = 3
  Ops = {"Identity","Add","Constant","If","Call","Call2","Split","TypedConst","LayerNorm","BatchNorm"}
  MaxOuts = 1
  EmitOn = TRUE
  SampleMod = 1200
  SampleRes = 0
INIT Init
NEXT Next
INVARIANT EmitProg
INVARIANT InvWellFormed
CHECK_DEADLOCK FALSE
