CONSTANTS
  MinN = 3
  MaxN = 3
  MinG = 1
  MaxG = 2
  MaxDepth = 1
  MaxIn = 2
  MaxOut = 2
  MaxExtraOut = 1
  AllowNone = FALSE
  LeafChoices <- LeafQuick
  Kinds = {"graph"}
  MaxOutsCard = 2
  EmitOn = TRUE
INIT Init
NEXT Next
CHECK_DEADLOCK FALSE
INVARIANT EmitInstance
INVARIANT InvWellFormed
INVARIANT InvTables
INVARIANT InvCaptures
INVARIANT InvNeedLeast
INVARIANT InvNeedUnion
INVARIANT InvDenRestrict
INVARIANT InvAlgExact
INVARIANT InvAlgRaises
INVARIANT InvAlgDenEq
INVARIANT InvAlgClosed
INVARIANT InvWalkOrder
