---------------------------- MODULE RewriteTrace ----------------------------
(***************************************************************************)
(* Validation of observed pass applications (code -> specification).       *)
(* TRACE_FILE: {"pairs": [{"id", "before": P, "after": Q}],               *)
(*              "apps":  [{"id", "a": <application record>}]}             *)
(* before/after are abstractions of the real model before and after a real *)
(* pass (or pass sequence).  TLC evaluates Equiv (Herbrand denotation      *)
(* equality + interface) on every pair and the contract formulas of        *)
(* PassContract on every application record, and prints                    *)
(*   ["pair", id, sameInterface, denEqual]                                 *)
(*   ["app", id, <<broken contract clauses>>]                              *)
(***************************************************************************)
EXTENDS Rewrite, Json, IOUtils

Data == JsonDeserialize(IOEnv.TRACE_FILE)
VARIABLES k, phase
vars == <<k, phase>>
Init == k = 0 /\ phase = "pairs"
Next ==
  \/ phase = "pairs" /\ k < Len(Data.pairs) /\ k' = k + 1 /\ phase' = phase
  \/ phase = "pairs" /\ k = Len(Data.pairs) /\ k' = 0 /\ phase' = "apps"
  \/ phase = "apps" /\ k < Len(Data.apps) /\ k' = k + 1 /\ phase' = phase
Spec == Init /\ [][Next]_vars

\* ---- contract formulas (same text as PassContract.tla part 3; repeated because that module has its own variables)
Identity(a) == a.inplace <=> a.same
FlagSound(a) == ~a.modified => ~a.changed
Fixpoint(a) == \E x \in DOMAIN a.rounds : x <= a.size + 1 /\ ~a.rounds[x].modified /\ ~a.rounds[x].changed
\* (reloadOK: the names the result is serialized under can be read back - no value defined twice in a scope, ...)
NoDamage(a) == a.invariantsOK /\ (a.sortedBefore => a.sortedAfter) /\ a.namesOK /\ a.reloadOK
AnalysisOnly(a) == a.analysis => ~a.changed
\* functionalize(pass): whatever the wrapped pass is (in place, destructive, a sequence that starts with a
\* side-effect-only pass, a pass manager), the caller's model serializes as before and the result is another object.
\* funcTried = the wrapper was applied in this record, funcRaised = it raised (nothing to judge then)
Functionalized(a) == (a.funcTried /\ ~a.funcRaised) => (a.funcInputSame /\ a.funcFresh)
ContractBroken(a) ==
  (IF Identity(a) THEN <<>> ELSE <<"Identity">>) \o (IF FlagSound(a) THEN <<>> ELSE <<"FlagSound">>)
  \o (IF Fixpoint(a) THEN <<>> ELSE <<"Fixpoint">>) \o (IF NoDamage(a) THEN <<>> ELSE <<"NoDamage">>)
  \o (IF AnalysisOnly(a) THEN <<>> ELSE <<"AnalysisOnly">>)
  \o (IF Functionalized(a) THEN <<>> ELSE <<"Functionalized">>)

Report ==
  /\ (phase = "pairs" /\ k > 0) =>
        LET pr == Data.pairs[k] IN
        PrintT(ToJson(<<"pair", pr.id, SameInterface(pr.before, pr.after),
                        IF SameInterface(pr.before, pr.after) THEN Den(pr.before) = Den(pr.after) ELSE FALSE>>))
  /\ (phase = "apps" /\ k > 0) =>
        PrintT(ToJson(<<"app", Data.apps[k].id, ContractBroken(Data.apps[k].a)>>))
=============================================================================
