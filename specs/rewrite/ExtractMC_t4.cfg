CONSTANTS
  MinN = 4
  MaxN = 4
  MinG = 1
  MaxG = 2
  MaxDepth = 1
  MinDepth = 0
  MaxIn = 2
  MaxOut = 1
  MaxExtraOut = 0
  AllowNone = FALSE
  LeafChoices <- LeafQuick
  Kinds = {"graph"}
  MaxOutsCard = 1
  Growing = FALSE
  EmitOn = TRUE
INIT Init
NEXT Next
CHECK_DEADLOCK FALSE
INVARIANT EmitInstance
INVARIANT InvWellFormed
INVARIANT InvTables
INVARIANT InvCaptures
INVARIANT InvNeedLeast
INVARIANT InvNeedUnion
INVARIANT InvDenRestrict
INVARIANT InvAlgExact
INVARIANT InvAlgRaises
INVARIANT InvAlgDenEq
INVARIANT InvAlgClosed
INVARIANT InvWalkOrder
