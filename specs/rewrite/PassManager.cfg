CONSTANTS
  InPlace <- InPlaceDef
  Steps = 3
  EarlyStop = TRUE
SPECIFICATION Spec
INVARIANT FlagSound
INVARIANT IdentityOK
CHECK_DEADLOCK FALSE
