----------------------------- MODULE PassManager -----------------------------
(***************************************************************************)
(* Sequential / PassManager(steps, early_stop) over abstract passes.  Each *)
(* component pass honours the flag contract (it may report modified=TRUE   *)
(* without changing anything, but never FALSE after a change) and the      *)
(* identity contract (an in-place pass returns its input object, a         *)
(* functional one a new object).  TLC checks that the combinators then     *)
(* honour both contracts as well.  `ver` counts changes to the model       *)
(* content, `obj` identifies the model object.                             *)
(***************************************************************************)
EXTENDS Integers, Sequences, TLC

CONSTANTS InPlace,   \* sequence of booleans: which component passes are in-place
          Steps, EarlyStop

InPlaceDef == <<TRUE, FALSE, TRUE>>
InPlaceAll == <<TRUE, TRUE>>

VARIABLES step, k, ver, obj, stepMod, overall, pc
vars == <<step, k, ver, obj, stepMod, overall, pc>>

NP == Len(InPlace)
Init == step = 0 /\ k = 1 /\ ver = 0 /\ obj = 0 /\ stepMod = FALSE /\ overall = FALSE
        /\ pc = IF Steps = 0 THEN "done" ELSE "run"

\* one component pass application
RunPass ==
  /\ pc = "run" /\ k <= NP
  /\ \E changes \in BOOLEAN, reports \in BOOLEAN :
        /\ (changes => reports)                         \* component flag contract
        /\ ver' = IF changes THEN ver + 1 ELSE ver
        /\ obj' = IF InPlace[k] THEN obj ELSE obj + 1   \* component identity contract
        /\ stepMod' = (stepMod \/ reports)
  /\ k' = k + 1
  /\ UNCHANGED <<step, overall, pc>>

EndStep ==
  /\ pc = "run" /\ k > NP
  /\ overall' = (overall \/ stepMod)
  /\ step' = step + 1
  /\ pc' = IF (~stepMod /\ EarlyStop) \/ step + 1 >= Steps THEN "done" ELSE "run"
  /\ k' = 1 /\ stepMod' = FALSE
  /\ UNCHANGED <<ver, obj>>

Next == RunPass \/ EndStep
Spec == Init /\ [][Next]_vars

AllInPlace == \A x \in DOMAIN InPlace : InPlace[x]
\* the combinator's flag is sound and its declared in_place (= all components in-place) is honoured
FlagSound == pc = "done" => (~overall => ver = 0)
IdentityOK == (pc = "done" /\ Steps > 0) => (AllInPlace <=> obj = 0)
Bound == step <= Steps
=============================================================================
