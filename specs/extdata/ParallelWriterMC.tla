-------------------------- MODULE ParallelWriterMC --------------------------
(***************************************************************************)
(* Model-checking instance of ParallelWriter: ALL interleavings of every   *)
(* configuration of a family (constant Family) with budget Cap and tensor  *)
(* sizes drawn from {0, 1, Cap, Cap+1, 2*Cap}, so that several oversized    *)
(* reservations compete with small ones; optionally one tensor OBJECT      *)
(* shared by two initializers, 0-1 failing tensor objects, one file or     *)
(* concurrent shards (1-2 drivers with 1-2 inner workers).                 *)
(* Every behaviour is finite, so no state constraint is needed.            *)
(***************************************************************************)
EXTENDS ParallelWriter

CONSTANTS Cap, Family

SizeSet == {0, 1, Cap, Cap + 1, 2 * Cap}
Ident(n) == [i \in 1..n |-> i]
\* tensor n is the same OBJECT as tensor 1
Shared(n) == [i \in 1..n |-> IF i = n THEN 1 ELSE i]
\* an object has one size
Consistent(sz, ob) == \A i, j \in DOMAIN sz : ob[i] = ob[j] => sz[i] = sz[j]
ObjSet(ob) == {ob[i] : i \in DOMAIN ob}
Fails(ob, k) == IF k = 0 THEN {{}} ELSE {{}} \cup {{o} : o \in ObjSet(ob)}

Raw(sz, ob, fl, mw, ms) == [size |-> sz, obj |-> ob, fail |-> fl, cap |-> Cap, mw |-> mw, maxShard |-> ms]

\* n tensors, sizes from S, max_workers from mws, max_shard_size_bytes from mss (0 = one file)
Gen(n, S, mws, shared, kfail, mss) ==
  { r \in UNION { { Raw(sz, ob, fl, mw, ms) : fl \in Fails(ob, kfail), mw \in mws, ms \in mss }
                  : sz \in [1..n -> S], ob \in (IF shared THEN {Ident(n), Shared(n)} ELSE {Ident(n)}) }
    : Consistent(r.size, r.obj) }

\* explicit size vectors
GenV(vecs, mws, kfail, mss) ==
  UNION { { Raw(sz, Ident(Len(sz)), fl, mw, ms) : fl \in Fails(Ident(Len(sz)), kfail), mw \in mws, ms \in mss } : sz \in vecs }

QSingle == Gen(3, {1, Cap, Cap + 1}, {2}, TRUE, 1, {0})
           \cup GenV({<<1, Cap, Cap + 1>>, <<Cap + 1, Cap + 1, 1>>, <<Cap, Cap, 1>>}, {3}, 1, {0})
QShard  == GenV({<<1, 1, Cap + 1>>, <<Cap + 1, 1, Cap + 1>>, <<1, Cap + 1, 1>>}, {2, 6}, 1, {Cap + 1})
           \cup {Raw(<<Cap + 1, 1, Cap + 1>>, Shared(3), {}, 2, Cap + 1), Raw(<<1, Cap, 1>>, Shared(3), {1}, 6, Cap)}
QFour   == GenV({<<Cap + 1, 1, 2 * Cap, Cap>>}, {3}, 1, {0})

Configs ==
  CASE Family = "quick"    -> QSingle \cup QShard \cup QFour
    [] Family = "live"     -> GenV({<<1, Cap, Cap + 1>>, <<Cap + 1, Cap + 1, 1>>, <<Cap, Cap, 1>>}, {2, 3}, 1, {0})
                              \cup {Raw(<<Cap + 1, 1, Cap + 1>>, Shared(3), {}, 2, Cap + 1), Raw(<<1, Cap, 1>>, Ident(3), {1}, 6, Cap)}
    [] Family = "single3"  -> Gen(3, SizeSet, {2, 3}, TRUE, 1, {0})
    [] Family = "shard3"   -> Gen(3, SizeSet \ {0}, {2, 6}, TRUE, 1, {Cap + 1, 2 * Cap})
    [] Family = "four"     -> Gen(4, {1, Cap + 1}, {3}, FALSE, 1, {0})
                              \cup GenV({<<Cap + 1, 1, 2 * Cap, Cap>>, <<2 * Cap, Cap + 1, Cap + 1, 1>>}, {2, 3}, 1, {0, 2 * Cap})
                              \cup GenV({<<0, Cap, Cap, 1>>}, {2, 3}, 1, {0})

MCInit == \E raw \in Configs : InitFor(MkCfg(raw))
MCSpec == MCInit /\ [][Next]_vars
\* weak fairness of "some thread moves" is weaker than weak fairness of every thread's actions:
\* termination under it implies termination under per-thread fairness
MCLive == MCInit /\ [][Next]_vars /\ WF_vars(Step)

(***************************************************************************)
(* Experiment (not part of the check): the mutant "notify_all -> notify".  *)
(* Release wakes ONE waiter, chosen arbitrarily (a superset of the FIFO    *)
(* choice of threading.Condition).  ParallelWriterMC_notifyone.cfg shows   *)
(* that deadlock freedom, Termination and every property formula still     *)
(* hold - only InvNoLostWakeup (a design formula, not part of C09) fails:  *)
(* the last release always wakes a waiter, and with nothing outstanding    *)
(* every predicate is true.  The mutant only lowers the concurrency.       *)
(***************************************************************************)
ReleaseOne(t) ==
  /\ pc[t] = "releasing"
  /\ IF Big(t) THEN oversized' = FALSE /\ UNCHANGED inFlight
               ELSE inFlight' = inFlight - Sz(t) /\ UNCHANGED oversized
  /\ IF waiters = {} THEN UNCHANGED waiters ELSE \E u \in waiters : waiters' = waiters \ {u}
  /\ pc' = [pc EXCEPT ![t] = "unlocking"]
  /\ UNCHANGED <<cfg, task, vPool, exc, hasFile, vLocks, vOut>>

StepOne == \E t \in T :
  \/ DTake(t) \/ DFinish(t) \/ Take(t) \/ Finish(t) \/ FirstFailure(t) \/ JoinInner(t)
  \/ ICbAcq(t) \/ OCbAcq(t) \/ CbRun(t) \/ OCbRel(t) \/ ICbRel(t) \/ FAcq(t) \/ FRel(t)
  \/ TLock(t) \/ AcqFit(t) \/ AcqOver(t) \/ AcqBlock(t) \/ WakeFit(t) \/ WakeBlock(t)
  \/ Write(t) \/ ReleaseOne(t) \/ TUnlock(t)
  \/ (t = 0 /\ (JoinAll \/ Return))
MCSpecOne == MCInit /\ [][StepOne \/ Terminated]_vars /\ WF_vars(StepOne)
=============================================================================
