-------------------------- MODULE ParallelWriterMC --------------------------
(***************************************************************************)
(* Model-checking instance of ParallelWriter: ALL interleavings of every   *)
(* configuration of a family (constant Family) with budget Cap and tensor  *)
(* sizes drawn from {0, 1, Cap, Cap+1, 2*Cap}, so that several oversized    *)
(* reservations compete with small ones; optionally one tensor OBJECT      *)
(* shared by two initializers, 0-1 failing tensor objects, one file or     *)
(* concurrent shards (1-2 drivers with 1-2 inner workers).                 *)
(* QMixed: one tensor OBJECT shared between a shard written by the serial  *)
(* writer (one tensor) and a shard written by a parallel inner writer      *)
(* (>= 2 tensors), with a tight budget (2 * size > Cap) or the object      *)
(* larger than the whole budget (the single oversized slot); with and      *)
(* without a failing tensor / failing callback.  QKinds: the same failing  *)
(* configurations for every kind of exception.                             *)
(* Every behaviour is finite, so no state constraint is needed.            *)
(***************************************************************************)
EXTENDS ParallelWriter

CONSTANTS Cap, Family

SizeSet == {0, 1, Cap, Cap + 1, 2 * Cap}
Ident(n) == [i \in 1..n |-> i]
\* tensor n is the same OBJECT as tensor 1
Shared(n) == [i \in 1..n |-> IF i = n THEN 1 ELSE i]
\* an object has one size
Consistent(sz, ob) == \A i, j \in DOMAIN sz : ob[i] = ob[j] => sz[i] = sz[j]
ObjSet(ob) == {ob[i] : i \in DOMAIN ob}
Fails(ob, k) == IF k = 0 THEN {{}} ELSE {{}} \cup {{o} : o \in ObjSet(ob)}

Kinds == {"RuntimeError", "OSError", "Abort", "KeyboardInterrupt", "SystemExit"}
RawK(sz, ob, fl, cbf, k, mw, ms) ==
  [size |-> sz, obj |-> ob, fail |-> fl, cbfail |-> cbf, fkind |-> k, cap |-> Cap, mw |-> mw, maxShard |-> ms]
Raw(sz, ob, fl, mw, ms) == RawK(sz, ob, fl, {}, "OSError", mw, ms)
\* the same configurations with a failing callback instead of a failing tensor (one index at a time)
WithCbFail(S) == UNION { { [r EXCEPT !.fail = {}, !.cbfail = {i}] : i \in DOMAIN r.size } : r \in S }
WithKinds(S)  == { [r EXCEPT !.fkind = k] : r \in S, k \in Kinds }

\* n tensors, sizes from S, max_workers from mws, max_shard_size_bytes from mss (0 = one file)
Gen(n, S, mws, shared, kfail, mss) ==
  { r \in UNION { { Raw(sz, ob, fl, mw, ms) : fl \in Fails(ob, kfail), mw \in mws, ms \in mss }
                  : sz \in [1..n -> S], ob \in (IF shared THEN {Ident(n), Shared(n)} ELSE {Ident(n)}) }
    : Consistent(r.size, r.obj) }

\* explicit size vectors
GenV(vecs, mws, kfail, mss) ==
  UNION { { Raw(sz, Ident(Len(sz)), fl, mw, ms) : fl \in Fails(Ident(Len(sz)), kfail), mw \in mws, ms \in mss } : sz \in vecs }

QSingle == Gen(3, {1, Cap, Cap + 1}, {2}, TRUE, 1, {0})
           \cup GenV({<<1, Cap, Cap + 1>>, <<Cap + 1, Cap + 1, 1>>, <<Cap, Cap, 1>>}, {3}, 1, {0})
QShard  == GenV({<<1, 1, Cap + 1>>, <<Cap + 1, 1, Cap + 1>>, <<1, Cap + 1, 1>>}, {2, 6}, 1, {Cap + 1})
           \cup {Raw(<<Cap + 1, 1, Cap + 1>>, Shared(3), {}, 2, Cap + 1), Raw(<<1, Cap, 1>>, Shared(3), {1}, 6, Cap)}
QFour   == GenV({<<Cap + 1, 1, 2 * Cap, Cap>>}, {3}, 1, {0})
\* shards {1,2} (parallel inner writer: 6 workers = 2 drivers x 2 inner) and {3} (serial writer);
\* tensor 3 is the same object as tensor 1
MixedTight == Raw(<<Cap, 1, Cap>>, Shared(3), {}, 6, Cap + 1)            \* 2 * Cap > Cap
MixedOver  == Raw(<<Cap + 1, 1, Cap + 1>>, Shared(3), {}, 6, 2 * Cap)    \* the oversized slot
\* three shards {1} {2} {3,4}: two serial writers and a parallel one, 9 workers = 3 drivers x 2 inner
Mixed4     == Raw(<<Cap, Cap, 1, Cap>>, [i \in 1..4 |-> IF i = 4 THEN 1 ELSE i], {}, 9, Cap + 1)
QMixedOk == {MixedTight, MixedOver}
QMixed  == QMixedOk
           \cup { [r EXCEPT !.fail = {o}] : r \in QMixedOk, o \in {1, 2} }
           \cup WithCbFail(QMixedOk)
\* failing callbacks in the one-file and in the sharded (serial writers only) case
QCbFail == WithCbFail({Raw(<<1, Cap, Cap + 1>>, Ident(3), {}, 2, 0), Raw(<<Cap + 1, Cap + 1, 1>>, Ident(3), {}, 3, 0),
                       Raw(<<1, Cap + 1, 1>>, Ident(3), {}, 2, Cap + 1)})
\* no concurrency: max_workers = 1, one file and shards written one after the other (with every failure)
QPlain  == LET base == {Raw(<<Cap + 1, Cap, Cap + 1>>, Shared(3), {}, 1, 0), Raw(<<Cap, 1, Cap>>, Shared(3), {}, 1, Cap + 1)}
           IN base \cup { [r EXCEPT !.fail = {o}] : r \in base, o \in {1, 2} } \cup WithCbFail(base)
\* every kind of exception: the behaviours are the same, so one small base is enough
QKinds  == WithKinds({Raw(<<Cap, Cap, 1>>, Ident(3), {2}, 2, 0), RawK(<<Cap, Cap, 1>>, Ident(3), {}, {1}, "OSError", 2, 0),
                      [MixedTight EXCEPT !.fail = {1}]})

Configs ==
  CASE Family = "quick"    -> QSingle \cup QShard \cup QFour \cup QMixed \cup QCbFail \cup QKinds \cup QPlain
    [] Family = "live"     -> GenV({<<1, Cap, Cap + 1>>, <<Cap + 1, Cap + 1, 1>>, <<Cap, Cap, 1>>}, {2, 3}, 1, {0})
                              \cup {Raw(<<Cap + 1, 1, Cap + 1>>, Shared(3), {}, 2, Cap + 1), Raw(<<1, Cap, 1>>, Ident(3), {1}, 6, Cap)}
                              \cup QMixedOk \cup {[MixedTight EXCEPT !.fail = {1}], [MixedOver EXCEPT !.cbfail = {3}]}
    [] Family = "mixed"    -> QMixed
    [] Family = "mixed4"   -> QMixed \cup {Mixed4, [Mixed4 EXCEPT !.fail = {1}], [Mixed4 EXCEPT !.cbfail = {4}]}
    [] Family = "plain"    -> QPlain \cup WithKinds({Raw(<<1, Cap>>, Ident(2), {2}, 1, 0)})
    [] Family = "cbfail"   -> WithCbFail(Gen(3, {1, Cap, Cap + 1}, {2, 3}, TRUE, 0, {0}))
                              \cup WithCbFail(Gen(3, {1, Cap, Cap + 1}, {2, 6}, TRUE, 0, {Cap + 1, 2 * Cap}))
    [] Family = "single3"  -> Gen(3, SizeSet, {2, 3}, TRUE, 1, {0})
    [] Family = "shard3"   -> Gen(3, SizeSet \ {0}, {2, 6}, TRUE, 1, {Cap + 1, 2 * Cap})
    [] Family = "four"     -> Gen(4, {1, Cap + 1}, {3}, FALSE, 1, {0})
                              \cup GenV({<<Cap + 1, 1, 2 * Cap, Cap>>, <<2 * Cap, Cap + 1, Cap + 1, 1>>}, {2, 3}, 1, {0, 2 * Cap})
                              \cup GenV({<<0, Cap, Cap, 1>>}, {2, 3}, 1, {0})

MCInit == \E raw \in Configs : InitFor(MkCfg(raw))
MCSpec == MCInit /\ [][Next]_vars
\* weak fairness of "some thread moves" is weaker than weak fairness of every thread's actions:
\* termination under it implies termination under per-thread fairness
MCLive == MCInit /\ [][Next]_vars /\ WF_vars(Step)

(***************************************************************************)
(* Experiment (not part of the check): the mutant "notify_all -> notify".  *)
(* Release wakes ONE waiter, chosen arbitrarily (a superset of the FIFO    *)
(* choice of threading.Condition).  ParallelWriterMC_notifyone.cfg shows   *)
(* that deadlock freedom, Termination and every property formula still     *)
(* hold - only InvNoLostWakeup (a design formula, not part of C09) fails:  *)
(* the last release always wakes a waiter, and with nothing outstanding    *)
(* every predicate is true.  The mutant only lowers the concurrency.       *)
(***************************************************************************)
ReleaseOne(t) ==
  /\ pc[t] = "releasing"
  /\ IF Big(t) THEN oversized' = FALSE /\ UNCHANGED inFlight
               ELSE inFlight' = inFlight - Sz(t) /\ UNCHANGED oversized
  /\ IF waiters = {} THEN UNCHANGED waiters ELSE \E u \in waiters : waiters' = waiters \ {u}
  /\ pc' = [pc EXCEPT ![t] = "unlocking"]
  /\ UNCHANGED <<cfg, task, vPool, exc, hasFile, vLocks, vOut>>

(***************************************************************************)
(* Anti-vacuity (ParallelWriterMC_weak.cfg; asserted on every run of the   *)
(* check): the acquisition order of ONE writer kind is swapped.  The pool  *)
(* worker of _write_parallel reserves the bytes FIRST                      *)
(*     budget -> callback lock(s) -> files_lock -> tensor lock -> write    *)
(*            -> tensor unlock -> budget release                           *)
(* while the serial writer keeps  tensor lock -> budget.  With a tensor    *)
(* object shared between a serial shard and a parallel shard and a tight   *)
(* budget / the oversized slot TLC must report a deadlock: worker holds    *)
(* the bytes and waits for lock(T), serial driver holds lock(T) and waits  *)
(* for the bytes.                                                          *)
(***************************************************************************)
WTake(w) ==
  /\ IsWrk(w) /\ pc[w] = "idle"
  /\ LET d == DrvOf(w)
     IN /\ pc[d] = "pmain" /\ queue[d] # <<>> /\ PoolHas(w)
        /\ task' = [task EXCEPT ![w] = Head(queue[d])]
        /\ tstat' = [tstat EXCEPT ![Head(queue[d])] = "running"]
        /\ queue' = [queue EXCEPT ![d] = Tail(@)]
  /\ pc' = [pc EXCEPT ![w] = "wPre"]
  /\ UNCHANGED <<cfg, job, shardQ, jstat, exc, hasFile, vLocks, vBud, vOut>>

WAcq(w) ==
  /\ IsWrk(w)
  /\ \/ pc[w] = "wPre"
     \/ pc[w] = "wPreWait" /\ w \notin waiters
  /\ CanAcq(w)
  /\ Reserve(w) /\ UNCHANGED waiters
  /\ pc' = [pc EXCEPT ![w] = "icbWait"]
  /\ UNCHANGED <<cfg, task, vPool, exc, hasFile, vLocks, vOut>>

WAcqBlock(w) ==
  /\ IsWrk(w)
  /\ \/ pc[w] = "wPre"
     \/ pc[w] = "wPreWait" /\ w \notin waiters
  /\ ~CanAcq(w)
  /\ waiters' = waiters \cup {w}
  /\ pc' = [pc EXCEPT ![w] = "wPreWait"]
  /\ UNCHANGED <<cfg, task, vPool, exc, hasFile, vLocks, inFlight, oversized, vOut>>

\* the callback raised: the reservation is released in the finally clause
WICbRel(w) ==
  /\ IsWrk(w) /\ pc[w] = "icbRel"
  /\ icb' = [icb EXCEPT ![DrvOf(w)] = NoOne]
  /\ pc' = [pc EXCEPT ![w] = IF w \in exc THEN "wRelease"
                             ELSE IF w \in hasFile THEN "lockWait" ELSE "fWait"]
  /\ UNCHANGED <<cfg, task, vPool, exc, hasFile, tlock, ocb, flock, vBud, vOut>>

\* tensor.tofile under the tensor lock, the reservation is already held
WWrite(w) ==
  /\ IsWrk(w) /\ pc[w] = "holdLock"
  /\ IF Ob(w) \in cfg.fail
     THEN exc' = exc \cup {w} /\ UNCHANGED file
     ELSE file' = WriteAt(cfg, file, task[w]) /\ UNCHANGED exc
  /\ pc' = [pc EXCEPT ![w] = "wUnlock"]
  /\ UNCHANGED <<cfg, task, vPool, hasFile, vLocks, vBud, cbCount>>

WTUnlock(w) ==
  /\ IsWrk(w) /\ pc[w] = "wUnlock"
  /\ tlock' = [tlock EXCEPT ![Ob(w)] = NoOne]
  /\ pc' = [pc EXCEPT ![w] = "wRelease"]
  /\ UNCHANGED <<cfg, task, vPool, exc, hasFile, icb, ocb, flock, vBud, vOut>>

WRelease(w) ==
  /\ IsWrk(w) /\ pc[w] = "wRelease"
  /\ IF Big(w) THEN oversized' = FALSE /\ UNCHANGED inFlight
               ELSE inFlight' = inFlight - Sz(w) /\ UNCHANGED oversized
  /\ waiters' = {}
  /\ pc' = [pc EXCEPT ![w] = "finish"]
  /\ UNCHANGED <<cfg, task, vPool, exc, hasFile, vLocks, vOut>>

PoolWriterStepWeak(w) ==
  /\ IsWrk(w)
  /\ \/ WAcq(w) \/ WAcqBlock(w)
     \/ ICbAcq(w) \/ OCbAcq(w) \/ CbRun(w) \/ CbFail(w) \/ OCbRel(w) \/ WICbRel(w)
     \/ FAcq(w) \/ FRel(w)
     \/ TLock(w) \/ WWrite(w) \/ WTUnlock(w) \/ WRelease(w)

StepWeak == \E t \in T :
  \/ DTake(t) \/ DFinish(t) \/ WTake(t) \/ Finish(t) \/ FirstFailure(t) \/ JoinInner(t)
  \/ (t = 0 /\ (JoinAll \/ Return))
  \/ SerialWriterStep(t)
  \/ PoolWriterStepWeak(t)
MCSpecWeak == MCInit /\ [][StepWeak \/ Terminated]_vars

\* the budget formulas survive the swap (it is a liveness defect only): checked in the weak cfg too
WeakBudget == /\ inFlight >= 0 /\ inFlight <= cfg.cap

StepOne == \E t \in T :
  \/ DTake(t) \/ DFinish(t) \/ Take(t) \/ Finish(t) \/ FirstFailure(t) \/ JoinInner(t)
  \/ ICbAcq(t) \/ OCbAcq(t) \/ CbRun(t) \/ CbFail(t) \/ OCbRel(t) \/ ICbRel(t) \/ FAcq(t) \/ FRel(t)
  \/ TLock(t) \/ AcqFit(t) \/ AcqOver(t) \/ AcqBlock(t) \/ WakeFit(t) \/ WakeBlock(t)
  \/ Write(t) \/ WriteFail(t) \/ ReleaseOne(t) \/ TUnlock(t)
  \/ (t = 0 /\ (JoinAll \/ Return))
MCSpecOne == MCInit /\ [][StepOne \/ Terminated]_vars /\ WF_vars(StepOne)
=============================================================================
