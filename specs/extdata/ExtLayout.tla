------------------------------ MODULE ExtLayout ------------------------------
(***************************************************************************)
(* C07 - external-data save/load: layout of the data files and the         *)
(* save protocol (Unload; Write (may fail); Restore-in-finally).           *)
(*                                                                         *)
(* Transcribed from                                                        *)
(*   onnx_ir/external_data.py   _align_offset, unload_from_model (split),  *)
(*                              _shard_tensors, _compute_external_data_info*)
(*                              + convert_tensors_to_external (placement), *)
(*                              _write_external_tensors (shard names)      *)
(*   onnx_ir/_shard_filename.py get_shard_filename                         *)
(*   onnx_ir/_safetensors       _save_file (threshold, shards, index),     *)
(*                              save_safetensors (location, try/finally)   *)
(*   onnx_ir/_io.py             save (snapshot, try/finally restore)       *)
(*                                                                         *)
(* This module (part 1): pure operators (configuration -> layout) and the  *)
(*         formulas of the property as predicates over (configuration,     *)
(*         layout); the same predicates are evaluated on the layouts TLC   *)
(*         computes (ExtLayoutMC) and on the layouts observed on the real  *)
(*         library (ExtLayoutTrace).                                       *)
(* ExtLayoutSave.tla (part 2): the save protocol as an action system; the  *)
(*         placement is done one tensor per step with the step operators   *)
(*         of part 1.                                                      *)
(*                                                                         *)
(* A configuration is a record                                             *)
(*   [be    : "raw" | "st"          backend                                *)
(*    sizes : Seq(Nat)              nbytes of the initializers, in         *)
(*                                  declaration order (main graph, then    *)
(*                                  the subgraphs in node order)           *)
(*    thr   : Nat                   size_threshold_bytes                   *)
(*    al    : Nat                   alignment,  NoneV = None               *)
(*    athr  : Nat                   align_threshold                        *)
(*    lim   : Nat ]                 max_shard_size_bytes, NoneV = None     *)
(* A layout is a record                                                    *)
(*   [nf    : Nat                   number of data files                   *)
(*    fsize : Seq(Nat)              size of the data section of each file  *)
(*    t     : Seq([f, o, l])        per initializer: file (0 = inline),    *)
(*                                  offset in the data section, length     *)
(*    index : BOOLEAN ]             an index file is written               *)
(***************************************************************************)
EXTENDS Integers, Sequences, FiniteSets, TLC

NoneV == 0        \* alignment / shard limit "None" (both must be > 0 when given)

Max2(a, b) == IF a >= b THEN a ELSE b

(***************************************************************************)
(* external_data._align_offset(current_offset, tensor_size, alignment,     *)
(* align_threshold)                                                        *)
(***************************************************************************)
Align(off, size, al, athr) ==
  IF al = NoneV THEN off
  ELSE IF size <= athr THEN off
  ELSE LET factor == Max2(4096, al) IN ((off + factor - 1) \div factor) * factor

(***************************************************************************)
(* Split.  raw: `nbytes > size_threshold_bytes`  (unload_from_model);      *)
(* safetensors: skipped when `nbytes < size_threshold_bytes` (_save_file). *)
(* Everything else stays (or, when it was an ExternalTensor, is loaded     *)
(* into memory and becomes) inline.                                        *)
(***************************************************************************)
IsExternal(be, size, thr) == IF be = "raw" THEN size > thr ELSE size >= thr

Idx(c) == 1..Len(c.sizes)
ExtSeq(c) == SelectSeq([i \in Idx(c) |-> i], LAMBDA i : IsExternal(c.be, c.sizes[i], c.thr))

(***************************************************************************)
(* Shard (raw).  external_data._shard_tensors: state = (shards, shard_size)*)
(*   offset = align(shard_size); if offset + nbytes > limit and shards[-1]:*)
(*   new shard, offset = 0;  append;  shard_size = offset + nbytes         *)
(***************************************************************************)
ShardInit == [shards |-> << <<>> >>, size |-> 0]

AddToLast(shards, i) == [shards EXCEPT ![Len(shards)] = Append(@, i)]

RawShardStep(st, i, c) ==
  LET sz   == c.sizes[i]
      off0 == Align(st.size, sz, c.al, c.athr)
      new  == off0 + sz > c.lim /\ Len(st.shards[Len(st.shards)]) > 0
      off  == IF new THEN 0 ELSE off0
  IN  [shards |-> IF new THEN Append(st.shards, <<i>>) ELSE AddToLast(st.shards, i),
       size   |-> off + sz]

(***************************************************************************)
(* Shard (safetensors).  _safetensors._shard_tensors:                      *)
(*   if current + nbytes > limit and current > 0: new shard, current = 0   *)
(* "impl" is that rule.  "design" starts a new shard whenever the current  *)
(* one is non-empty (the raw rule); the two differ only when the current   *)
(* shard holds nothing but zero-size tensors and the next tensor is        *)
(* oversized, and then "impl" breaks OversizeOnlyAlone (see                *)
(* ExtLayoutMC_stdev.cfg).                                                 *)
(***************************************************************************)
StShardStep(st, i, c, rule) ==
  LET sz  == c.sizes[i]
      new == /\ st.size + sz > c.lim
             /\ IF rule = "impl" THEN st.size > 0 ELSE Len(st.shards[Len(st.shards)]) > 0
      cur == IF new THEN 0 ELSE st.size
  IN  [shards |-> IF new THEN Append(st.shards, <<i>>) ELSE AddToLast(st.shards, i),
       size   |-> cur + sz]

ShardStep(st, i, c, rule) == IF c.be = "raw" THEN RawShardStep(st, i, c) ELSE StShardStep(st, i, c, rule)

RECURSIVE ShardFold(_, _, _, _)
ShardFold(st, s, c, rule) ==
  IF s = <<>> THEN st ELSE ShardFold(ShardStep(st, Head(s), c, rule), Tail(s), c, rule)

\* the groups of tensors, one per data file
Shards(c, rule) ==
  IF c.be = "st" /\ ExtSeq(c) = <<>> THEN <<>>                        \* `if tensors_to_save:` - nothing is written
  ELSE IF c.lim = NoneV THEN <<ExtSeq(c)>>                              \* one file (raw: also when it is empty)
  ELSE ShardFold(ShardInit, ExtSeq(c), c, rule).shards                \* raw with no tensor: [[]] = one empty file

(***************************************************************************)
(* Place.  convert_tensors_to_external: per file, running offset from 0:   *)
(*   info.offset = align(current); current = info.offset + info.length     *)
(* safetensors: the serializer packs the data section densely.             *)
(***************************************************************************)
PlaceInit == [off |-> 0, out |-> <<>>]

PlaceStep(pl, i, c) ==
  LET sz == c.sizes[i]
      o  == IF c.be = "raw" THEN Align(pl.off, sz, c.al, c.athr) ELSE pl.off
  IN  [off |-> o + sz, out |-> Append(pl.out, [t |-> i, o |-> o, l |-> sz])]

RECURSIVE PlaceFold(_, _, _)
PlaceFold(pl, s, c) == IF s = <<>> THEN pl ELSE PlaceFold(PlaceStep(pl, Head(s), c), Tail(s), c)

Inline == [f |-> 0, o |-> 0, l |-> 0]

LayoutOfShards(c, sh) ==
  LET placed == [k \in 1..Len(sh) |-> PlaceFold(PlaceInit, sh[k], c)]
      Where(i) == CHOOSE kp \in {<<k, p>> : k \in 1..Len(sh), p \in 1..Len(c.sizes)} :
                     kp[2] \in 1..Len(sh[kp[1]]) /\ sh[kp[1]][kp[2]] = i
  IN  [nf    |-> Len(sh),
       fsize |-> [k \in 1..Len(sh) |-> placed[k].off],
       t     |-> [i \in Idx(c) |->
                    IF \E k \in 1..Len(sh) : \E p \in 1..Len(sh[k]) : sh[k][p] = i
                    THEN LET kp == Where(i) IN
                           [f |-> kp[1], o |-> placed[kp[1]].out[kp[2]].o, l |-> placed[kp[1]].out[kp[2]].l]
                    ELSE Inline],
       index |-> c.be = "st" /\ Len(sh) > 1]

Layout(c, rule) == LayoutOfShards(c, Shards(c, rule))

(***************************************************************************)
(* File names.  A file name is [dir, parts]: parts are the dot-separated   *)
(* pieces of the base name, each [s, x] with x = "the piece is an          *)
(* extension for _is_extension_suffix" (non-empty, ASCII letter first,     *)
(* then letters, digits or '_').  get_shard_filename strips the trailing   *)
(* chain of extension suffixes (at most suffix_count of them; os.path.     *)
(* splitext never splits a name consisting of leading dots only).          *)
(***************************************************************************)
RECURSIVE NSuffix(_, _, _)
NSuffix(parts, k, budget) ==
  IF budget = 0 THEN 0
  ELSE IF k >= 2 /\ (\E j \in 1..(k - 1) : parts[j].s # "") /\ parts[k].x
       THEN 1 + NSuffix(parts, k - 1, budget - 1)
       ELSE 0

RECURSIVE JoinDots(_, _, _)
JoinDots(parts, a, b) ==          \* parts[a] . parts[a+1] . ... . parts[b]
  IF a > b THEN "" ELSE IF a = b THEN parts[a].s ELSE parts[a].s \o "." \o JoinDots(parts, a + 1, b)

Pad5(i) == IF i < 10 THEN "0000" \o ToString(i) ELSE "000" \o ToString(i)

WithDir(dir, file) == IF dir = "" THEN file ELSE dir \o "/" \o file

\* get_shard_filename(base_name, shard_idx, total_shards, suffix_count) - the file part
ShardFile(parts, i, n, sc) ==
  IF n = 1 THEN JoinDots(parts, 1, Len(parts))
  ELSE LET k    == Len(parts)
           ns   == NSuffix(parts, k, IF sc = NoneV THEN k ELSE sc)
           stem == JoinDots(parts, 1, k - ns)
           ext  == IF ns = 0 THEN "" ELSE "." \o JoinDots(parts, k - ns + 1, k)
       IN  stem \o "-" \o Pad5(i) \o "-of-" \o Pad5(n) \o ext

\* raw: the `location` recorded in the model is os.path.normpath(shard name); "." and "" are no directory
RawLocation(nm, i, n) ==
  WithDir(IF nm.dir = "." THEN "" ELSE nm.dir, ShardFile(nm.parts, i, n, NoneV))

\* safetensors: save_safetensors derives the location from the model path:
\*   splitext(basename)[0] if "." in basename else basename,  + ".safetensors", shard names with suffix_count = 1
StBaseParts(mparts) ==
  LET k == Len(mparts) IN
    IF k >= 2 /\ (\E j \in 1..(k - 1) : mparts[j].s # "") THEN SubSeq(mparts, 1, k - 1) ELSE mparts
StParts(mparts) == Append(StBaseParts(mparts), [s |-> "safetensors", x |-> TRUE])
StLocation(mparts, i, n) == ShardFile(StParts(mparts), i, n, 1)
StIndexName(mparts) == JoinDots(StBaseParts(mparts), 1, Len(StBaseParts(mparts))) \o ".safetensors.index.json"

(***************************************************************************)
(* The formulas of the property, as predicates over a configuration c, a   *)
(* layout L and `ord` (the order in which ranges must follow each other:   *)
(* the declaration order; for a safetensors file the serializer's own      *)
(* canonical order, which the binding reports).                            *)
(***************************************************************************)
Ext(L) == {i \in DOMAIN L.t : L.t[i].f # 0}
InShard(L, k) == {i \in DOMAIN L.t : L.t[i].f = k}

ThresholdRule(c, L) == \A i \in Idx(c) : (L.t[i].f # 0) <=> IsExternal(c.be, c.sizes[i], c.thr)

ExactlyOneShard(c, L) ==
  /\ DOMAIN L.t = Idx(c)
  /\ \A i \in Ext(L) : L.t[i].f \in 1..L.nf /\ L.t[i].l = c.sizes[i]

Order(c, L, ord) ==
  \A i, j \in Ext(L) : (ord[i] < ord[j] /\ L.t[i].f = L.t[j].f) => L.t[i].o + L.t[i].l <= L.t[j].o

Disjoint(c, L) ==
  \A i, j \in Ext(L) :
     (i # j /\ L.t[i].f = L.t[j].f /\ L.t[i].l > 0 /\ L.t[j].l > 0)
       => (L.t[i].o + L.t[i].l <= L.t[j].o \/ L.t[j].o + L.t[j].l <= L.t[i].o)

InFile(c, L) ==
  \A i \in Ext(L) : L.t[i].f \in 1..L.nf => (L.t[i].o >= 0 /\ L.t[i].o + L.t[i].l <= L.fsize[L.t[i].f])

\* the requested alignment is honoured for the tensors above align_threshold
Aligned(c, L) ==
  (c.be = "raw" /\ c.al # NoneV) => \A i \in Ext(L) : L.t[i].l > c.athr => L.t[i].o % c.al = 0

\* design level only: the implementation promises max(4096, alignment)
AlignedFactor(c, L) ==
  (c.be = "raw" /\ c.al # NoneV) => \A i \in Ext(L) : L.t[i].l > c.athr => L.t[i].o % Max2(4096, c.al) = 0

OversizeOnlyAlone(c, L) ==
  c.lim # NoneV => \A k \in 1..L.nf : L.fsize[k] > c.lim => Cardinality(InShard(L, k)) = 1

\* design level only
NoEmptyShard(c, L) == L.nf > 1 => \A k \in 1..L.nf : InShard(L, k) # {}
Tight(c, L) ==        \* a file ends with its last tensor; without alignment it has no holes
  \A k \in 1..L.nf :
     LET S == InShard(L, k) IN
       /\ S = {} => L.fsize[k] = 0
       /\ S # {} => \E i \in S : L.t[i].o + L.t[i].l = L.fsize[k]

IdOrd(c) == [i \in Idx(c) |-> i]

LayoutClauses(c, L, ord) ==
  [ThresholdRule |-> ThresholdRule(c, L), ExactlyOneShard |-> ExactlyOneShard(c, L),
   Order |-> Order(c, L, ord), Disjoint |-> Disjoint(c, L), InFile |-> InFile(c, L),
   Aligned |-> Aligned(c, L), OversizeOnlyAlone |-> OversizeOnlyAlone(c, L)]

AllLayoutClauses(c, L, ord) ==
  /\ ThresholdRule(c, L) /\ ExactlyOneShard(c, L) /\ Order(c, L, ord) /\ Disjoint(c, L)
  /\ InFile(c, L) /\ Aligned(c, L) /\ OversizeOnlyAlone(c, L)

=============================================================================
