----------------------------- MODULE PathContainMC -----------------------------
(***************************************************************************)
(* Model-checking harness of PathContain.                                  *)
(*                                                                         *)
(* Enumeration mode (PathContainMC_enum.cfg): the state graph is the tree  *)
(* of location strings: a root per (instance, base spelling), one action   *)
(* Extend(u) per unit u of the instance's alphabet, depth MaxUnits.  Every *)
(* state with a non-empty location is one configuration; FailClosed,       *)
(* NoOverReject*, LoadBase are evaluated on it and EmitCase prints the     *)
(* verdict of the specification (accept + inode, or reject + layer), the   *)
(* kernel's open result and the realpath, which the binding compares with  *)
(* the real library / the real kernel.  Root states print the instance     *)
(* (the binding materialises exactly these entries) and the legitimate     *)
(* files of the spelling.                                                  *)
(*                                                                         *)
(* Protocol mode (PathContainMC_proto.cfg): all histories of the public    *)
(* read calls, release, invalidate and base_dir changes of one tensor, up  *)
(* to MaxDepth calls, from a few seed configurations; NoByteBeforeCheck    *)
(* and BytesFromCheckedOpen are invariants; histories of maximal length    *)
(* are printed for replay (every shorter history is a prefix of one).      *)
(*                                                                         *)
(* The unit "ABS" (first position only) stands for the absolute prefix     *)
(* "/R" where R is the directory in which the instance lives; the model's  *)
(* "/" has no other child.                                                 *)
(***************************************************************************)
EXTENDS PathContain, Json

CONSTANTS
  InstSet,     \* instances enumerated
  SpellSet,    \* spellings enumerated
  MaxUnits,    \* bound on the number of units of a location
  ProtoInsts, ProtoSpells, ProtoLocIds, MaxDepth,
  EmitOn

R == <<"R">>
B == <<"R", "base">>
P(n) == B \o <<n>>

CommonFS == <<
  Dir(<<>>), Dir(R), Dir(B), Dir(P("sub")), Dir(<<"R", "baseX">>), Dir(<<"R", "out">>),
  File(P("in.bin"), 1), File(<<"R", "base", "sub", "in2.bin">>, 2),
  File(<<"R", "baseX", "in.bin">>, 3), File(<<"R", "out", "secret">>, 4),
  File(P("m.onnx"), 9),
  Link(<<"R", "lbase">>, <<"base">>) >>

\* instance variants (entries added to CommonFS) and the units they add to the alphabet
Variant == <<
  \* 1: nothing extra
  <<>>,
  \* 2: symbolic links to files, relative targets
  << Link(P("lf_in"), <<"in.bin">>), Link(P("lf_out"), <<"..", "out", "secret">>) >>,
  \* 3: symbolic links to files, absolute targets
  << Link(P("lf_in"), <<"", "R", "base", "sub", "in2.bin">>), Link(P("lf_out"), <<"", "R", "out", "secret">>) >>,
  \* 4: symbolic links to directories
  << Link(P("ld_in"), <<"sub">>), Link(P("ld_out"), <<"..", "out">>) >>,
  \* 5: hard links: the outside secret linked into base; an inside file linked twice inside
  << File(P("hl"), 4), File(<<"R", "base", "sub", "hl_in">>, 2) >>,
  \* 6: link chain, link to a hard-linked file, directory link to the prefix sibling
  << Link(P("lf_in"), <<"in.bin">>), Link(P("lf2"), <<"lf_in">>), File(P("hl"), 4),
     Link(P("lf_hl"), <<"hl">>), Link(P("ld_X"), <<"..", "baseX">>) >>,
  \* 7: directory links that leave base upwards (relative and absolute) - one can come back in
  << Link(P("ld_up"), <<"..">>), Link(P("ld_abs"), <<"", "R">>) >>
>>
VariantUnits == <<
  {}, {"lf_in", "lf_out"}, {"lf_in", "lf_out"}, {"ld_in", "ld_out"}, {"hl", "hl_in"},
  {"lf2", "lf_hl", "ld_X"}, {"ld_up", "ld_abs"} >>
CommonUnits == {"", ".", "..", "in.bin", "sub", "in2.bin", "base", "baseX", "out", "secret",
                "lbase", "nx", "ABS"}

MCInstFS == [i \in DOMAIN Variant |-> CommonFS \o Variant[i]]
Units(i) == CommonUnits \cup VariantUnits[i]

SpDirect(cwd, b) == [route |-> "direct", cwd |-> cwd, b |-> b, mp |-> <<"">>]
SpLoad(cwd, mp)  == [route |-> "load",   cwd |-> cwd, b |-> <<"">>, mp |-> mp]
MCSpell == <<
  SpDirect(R, <<"", "R", "base">>),               \*  1 absolute
  SpDirect(R, <<"base">>),                        \*  2 relative to the working directory
  SpDirect(R, <<"", "R", "base", "">>),           \*  3 trailing separator
  SpDirect(R, <<"", "R", "lbase">>),              \*  4 through a symbolic link
  SpDirect(B, <<".">>),                           \*  5 "."
  SpDirect(P("sub"), <<"..">>),                   \*  6 ".."
  SpDirect(R, <<".", "out", "..", "", "base">>),  \*  7 not normalised: ./out/..//base
  SpDirect(B, <<"">>),                            \*  8 empty: no boundary defined (documented)
  SpDirect(R, <<"", "", "R", "base">>),           \*  9 two leading separators
  SpDirect(R, <<"lbase", "">>),                   \* 10 relative, through the link, trailing separator
  SpLoad(B, <<"m.onnx">>),                        \* 11 bare file name
  SpLoad(B, <<".", "m.onnx">>),                   \* 12 ./m.onnx
  SpLoad(R, <<"base", "m.onnx">>),                \* 13 relative
  SpLoad(R, <<"", "R", "base", "m.onnx">>),       \* 14 absolute
  SpLoad(R, <<"lbase", "m.onnx">>),               \* 15 through a symbolic link to the directory
  SpLoad(R, <<"", "R", "lbase", "m.onnx">>),      \* 16 the same, absolute
  SpLoad(B, <<"sub", "..", "m.onnx">>),           \* 17 not normalised
  SpLoad(R, <<"base", "", "m.onnx">>),            \* 18 doubled separator
  SpDirect(R, <<"", "R", "out">>)                 \* 19 another directory (protocol mode only)
>>

ProtoLoc == << <<"in.bin">>, <<"..", "out", "secret">>, <<"secret">>, <<"lf_out">>, <<"lf_in">>, <<"nx">> >>

Fresh == arr = 0 /\ raw = 0 /\ valid = TRUE /\ hist = <<>>

\* ---------------------------------------------------------------- enumeration mode
InitEnum ==
  /\ inst \in InstSet /\ sp \in SpellSet /\ loc = <<>>
  /\ base = BaseOf(Spell[sp]) /\ Fresh

UnitComps(u) == IF u = "ABS" THEN <<"", "R">> ELSE <<u>>
NUnits(l) == IF Len(l) >= 2 /\ l[1] = "" /\ l[2] = "R" THEN Len(l) - 1 ELSE Len(l)
Extend(u) ==
  /\ NUnits(loc) < MaxUnits
  /\ u = "ABS" => loc = <<>>
  /\ loc' = loc \o UnitComps(u)
  /\ UNCHANGED <<inst, sp, base, arr, raw, valid, hist>>
NextEnum == \E u \in Units(inst) : Extend(u)

IsCase == loc # <<>>
FailClosed        == IsCase => FailClosedAt(FS, Cwd, base, loc)
NoOverRejectPlain == IsCase => NoOverRejectPlainAt(FS, Cwd, base, loc)
NoOverReject      == IsCase => NoOverRejectAt(FS, Cwd, base, loc)
LoadBase          == Spell[sp].route = "load" => LoadBaseAt(FS, Cwd, Spell[sp].mp)

SpellTable == [n \in DOMAIN Spell |-> [route |-> Spell[n].route, cwd |-> Spell[n].cwd,
                                        b |-> BaseOf(Spell[n]), mp |-> Spell[n].mp]]
RootRec == [t |-> "root", i |-> inst, s |-> sp, route |-> Spell[sp].route,
            cwd |-> Cwd, b |-> base, mp |-> Spell[sp].mp,
            legit |-> Legit(FS, Cwd, base), fs |-> FS,
            units |-> Units(inst), spells |-> SpellTable]

EmitCase ==
  EmitOn =>
    IF IsCase
      THEN PrintT(ToJson([t |-> "case", i |-> inst, s |-> sp, l |-> loc,
                          v |-> Verdict(FS, Cwd, base, loc),
                          o |-> OpenRes(FS, Cwd, base, loc),
                          rp |-> Real(FS, Cwd, Join(base, loc))]))
      ELSE PrintT(ToJson(RootRec))

\* ---------------------------------------------------------------- protocol mode
InitProto ==
  /\ inst \in ProtoInsts /\ sp \in ProtoSpells /\ \E n \in ProtoLocIds : loc = ProtoLoc[n]
  /\ base = BaseOf(Spell[sp]) /\ Fresh

NextProto ==
  /\ Len(hist) < MaxDepth
  /\ \/ Numpy \/ Array \/ ToBytes \/ ToFile("tofile_file") \/ ToFile("tofile_mem")
     \/ Convert \/ Release \/ Invalidate
     \/ \E s \in ProtoSpells : SetBase(s)

EmitHist ==
  EmitOn =>
    IF hist = <<>> THEN PrintT(ToJson(RootRec))
    ELSE IF Len(hist) = MaxDepth
      THEN PrintT(ToJson([t |-> "hist", i |-> inst, s |-> sp, l |-> loc, h |-> hist]))
      ELSE TRUE
=============================================================================
