----------------------------- MODULE PathContainMC -----------------------------
(***************************************************************************)
(* Model-checking harness of PathContain.                                  *)
(*                                                                         *)
(* Enumeration mode (PathContainMC_enum.cfg): the state graph is the tree  *)
(* of location strings: a root per (instance, base spelling), one action   *)
(* Extend(u) per unit u of the instance's alphabet, depth MaxUnits.  Every *)
(* state with a non-empty location is one configuration; FailClosed,       *)
(* NoOverReject*, LoadBase are evaluated on it and EmitCase prints the     *)
(* verdict of the specification (accept + inode, or reject + layer), the   *)
(* kernel's open result and the realpath, which the binding compares with  *)
(* the real library / the real kernel.  Root states print the instance     *)
(* (the binding materialises exactly these entries) and the legitimate     *)
(* files of the spelling.                                                  *)
(*                                                                         *)
(* Protocol mode (PathContainMC_proto.cfg): all histories of the public    *)
(* read calls, release, invalidate and base_dir changes of one tensor, up  *)
(* to MaxDepth calls, from a few seed configurations; NoByteBeforeCheck    *)
(* and BytesFromCheckedOpen are invariants; histories of maximal length    *)
(* are printed for replay (every shorter history is a prefix of one).      *)
(*                                                                         *)
(* The unit "ABS" (first position only) stands for the absolute prefix     *)
(* "/R" where R is the directory in which the instance lives; the model's  *)
(* "/" has no other child.                                                 *)
(***************************************************************************)
EXTENDS PathContain, Json

CONSTANTS
  InstSet,     \* instances enumerated
  SpellSet,    \* spellings enumerated
  MaxUnits,    \* bound on the number of units of a location
  ProtoInsts, ProtoSpells, ProtoLocIds, MaxDepth,
  EmitOn

AllPlacements == Placements
\* the traversal as pinned: set_base_dir(model.graph) only - function bodies are not visited
PinnedReach == Placements \ {"function-node-attribute", "function-subgraph-initializer"}

R == <<"R">>
B == <<"R", "base">>
P(n) == B \o <<n>>

CommonFS == <<
  Dir(<<>>), Dir(R), Dir(B), Dir(P("sub")), Dir(<<"R", "baseX">>), Dir(<<"R", "out">>),
  File(P("in.bin"), 1), File(<<"R", "base", "sub", "in2.bin">>, 2),
  File(<<"R", "baseX", "in.bin">>, 3), File(<<"R", "out", "secret">>, 4),
  \* a sibling whose name differs from base's only by letter case (the file systems here are case sensitive)
  Dir(<<"R", "BASE">>), File(<<"R", "BASE", "in.bin">>, 6),
  File(P("m.onnx"), 9),
  File(<<"R", "top">>, 5),   \* a file in the parent of base: reached by "<directory link that leaves base>/../top"
  Link(<<"R", "lbase">>, <<"base">>),
  \* a link in ANOTHER directory to a sub-directory of base: "lsub/.." is base for the kernel, "." for a textual
  \* normalisation
  Link(<<"R", "out", "lsub">>, <<"..", "base", "sub">>) >>

\* instance variants (entries added to CommonFS) and the units they add to the alphabet
Variant == <<
  \* 1: nothing extra
  <<>>,
  \* 2: symbolic links to files, relative targets
  << Link(P("lf_in"), <<"in.bin">>), Link(P("lf_out"), <<"..", "out", "secret">>) >>,
  \* 3: symbolic links to files, absolute targets
  << Link(P("lf_in"), <<"", "R", "base", "sub", "in2.bin">>), Link(P("lf_out"), <<"", "R", "out", "secret">>) >>,
  \* 4: symbolic links to directories
  << Link(P("ld_in"), <<"sub">>), Link(P("ld_out"), <<"..", "out">>) >>,
  \* 5: hard links: the outside secret linked into base; an inside file linked twice inside
  << File(P("hl"), 4), File(<<"R", "base", "sub", "hl_in">>, 2) >>,
  \* 6: link chain, link to a hard-linked file, directory link to the prefix sibling
  << Link(P("lf_in"), <<"in.bin">>), Link(P("lf2"), <<"lf_in">>), File(P("hl"), 4),
     Link(P("lf_hl"), <<"hl">>), Link(P("ld_X"), <<"..", "baseX">>) >>,
  \* 7: directory links that leave base upwards (relative and absolute) - one can come back in
  << Link(P("ld_up"), <<"..">>), Link(P("ld_abs"), <<"", "R">>) >>
>>
VariantUnits == <<
  <<>>, <<"lf_in", "lf_out">>, <<"lf_in", "lf_out">>, <<"ld_in", "ld_out">>, <<"hl", "hl_in">>,
  <<"lf2", "lf_hl", "ld_X">>, <<"ld_up", "ld_abs">> >>
CommonUnits == <<"", ".", "..", "in.bin", "sub", "in2.bin", "base", "baseX", "BASE", "out", "secret",
                 "lbase", "nx", "top", "ABS">>

MCEntries == [i \in DOMAIN Variant |-> CommonFS \o Variant[i]]
MCInstFS  == [i \in DOMAIN Variant |->
                [p \in {MCEntries[i][n].p : n \in DOMAIN MCEntries[i]} |->
                    MCEntries[i][CHOOSE n \in DOMAIN MCEntries[i] : MCEntries[i][n].p = p]]]
UnitSeq == [i \in DOMAIN Variant |-> CommonUnits \o VariantUnits[i]]

SpDirect(nm, cwd, b) == [name |-> nm, route |-> "direct", cwd |-> cwd, b |-> b, mp |-> <<"">>]
SpLoad(nm, cwd, mp)  == [name |-> nm, route |-> "load",   cwd |-> cwd, b |-> <<"">>, mp |-> mp]
MCSpell == <<
  SpDirect("abs", R, <<"", "R", "base">>),               \*  1 absolute
  SpDirect("rel", R, <<"base">>),                        \*  2 relative to the working directory
  SpDirect("trailing-sep", R, <<"", "R", "base", "">>),           \*  3 trailing separator
  SpDirect("via-symlink", R, <<"", "R", "lbase">>),              \*  4 through a symbolic link
  SpDirect("dot", B, <<".">>),                           \*  5 "."
  SpDirect("dotdot", P("sub"), <<"..">>),                   \*  6 ".."
  SpDirect("non-normalised", R, <<".", "out", "..", "", "base">>),  \*  7 not normalised: ./out/..//base
  SpDirect("empty", B, <<"">>),                            \*  8 empty: no boundary defined (documented)
  SpDirect("double-slash", R, <<"", "", "R", "base">>),           \*  9 two leading separators
  SpDirect("rel-symlink-trailing", R, <<"lbase", "">>),                   \* 10 relative, through the link, trailing separator
  SpLoad("bare-name", B, <<"m.onnx">>),                        \* 11 bare file name
  SpLoad("dot-slash", B, <<".", "m.onnx">>),                   \* 12 ./m.onnx
  SpLoad("rel", R, <<"base", "m.onnx">>),                \* 13 relative
  SpLoad("abs", R, <<"", "R", "base", "m.onnx">>),       \* 14 absolute
  SpLoad("via-symlink-rel", R, <<"lbase", "m.onnx">>),               \* 15 through a symbolic link to the directory
  SpLoad("via-symlink-abs", R, <<"", "R", "lbase", "m.onnx">>),      \* 16 the same, absolute
  SpLoad("non-normalised", B, <<"sub", "..", "m.onnx">>),           \* 17 not normalised
  SpLoad("doubled-sep", R, <<"base", "", "m.onnx">>),            \* 18 doubled separator
  SpDirect("other-dir", R, <<"", "R", "out">>),                \* 19 another directory (protocol mode only)
  SpLoad("via-dirlink-dotdot", <<"R", "out">>, <<"lsub", "..", "m.onnx">>)   \* 20 <link to a sub-directory>/..  (cwd elsewhere)
>>

ProtoLoc == << <<"in.bin">>, <<"..", "out", "secret">>, <<"secret">>, <<"lf_out">>, <<"lf_in">>, <<"nx">> >>

VARIABLE cases   \* enumeration mode: the evaluated configurations loc \o u, one per unit u
allvars == <<inst, sp, loc, base, arr, raw, valid, hist, cases>>

Fresh == arr = 0 /\ raw = 0 /\ valid = TRUE /\ hist = <<>>

\* ---------------------------------------------------------------- enumeration mode
UnitComps(u) == IF u = "ABS" THEN <<"", "R">> ELSE <<u>>
NUnits(l) == IF Len(l) >= 2 /\ l[1] = "" /\ l[2] = "R" THEN Len(l) - 1 ELSE Len(l)

\* one configuration (instance, spelling, location l): the verdict of the specification, the
\* kernel's open result, the realpath, and the property formulas evaluated on it
CaseEval(C, lg, l) ==
  LET e == Eval(C, l) IN
  [l |-> l, v |-> VerdictOf(e), o |-> e.o, rp |-> e.rp, kp |-> e.kp,
   fc   |-> FailClosedAt(C, lg, e),
   norp |-> NoOverRejectPlainAt(C, l, e),
   nor  |-> NoOverRejectAt(C, lg, e)]

\* the configurations that extend location l by one unit ("ABS" only in first position)
ChildUnits(l) == SelectSeq(UnitSeq[inst], LAMBDA u : u # "ABS" \/ l = <<>>)
Children(l) ==
  LET us == ChildUnits(l)
      C  == Ctx(FS, Cwd, base)
      lg == LegitOf(C)
  IN [n \in DOMAIN us |-> CaseEval(C, lg, l \o UnitComps(us[n]))]

InitEnum ==
  /\ inst \in InstSet /\ sp \in SpellSet /\ loc = <<>>
  /\ base = BaseOf(Spell[sp]) /\ Fresh
  /\ cases = Children(<<>>)

\* a state is a location prefix of at most MaxUnits-1 units carrying its evaluated extensions
Extend(u) ==
  /\ NUnits(loc) < MaxUnits - 1
  /\ u = "ABS" => loc = <<>>
  /\ loc' = loc \o UnitComps(u)
  /\ cases' = Children(loc')
  /\ UNCHANGED <<inst, sp, base, arr, raw, valid, hist>>
NextEnum == \E n \in DOMAIN UnitSeq[inst] : Extend(UnitSeq[inst][n])

FailClosed        == \A n \in DOMAIN cases : cases[n].fc
NoOverRejectPlain == \A n \in DOMAIN cases : cases[n].norp
NoOverReject      == \A n \in DOMAIN cases : cases[n].nor
LoadBase          == Spell[sp].route = "load" => LoadBaseEverywhereAt(FS, Cwd, Spell[sp].mp)
\* sanity of the model itself: whenever the kernel resolves the joined path, realpath names the
\* same object (the check looks at the file that open() will reach)
RealpathAgreesWithKernel ==
  \A n \in DOMAIN cases : cases[n].kp.ok => cases[n].kp.p = cases[n].rp

SpellTable == [n \in DOMAIN Spell |-> [name |-> Spell[n].name, route |-> Spell[n].route, cwd |-> Spell[n].cwd,
                                        b |-> BaseOf(Spell[n]), mp |-> Spell[n].mp]]
RootRec == [t |-> "root", i |-> inst, s |-> sp, name |-> Spell[sp].name, route |-> Spell[sp].route,
            cwd |-> Cwd, b |-> base, mp |-> Spell[sp].mp,
            legit |-> Legit(FS, Cwd, base), fs |-> MCEntries[inst],
            units |-> UnitSeq[inst], spells |-> SpellTable]

Compact(c) == <<c.l, c.v.k, c.v.f, c.v.why, c.o.f, c.o.err, c.rp>>
EmitCase ==
  EmitOn =>
    /\ loc = <<>> => PrintT(ToJson(RootRec))
    /\ PrintT(ToJson([t |-> "cases", i |-> inst, s |-> sp,
                      cs |-> [n \in DOMAIN cases |-> Compact(cases[n])]]))

\* ---------------------------------------------------------------- protocol mode
InitProto ==
  /\ inst \in ProtoInsts /\ sp \in ProtoSpells /\ \E n \in ProtoLocIds : loc = ProtoLoc[n]
  /\ base = BaseOf(Spell[sp]) /\ Fresh /\ cases = <<>>

\* one disjunct per public call, so that TLC's coverage reports each of them
More == Len(hist) < MaxDepth
PNumpy      == More /\ Numpy /\ UNCHANGED cases
PArray      == More /\ Array /\ UNCHANGED cases
PToBytes    == More /\ ToBytes /\ UNCHANGED cases
PToFileFile == More /\ ToFile("tofile_file") /\ UNCHANGED cases
PToFileMem  == More /\ ToFile("tofile_mem") /\ UNCHANGED cases
PConvert    == More /\ Convert /\ UNCHANGED cases
PRelease    == More /\ Release /\ UNCHANGED cases
PInvalidate == More /\ Invalidate /\ UNCHANGED cases
PSetBase    == More /\ (\E s \in ProtoSpells : SetBase(s)) /\ UNCHANGED cases
NextProto ==
  \/ PNumpy \/ PArray \/ PToBytes \/ PToFileFile \/ PToFileMem
  \/ PConvert \/ PRelease \/ PInvalidate \/ PSetBase

EmitHist ==
  EmitOn =>
    IF hist = <<>> THEN PrintT(ToJson(RootRec))
    ELSE IF Len(hist) = MaxDepth
      THEN PrintT(ToJson([t |-> "hist", i |-> inst, s |-> sp, l |-> loc, h |-> hist]))
      ELSE TRUE
=============================================================================
