------------------------------ MODULE PathContain ------------------------------
(***************************************************************************)
(* C10 - external tensor reads never escape the model directory.           *)
(*                                                                         *)
(* The environment: a tiny POSIX file-system instance (directories, files  *)
(* with inode numbers, symbolic links with relative or absolute targets,   *)
(* hard links = two entries with the same inode) and pure operators that   *)
(* transcribe, on component sequences,                                     *)
(*   os.path.join / normpath / abspath / dirname  (posixpath, CPython 3.12)*)
(*   os.path.realpath (non strict: _joinrealpath)                          *)
(*   the kernel's path walk used by open(2)        (KRes)                  *)
(*   st_nlink                                                              *)
(* The code: ExternalTensor._check_path_containment as three layers in     *)
(* code order (Check), the loaders _load / tofile (check, then open the    *)
(* RAW joined path), the caches _array / raw, release(), the base_dir      *)
(* setter, invalidate(), and the derivation of base_dir by ir.load.        *)
(*                                                                         *)
(* A path STRING is the non-empty sequence of its "/"-separated pieces:    *)
(*   "a/b" = <<"a","b">>  "/a" = <<"","a">>  "a/" = <<"a","">>             *)
(*   ""    = <<"">>       "/"  = <<"","">>   "a//b" = <<"a","","b">>       *)
(* so that the string is recovered by joining with "/" (a bijection).      *)
(* A PHYSICAL path is the sequence of names from the root (<<>> = "/").    *)
(***************************************************************************)
EXTENDS Naturals, Sequences, FiniteSets, TLC

CONSTANTS
  InstFS,    \* sequence of file-system instances; an instance is a function
             \* physical path -> entry (Dir / File / Link)
  Spell,     \* sequence of base spellings [name, route, cwd, b, mp]  (cwd physical; b, mp strings)
  LoadFix,   \* TRUE: ir.load derives  dirname(path) or "."  (the intended design)
             \* FALSE: ir.load derives dirname(path)          (the code as pinned)
  LoadReach  \* the placements of an external tensor inside a model that ir.load's traversal reaches
             \* (the intended design: all of Placements)

Fuel == 8    \* bound on symbolic-link expansions in one walk (instances are loop free)

\* ---------------------------------------------------------------- file-system entries
Dir(p)     == [p |-> p, k |-> "dir",  ino |-> 0, to |-> <<>>]
File(p, i) == [p |-> p, k |-> "file", ino |-> i, to |-> <<>>]
Link(p, t) == [p |-> p, k |-> "link", ino |-> 0, to |-> t]
NoEntry    == [p |-> <<>>, k |-> "none", ino |-> 0, to |-> <<>>]

Entry(I, p) == IF p \in DOMAIN I THEN I[p] ELSE NoEntry
Kind(I, p)  == Entry(I, p).k
NLink(I, i) == Cardinality({q \in DOMAIN I : I[q].k = "file" /\ I[q].ino = i})

\* ---------------------------------------------------------------- strings (posixpath)
PFront(s)   == SubSeq(s, 1, Len(s) - 1)
PParent(p)  == IF p = <<>> THEN <<>> ELSE PFront(p)
IsAbsS(s)   == Len(s) >= 2 /\ s[1] = ""            \* s.startswith("/")
IsEmptyS(s) == s = <<"">>                          \* s == ""
EndsSep(s)  == Len(s) >= 2 /\ s[Len(s)] = ""       \* s.endswith("/")
IsStrictPrefix(a, b) == Len(a) < Len(b) /\ SubSeq(b, 1, Len(a)) = a

\* os.path.join(a, b): an absolute b wins; no separator added after "" or a trailing "/"
Join(a, b) ==
  IF IsAbsS(b) THEN b
  ELSE IF IsEmptyS(a) THEN b
  ELSE IF EndsSep(a) THEN PFront(a) \o b
  ELSE a \o b

\* number of leading "/" characters of a string
RECURSIVE LeadEmpty(_, _)
LeadEmpty(s, n) == IF n < Len(s) /\ s[n + 1] = "" THEN LeadEmpty(s, n + 1) ELSE n
Slashes(s) == LET e == LeadEmpty(s, 0) IN IF e = Len(s) THEN e - 1 ELSE e
\* normpath keeps exactly two leading slashes, collapses three or more to one
InitialSlashes(s) == LET n == Slashes(s) IN IF n = 0 THEN 0 ELSE IF n = 2 THEN 2 ELSE 1

\* os.path.normpath: lexical elimination of "", "." and ".." (no file-system access)
RECURSIVE NormAcc(_, _, _, _)
NormAcc(s, n, lead, acc) ==
  IF n > Len(s) THEN acc
  ELSE LET c == s[n] IN
    IF c = "" \/ c = "." THEN NormAcc(s, n + 1, lead, acc)
    ELSE IF c # ".." \/ (lead = 0 /\ acc = <<>>) \/ (acc # <<>> /\ acc[Len(acc)] = "..")
      THEN NormAcc(s, n + 1, lead, Append(acc, c))
    ELSE IF acc # <<>> THEN NormAcc(s, n + 1, lead, PFront(acc))
    ELSE NormAcc(s, n + 1, lead, acc)
\* result: [lead |-> number of leading slashes, c |-> names]; (0, <<>>) is "."
NormPath(s) == LET l == InitialSlashes(s) IN [lead |-> l, c |-> NormAcc(s, 1, l, <<>>)]

CwdS(cwd) == <<"">> \o cwd                          \* the string of the (physical) cwd
\* os.path.abspath(s) with the given working directory
Abs(cwd, s) == NormPath(IF IsAbsS(s) THEN s ELSE Join(CwdS(cwd), s))

\* os.path.dirname
RECURSIVE StripSeps(_)
StripSeps(f) == IF f # <<>> /\ f[Len(f)] = "" THEN StripSeps(PFront(f)) ELSE f
AllEmpty(f)  == \A n \in DOMAIN f : f[n] = ""
Dirname(s) ==
  IF Len(s) = 1 THEN <<"">>
  ELSE LET f == PFront(s) IN IF AllEmpty(f) THEN f \o <<"">> ELSE StripSeps(f)

\* ---------------------------------------------------------------- the kernel's walk (open(2), stat(2))
KOk(p)   == [ok |-> TRUE,  p |-> p,   err |-> "-"]
KErr(e)  == [ok |-> FALSE, p |-> <<>>, err |-> e]

RECURSIVE KWalk(_, _, _, _)
KWalk(I, cur, rest, fuel) ==
  IF rest = <<>> THEN KOk(cur)
  ELSE IF Kind(I, cur) # "dir" THEN KErr("ENOTDIR")    \* a further component (even "" or ".") needs a directory
  ELSE LET c == Head(rest)  t == Tail(rest) IN
    IF c = "" \/ c = "." THEN KWalk(I, cur, t, fuel)
    ELSE IF c = ".." THEN KWalk(I, PParent(cur), t, fuel)
    ELSE LET ch == Append(cur, c)  k == Kind(I, ch) IN
      IF k = "none" THEN KErr("ENOENT")
      ELSE IF k = "link" THEN
        IF fuel = 0 THEN KErr("ELOOP")
        ELSE LET tg == Entry(I, ch).to IN
          IF IsEmptyS(tg) THEN KErr("ENOENT")
          ELSE KWalk(I, IF IsAbsS(tg) THEN <<>> ELSE cur, tg \o t, fuel - 1)
      ELSE KWalk(I, ch, t, fuel)

\* resolution of a path string by the kernel (final symbolic link followed)
KRes(I, cwd, s) ==
  IF IsEmptyS(s) THEN KErr("ENOENT")
  ELSE KWalk(I, IF IsAbsS(s) THEN <<>> ELSE cwd, s, Fuel)

\* ---------------------------------------------------------------- os.path.realpath (strict=False)
\* _joinrealpath: "..", applied to the already resolved prefix, is lexical; a component that does
\* not exist (or whose parent is not a directory) is not a link and is appended as it is.
RECURSIVE RWalk(_, _, _, _)
RWalk(I, cur, rest, fuel) ==
  IF rest = <<>> \/ fuel = 0 THEN cur
  ELSE LET c == Head(rest)  t == Tail(rest) IN
    IF c = "" \/ c = "." THEN RWalk(I, cur, t, fuel)
    ELSE IF c = ".." THEN RWalk(I, PParent(cur), t, fuel)
    ELSE LET np == Append(cur, c) IN
      IF Kind(I, np) = "link"
        THEN LET tg == Entry(I, np).to IN
             RWalk(I, IF IsAbsS(tg) THEN <<>> ELSE cur, tg \o t, fuel - 1)
        ELSE RWalk(I, np, t, fuel)
\* the result is always a single-slash absolute path: given as physical path
Real(I, cwd, s) == RWalk(I, IF IsAbsS(s) THEN <<>> ELSE cwd, s, Fuel)

\* ---------------------------------------------------------------- the code: _check_path_containment
Pass       == [ok |-> TRUE,  why |-> "-"]
Fail(w)    == [ok |-> FALSE, why |-> w]
Under(lead1, p, lead2, b) == (lead1 = lead2 /\ p = b) \/ (lead1 = lead2 /\ IsStrictPrefix(b, p))

\* everything that depends on (instance, working directory, base_dir) only
Ctx(I, cwd, b) ==
  [I |-> I, cwd |-> cwd, b |-> b,
   babs  |-> Abs(cwd, b),        \* normcase(normpath(abspath(base_dir)))
   breal |-> Real(I, cwd, b),    \* normcase(realpath(base_dir))
   kb    |-> KRes(I, cwd, b)]    \* where the kernel finds the base directory (ground truth)

\* one evaluation of _check_path_containment followed by open(self.path):
\*   layer 1: path_abs == base_abs or path_abs.startswith(base_abs + "/")   (strings, not resolved)
\*   layer 2: the same on realpath(base_dir) and realpath(path)
\*   layer 3: os.stat(path_real).st_nlink > 1 (a failing stat counts as 1).  The link count of a
\*            directory is file-system dependent (>= 2 on ext4/tmpfs, 1 on btrfs): a directory is
\*            its own class, refused either here or by open() (EISDIR).
\*   open:    the RAW joined path, resolved by the kernel
Eval(C, loc) ==
  LET path  == Join(C.b, loc)
      pabs  == Abs(C.cwd, path)
      preal == Real(C.I, C.cwd, path)
      lex   == Under(pabs.lead, pabs.c, C.babs.lead, C.babs.c)
      rin   == Under(1, preal, 1, C.breal)
      re    == Entry(C.I, preal)
      lc    == IF re.k = "file" THEN (IF NLink(C.I, re.ino) > 1 THEN "nlink" ELSE "-")
               ELSE IF re.k = "dir" THEN "dir" ELSE "-"
      chk   == IF IsEmptyS(C.b) THEN Pass            \* "if not self._base_dir: return"
               ELSE IF ~lex THEN Fail("lexical")
               ELSE IF ~rin THEN Fail("realpath")
               ELSE IF lc # "-" THEN Fail(lc) ELSE Pass
      kp    == KRes(C.I, C.cwd, path)
      ke    == Entry(C.I, kp.p)
      opn   == IF ~kp.ok THEN [f |-> 0, err |-> kp.err]
               ELSE IF ke.k = "file" THEN [f |-> ke.ino, err |-> "-"] ELSE [f |-> 0, err |-> "EISDIR"]
  IN [path |-> path, lex |-> lex, chk |-> chk, o |-> opn, kp |-> kp, rp |-> preal]

Check(I, cwd, b, loc)   == Eval(Ctx(I, cwd, b), loc).chk
OpenRes(I, cwd, b, loc) == Eval(Ctx(I, cwd, b), loc).o

\* outcome of one uncached read (every loader: check, then open)
Acc(f)  == [k |-> "acc", f |-> f, why |-> "-"]
Rej(w)  == [k |-> "rej", f |-> 0, why |-> w]
VerdictOf(e) == IF ~e.chk.ok THEN Rej(e.chk.why) ELSE IF e.o.f = 0 THEN Rej(e.o.err) ELSE Acc(e.o.f)
Verdict(I, cwd, b, loc) == VerdictOf(Eval(Ctx(I, cwd, b), loc))

\* ---------------------------------------------------------------- what the property demands
\* the files a read may return under base spelling b: singly linked regular files whose physical
\* location is strictly inside the physical base directory (kernel semantics, not the code's)
LegitOf(C) ==
  IF ~C.kb.ok THEN {}
  ELSE {C.I[q].ino : q \in {m \in DOMAIN C.I : C.I[m].k = "file" /\ IsStrictPrefix(C.kb.p, m)
                                               /\ NLink(C.I, C.I[m].ino) = 1}}
Legit(I, cwd, b) == LegitOf(Ctx(I, cwd, b))

\* C: context, lg = LegitOf(C), e = Eval(C, loc)
FailClosedAt(C, lg, e) ==
  (VerdictOf(e).k = "acc" /\ ~IsEmptyS(C.b)) =>
     /\ e.o.f \in lg
     /\ e.kp.ok /\ C.kb.ok /\ IsStrictPrefix(C.kb.p, e.kp.p) /\ Kind(C.I, e.kp.p) = "file"

\* documented allowed case 1: plain names (no "", ".", "..", no link on the way) inside base
PlainName(c) == c # "" /\ c # "." /\ c # ".."
NoOverRejectPlainAt(C, loc, e) ==
  LET tp == C.kb.p \o loc IN
  (/\ ~IsEmptyS(C.b) /\ C.kb.ok /\ \A n \in DOMAIN loc : PlainName(loc[n])
   /\ \A n \in 1..(Len(loc) - 1) : Kind(C.I, C.kb.p \o SubSeq(loc, 1, n)) = "dir"
   /\ Kind(C.I, tp) = "file" /\ NLink(C.I, Entry(C.I, tp).ino) = 1)
  => VerdictOf(e) = Acc(Entry(C.I, tp).ino)
\* allowed case 2 (what the code grants, stated): every location that is lexically inside and
\* that the kernel resolves to a legitimate file is readable - non-normalised forms and symbolic
\* links (to files or directories) whose target stays inside base included
NoOverRejectAt(C, lg, e) ==
  (~IsEmptyS(C.b) /\ e.lex /\ e.o.f # 0 /\ e.o.f \in lg) => VerdictOf(e) = Acc(e.o.f)

\* where an external tensor can sit in a model (every one of them is read through the same
\* access paths, so ir.load has to hand the base directory to all of them)
Placements == {"initializer", "node-attribute", "tensors-attribute", "subgraph-initializer",
               "subgraph-node-attribute", "nested-subgraph-node-attribute", "nested-subgraph-initializer",
               "function-node-attribute", "function-subgraph-initializer"}
\* ir.load(path): base_dir of every external tensor of the model
LoadBaseDir(mp) == LET d == Dirname(mp) IN IF LoadFix /\ IsEmptyS(d) THEN <<".">> ELSE d
\* ... must be a non-empty spelling of the directory that holds the model file
LoadBaseAt(I, cwd, mp) ==
  LET b == LoadBaseDir(mp)  m == KRes(I, cwd, mp)  d == KRes(I, cwd, b) IN
  ~IsEmptyS(b) /\ m.ok /\ d.ok /\ d.p = PParent(m.p)
\* a tensor the traversal does not reach keeps the deserializer's default base_dir "" (no boundary)
LoadBaseDirOf(mp, pl) == IF pl \in LoadReach THEN LoadBaseDir(mp) ELSE <<"">>
LoadBaseEverywhereAt(I, cwd, mp) ==
  LoadBaseAt(I, cwd, mp) /\ \A pl \in Placements : LoadBaseDirOf(mp, pl) = LoadBaseDir(mp)

\* the base spelling in effect for spelling record s
BaseOf(s) == IF s.route = "load" THEN LoadBaseDir(s.mp) ELSE s.b

\* ---------------------------------------------------------------- the access protocol of one tensor
VARIABLES
  inst,    \* index into InstFS
  sp,      \* index into Spell: fixes the working directory (and the initial base_dir)
  loc,     \* the location string (immutable attribute of the tensor; grown by the enumerator)
  base,    \* base_dir, mutable (set_base_dir / the setter)
  arr,     \* the _array cache: 0 or the inode whose bytes it holds
  raw,     \* the mmap cache: 0 or the inode
  valid,   \* not invalidated
  hist     \* history of public calls: [c, a, base, r, ev]
vars == <<inst, sp, loc, base, arr, raw, valid, hist>>

FS  == InstFS[inst]
Cwd == Spell[sp].cwd

CheckEv(ok) == [e |-> "check", b |-> base, ok |-> ok, f |-> 0]
OpenEv(f)   == [e |-> "open",  b |-> base, ok |-> f # 0, f |-> f]

\* _load() / the body of tofile(): events in code order and the result
Load ==
  LET e == Eval(Ctx(FS, Cwd, base), loc) IN
  IF ~e.chk.ok THEN [ev |-> <<CheckEv(FALSE)>>, r |-> VerdictOf(e)]
  ELSE [ev |-> <<CheckEv(TRUE), OpenEv(e.o.f)>>, r |-> VerdictOf(e)]

Record(c, a, r, ev) == hist' = Append(hist, [c |-> c, a |-> a, base |-> base, r |-> r, ev |-> ev])

\* numpy() and __array__(): validity, cached array, else _load
ReadArray(c) ==
  /\ IF ~valid THEN Record(c, 0, Rej("invalid"), <<>>) /\ UNCHANGED <<arr, raw>>
     ELSE IF arr # 0 THEN Record(c, 0, Acc(arr), <<>>) /\ UNCHANGED <<arr, raw>>
     ELSE LET l == Load IN
          /\ Record(c, 0, l.r, l.ev)
          /\ arr' = l.r.f /\ raw' = IF l.r.k = "acc" THEN l.r.f ELSE raw
  /\ UNCHANGED <<inst, sp, loc, base, valid>>
Numpy == ReadArray("numpy")
Array == ReadArray("array")

\* tobytes(): validity, cached mmap, else _load
ToBytes ==
  /\ IF ~valid THEN Record("tobytes", 0, Rej("invalid"), <<>>) /\ UNCHANGED <<arr, raw>>
     ELSE IF raw # 0 THEN Record("tobytes", 0, Acc(raw), <<>>) /\ UNCHANGED <<arr, raw>>
     ELSE LET l == Load IN
          /\ Record("tobytes", 0, l.r, l.ev)
          /\ arr' = l.r.f /\ raw' = IF l.r.k = "acc" THEN l.r.f ELSE raw
  /\ UNCHANGED <<inst, sp, loc, base, valid>>

\* tofile(dest): validity, check, open - never cached.  dest: "tofile_file" (copy_file_range) | "tofile_mem"
ToFile(dest) ==
  /\ IF ~valid THEN Record(dest, 0, Rej("invalid"), <<>>)
     ELSE LET l == Load IN Record(dest, 0, l.r, l.ev)
  /\ UNCHANGED <<inst, sp, loc, base, arr, raw, valid>>

\* convert_tensors_from_external / load_to_model: numpy().copy() then release(); the copy is
\* what serialisation to raw bytes writes
Convert ==
  /\ IF ~valid THEN Record("convert", 0, Rej("invalid"), <<>>) /\ UNCHANGED <<arr, raw>>
     ELSE IF arr # 0 THEN Record("convert", 0, Acc(arr), <<>>) /\ arr' = 0 /\ raw' = 0
     ELSE LET l == Load IN
          /\ Record("convert", 0, l.r, l.ev)
          /\ arr' = 0 /\ raw' = IF l.r.k = "acc" THEN 0 ELSE raw
  /\ UNCHANGED <<inst, sp, loc, base, valid>>

Release ==
  /\ arr' = 0 /\ raw' = 0
  /\ Record("release", 0, [k |-> "ok", f |-> 0, why |-> "-"], <<>>)
  /\ UNCHANGED <<inst, sp, loc, base, valid>>

SetBase(s) ==   \* tensor.base_dir = ... / external_data.set_base_dir(graph, ...)
  /\ base' = BaseOf(Spell[s])
  /\ Record("setbase", s, [k |-> "ok", f |-> 0, why |-> "-"], <<>>)
  /\ UNCHANGED <<inst, sp, loc, arr, raw, valid>>

Invalidate ==
  /\ valid' = FALSE
  /\ Record("invalidate", 0, [k |-> "ok", f |-> 0, why |-> "-"], <<>>)
  /\ UNCHANGED <<inst, sp, loc, base, arr, raw>>

\* every open is immediately preceded, in the same call, by a passing check made with the
\* base_dir in effect for that call
NoByteBeforeCheck ==
  \A n \in DOMAIN hist : \A j \in DOMAIN hist[n].ev :
     hist[n].ev[j].e = "open" =>
        /\ j > 1
        /\ hist[n].ev[j - 1].e = "check" /\ hist[n].ev[j - 1].ok
        /\ hist[n].ev[j - 1].b = hist[n].ev[j].b /\ hist[n].ev[j].b = hist[n].base
\* every byte returned or cached came through an open that followed a passing check; with a
\* non-empty base_dir at the time of that check it belongs to a legitimate file of that base
CheckedOpens ==
  UNION { { <<hist[n].ev[j].b, hist[n].ev[j].f>> :
              j \in {q \in DOMAIN hist[n].ev : hist[n].ev[q].e = "open" /\ hist[n].ev[q].f # 0} } :
          n \in DOMAIN hist }
BytesFromCheckedOpen ==
  /\ \A n \in DOMAIN hist : hist[n].r.k = "acc" => \E o \in CheckedOpens : o[2] = hist[n].r.f
  /\ arr # 0 => \E o \in CheckedOpens : o[2] = arr
  /\ raw # 0 => \E o \in CheckedOpens : o[2] = raw
  /\ \A o \in CheckedOpens : ~IsEmptyS(o[1]) => o[2] \in Legit(FS, Cwd, o[1])
=============================================================================
