--------------------------- MODULE ExtLayoutSaveMC ---------------------------
(***************************************************************************)
(* Model-checking configuration of the save protocol (ExtLayoutSave):      *)
(* every small configuration x every failure point, all steps.             *)
(***************************************************************************)
EXTENDS ExtLayoutSave

CONSTANTS PSizes, PMaxLen, PThr, PAl, PAthr, PLim

PTuples == UNION {[1..n -> PSizes] : n \in 0..PMaxLen}
PCfgs ==
  {[be |-> be, sizes |-> s, thr |-> thr, al |-> al, athr |-> athr, lim |-> lim, wasExt |-> w, fail |-> f] :
     be \in {"raw", "st"}, s \in PTuples, thr \in PThr, al \in PAl, athr \in PAthr, lim \in PLim,
     w \in UNION {[1..n -> BOOLEAN] : n \in 0..PMaxLen}, f \in 0..(PMaxLen + 1)}
PValid(c) ==
  /\ Len(c.wasExt) = Len(c.sizes)
  /\ c.fail <= Len(c.sizes) + 1
  /\ (c.fail \in 1..Len(c.sizes) => ~c.wasExt[c.fail])
  /\ (c.be = "st" => c.al = NoneV /\ c.athr = 0)
  /\ (c.al = NoneV => c.athr = 0)

MCInit == \E c \in {x \in PCfgs : PValid(x)} : PInit(c)
MCSpec == MCInit /\ [][PNext]_pvars

\* anti-vacuity probes (expected to be violated when used as invariants)
NeverReassigned == held = Orig(pcfg)
=============================================================================
