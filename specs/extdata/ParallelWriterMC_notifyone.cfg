SPECIFICATION MCSpecOne
CONSTANTS
  Cap = 2
  Family = "quick"
INVARIANT InvBudget
INVARIANT InvOneOversized
INVARIANT InvCbMutex
INVARIANT InvCbOnce
INVARIANT InvTensorMutex
INVARIANT InvErrJoin
INVARIANT InvSameBytes
PROPERTY Termination
CHECK_DEADLOCK TRUE
