SPECIFICATION TSpec
CONSTANTS
  MaxFaults = 4
INVARIANT Report
INVARIANT PropReport
INVARIANT MechOK
ACTION_CONSTRAINT Progress
CHECK_DEADLOCK FALSE
