---------------------------- MODULE ExtLayoutTrace ----------------------------
(***************************************************************************)
(* Code -> specification for C07.  TRACE_FILE is a line-delimited JSON     *)
(* file; every line is one execution of the real ir.save /                 *)
(* ir.save_safetensors followed by ir.load:                                *)
(*   id     case number                                                    *)
(*   c      the configuration (same record as in ExtLayout)                *)
(*   nmid   index into RawNames (raw) / ModelNames (st) of the destination *)
(*   fail   0, or the initializer whose materialisation raises,            *)
(*          or Len(sizes)+1 when the model file cannot be written          *)
(*   out    "returned" | "raised"                                          *)
(*   pre    names of the files that existed in the destination directory   *)
(*          before the save (re-save scenarios; <<>> for a first save)     *)
(*   refused  save raised FileExistsError                                  *)
(*   same   per initializer: value.const_value is the original object      *)
(*          after save (returned or raised)                                *)
(*   loaded FALSE when ir.load of the saved model raised                    *)
(* and, when save returned and the model could be loaded:                  *)
(*   ord    per initializer its rank in the order the ranges of a file     *)
(*          must follow (declaration order; for a safetensors file the     *)
(*          serializer's canonical order as reported by the binding)       *)
(*   files  the data files found next to the model: [name, size], size =   *)
(*          size of the data section (whole file for raw data files)       *)
(*   t      per initializer of the LOADED model: [loc, o, l], loc = ""     *)
(*          for an inline tensor, o relative to the data section           *)
(*   index  an index file exists,  iname its name                          *)
(*   beq    per initializer: the bytes read back equal the original bytes  *)
(*   meta   per initializer: name, dtype and shape equal the original      *)
(*                                                                         *)
(* TLC evaluates, on the OBSERVED layout of every case, every formula of   *)
(* the property (ExtLayout!LayoutClauses + BytesEqual, MetaEqual,          *)
(* Restored, Outcome) and whether the observation equals the layout the    *)
(* specification computes (Layout + file names).  One JSON line is printed *)
(* for every case that fails a formula or differs from the prediction:     *)
(*   [id, match, bad : set of formula names, diff : set of differing parts] *)
(* A case that differs but fails nothing is a divergence, not a violation. *)
(***************************************************************************)
EXTENDS ExtLayoutNames, Json, IOUtils

Cases == ndJsonDeserialize(IOEnv.TRACE_FILE)

VARIABLE n
tvars == <<n>>

TInit == n = 0
TNext == n < Len(Cases) /\ n' = n + 1
TSpec == TInit /\ [][TNext]_tvars

FileIdx(X, loc) ==
  IF loc = "" THEN 0
  ELSE IF \E k \in 1..Len(X.files) : X.files[k].name = loc
       THEN CHOOSE k \in 1..Len(X.files) : X.files[k].name = loc
       ELSE -1                                            \* points to a file that does not exist

ObsLayout(X) ==
  [nf    |-> Len(X.files),
   fsize |-> [k \in 1..Len(X.files) |-> X.files[k].size],
   t     |-> [j \in 1..Len(X.t) |-> [f |-> FileIdx(X, X.t[j].loc), o |-> X.t[j].o, l |-> X.t[j].l]],
   index |-> X.index]

ExpNames(X, nf) ==
  IF X.c.be = "raw" THEN [k \in 1..nf |-> RawLocation(RawNames[X.nmid], k, nf)]
  ELSE [k \in 1..nf |-> StLocation(ModelNames[X.nmid].parts, k, nf)]

Diff(X) ==
  LET E == Layout(X.c, "design")
      O == ObsLayout(X)
  IN  (IF O.t # E.t THEN {"placement"} ELSE {})
      \cup (IF O.nf # E.nf \/ O.fsize # E.fsize THEN {"files"} ELSE {})
      \cup (IF [k \in 1..O.nf |-> X.files[k].name] # ExpNames(X, O.nf) THEN {"names"} ELSE {})
      \cup (IF O.index # E.index THEN {"index"} ELSE {})
      \cup (IF O.index /\ X.c.be = "st" /\ X.iname # StIndexName(ModelNames[X.nmid].parts) THEN {"index-name"} ELSE {})

All(s) == \A j \in 1..Len(s) : s[j]

\* the sharded raw writer refuses to touch an existing destination (_check_no_existing_shard_files): a re-save
\* onto the names of an earlier save may raise FileExistsError - the model must still be restored
MayRefuse(X) ==
  /\ X.c.be = "raw" /\ X.c.lim # NoneV
  /\ LET E == Layout(X.c, "design")
         nm == ExpNames(X, E.nf)
     IN  \E k \in 1..E.nf : \E j \in 1..Len(X.pre) : X.pre[j] = nm[k]

Bad(X) ==
  LET outcomeOK == IF X.fail # 0 THEN X.out = "raised"
                   ELSE X.out = "returned" \/ (X.out = "raised" /\ X.refused /\ MayRefuse(X))
      base == (IF All(X.same) THEN {} ELSE {"Restored"}) \cup (IF outcomeOK THEN {} ELSE {"Outcome"})
  IN  IF X.out # "returned" THEN base
      ELSE IF ~X.loaded THEN base \cup {"Loadable"}
      ELSE LET O  == ObsLayout(X)
               cl == LayoutClauses(X.c, O, X.ord)
           IN  base \cup {name \in DOMAIN cl : ~cl[name]}
                    \cup (IF All(X.beq) THEN {} ELSE {"BytesEqual"})
                    \cup (IF All(X.meta) THEN {} ELSE {"MetaEqual"})

Report ==
  n > 0 =>
    LET X == Cases[n]
        bad == Bad(X)
        diff == IF X.out = "returned" /\ X.loaded THEN Diff(X) ELSE {}
    IN  /\ (bad # {} \/ diff # {}) => PrintT(ToJson([id |-> X.id, bad |-> bad, diff |-> diff]))
        /\ n = Len(Cases) => PrintT(ToJson([done |-> n]))
=============================================================================
