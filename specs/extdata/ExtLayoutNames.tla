--------------------------- MODULE ExtLayoutNames ---------------------------
(***************************************************************************)
(* The destination-name catalogue of the C07 binding, shared by the        *)
(* enumeration (ExtLayoutMC) and the evaluation of observed layouts        *)
(* (ExtLayoutTrace).  The binding joins the pieces into the real path      *)
(* strings; which piece counts as an extension suffix is stated here.      *)
(***************************************************************************)
EXTENDS ExtLayout

\* ---- the file-name catalogue (x = the piece counts as an extension suffix) -------------------------
P(s, x) == [s |-> s, x |-> x]
RawNames ==
  << [dir |-> "",             parts |-> <<P("m", FALSE), P("data", TRUE)>>],                      \* m.data
     [dir |-> "",             parts |-> <<P("model", FALSE), P("v1", TRUE), P("5", FALSE), P("onnx", TRUE), P("data", TRUE)>>],
                                                                                               \* model.v1.5.onnx.data
     [dir |-> "sub",          parts |-> <<P("w", FALSE), P("fp16", TRUE), P("bin", TRUE)>>],     \* sub/w.fp16.bin
     [dir |-> "sub/deep.dir", parts |-> <<P("weights", FALSE)>>],                              \* sub/deep.dir/weights
     [dir |-> ".",            parts |-> <<P("", FALSE), P("hidden", TRUE)>>],                   \* ./.hidden
     [dir |-> "",             parts |-> <<P("a-b", FALSE), P("2x", FALSE), P("d_1", TRUE)>>] >>  \* a-b.2x.d_1
ModelNames ==        \* model file names (the safetensors location derives from them)
  << [dir |-> "",    parts |-> <<P("m", FALSE), P("onnx", TRUE)>>],                              \* m.onnx
     [dir |-> "",    parts |-> <<P("model", FALSE), P("fp16", TRUE), P("onnx", TRUE)>>],         \* model.fp16.onnx
     [dir |-> "sub", parts |-> <<P("net", FALSE), P("v1", TRUE), P("5", FALSE), P("onnx", TRUE)>>],  \* sub/net.v1.5.onnx
     [dir |-> "",    parts |-> <<P("noext", FALSE)>>] >>                                       \* noext

Names(c) ==
  IF c.k = "raw"
  THEN [k |-> "raw", id |-> c.id, n |-> c.n,
        names |-> [i \in 1..c.n |-> RawLocation(RawNames[c.id], i, c.n)],
        given |-> WithDir(RawNames[c.id].dir, JoinDots(RawNames[c.id].parts, 1, Len(RawNames[c.id].parts))),
        index |-> ""]
  ELSE [k |-> "st", id |-> c.id, n |-> c.n,
        names |-> [i \in 1..c.n |-> StLocation(ModelNames[c.id].parts, i, c.n)],
        given |-> WithDir(ModelNames[c.id].dir, JoinDots(ModelNames[c.id].parts, 1, Len(ModelNames[c.id].parts))),
        index |-> StIndexName(ModelNames[c.id].parts)]

=============================================================================
