--------------------------- MODULE ParallelWriterSim ---------------------------
(***************************************************************************)
(* Generator of complete behaviours (schedules) of ParallelWriter for the  *)
(* specification -> code direction: run with `-simulate num=N`; every      *)
(* behaviour that reaches AllDone prints                                   *)
(*    [cfg |-> raw configuration, h |-> <<[t, op, i, post], ...>>]         *)
(* where t is the thread that moves, op the action, i the tensor / shard   *)
(* index concerned and post the observable state Obs after the step.  The  *)
(* harness grants exactly thread t at step k of the real execution and     *)
(* compares the emitted event and the real counters with post.             *)
(***************************************************************************)
EXTENDS ParallelWriterMC, Json

VARIABLE hist
svars == <<vars, hist>>

L(t, op, A, ix) == A /\ hist' = Append(hist, [t |-> t, op |-> op, i |-> ix, post |-> Obs'])

SimStep ==
  \E t \in T :
    \/ L(t, "DTake", DTake(t), job'[t])
    \/ L(t, "DFinish", DFinish(t), job[t])
    \/ L(t, "JoinAll", t = 0 /\ JoinAll, 0)
    \/ L(t, "Return", t = 0 /\ Return, 0)
    \/ L(t, "Take", Take(t), task'[t])
    \/ L(t, "Finish", Finish(t), task[t])
    \/ L(t, "FirstFailure", FirstFailure(t), 0)
    \/ L(t, "JoinInner", JoinInner(t), 0)
    \/ L(t, "ICbAcq", ICbAcq(t), 0)
    \/ L(t, "OCbAcq", OCbAcq(t), 0)
    \/ L(t, "CbRun", CbRun(t) \/ CbFail(t), task[t])
    \/ L(t, "OCbRel", OCbRel(t), 0)
    \/ L(t, "ICbRel", ICbRel(t), 0)
    \/ L(t, "FAcq", FAcq(t), 0)
    \/ L(t, "FRel", FRel(t), 0)
    \/ L(t, "TLock", TLock(t), 0)
    \/ L(t, "AcqOk", AcqFit(t) \/ AcqOver(t), 0)
    \/ L(t, "AcqBlock", AcqBlock(t), 0)
    \/ L(t, "WakeOk", WakeFit(t), 0)
    \/ L(t, "WakeBlock", WakeBlock(t), 0)
    \/ L(t, "Write", Write(t) \/ WriteFail(t), 0)
    \/ L(t, "Release", Release(t), 0)
    \/ L(t, "TUnlock", TUnlock(t), 0)

SimInit == MCInit /\ hist = <<>>
SimSpec == SimInit /\ [][SimStep]_svars

RawCfg == [size |-> cfg.size, obj |-> cfg.obj, fail |-> cfg.fail, cbfail |-> cfg.cbfail, fkind |-> cfg.fkind,
           cap |-> cfg.cap, mw |-> cfg.mw, maxShard |-> cfg.maxShard]
\* always TRUE; prints the finished behaviours
EmitDone == AllDone => PrintT(ToJson([cfg |-> RawCfg, h |-> hist, files |-> file]))
=============================================================================
