------------------------------ MODULE AtomicSave ------------------------------
(***************************************************************************)
(* Design specification of the external-data save of onnx_ir (property     *)
(* C08): _write_external_data / _ExternalDataWriter / _write_external_     *)
(* tensors / ir.save, as a sequence of FILE-SYSTEM EFFECTS in code order.  *)
(*                                                                         *)
(* One action per effect.  Every effect takes an outcome r:                *)
(*   "ok"   the effect happens,                                            *)
(*   "fail" the effect does not happen and raises (the `with`/`finally`    *)
(*          paths of the code then run -- they are effects too and may     *)
(*          fail in turn while faults < MaxFaults),                        *)
(*   "soft" (RmTmpFile only) unlink answers ENOENT, which the code         *)
(*          suppresses.                                                    *)
(* Crash is enabled in every running state: the process dies and nothing   *)
(* else happens.                                                           *)
(*                                                                         *)
(* File contents are abstract records [k, sz, ch]: k = "absent", "old"     *)
(* (whatever was there before) or "data" with sz = size in chunks and      *)
(* ch = the set of <<tensor, chunk>> written so far.                       *)
(* Replace COPIES whatever the temporary file holds at that moment to the  *)
(* destination; that the destination is then complete is what TLC checks   *)
(* (OldOrNew), it is not built into the action.                            *)
(*                                                                         *)
(* Tensors are of three kinds (configuration fields backed / other):        *)
(*   backed  ExternalTensors whose backing file IS the destination (also    *)
(*           when reached through a symbolic link, a hard link or another   *)
(*           spelling of the path: the code asks os.path.samefile),         *)
(*   other   ExternalTensors saved in the same call that are backed by      *)
(*           ANOTHER file (same file name under another base directory,     *)
(*           another name in the destination directory, ...): bystanders,   *)
(*           the design never releases or invalidates them,                 *)
(*   the rest: in-memory tensors, written in nc chunks.                     *)
(*                                                                         *)
(* The configuration is a VARIABLE (chosen in Init) so that one TLC run    *)
(* covers all configurations and the trace specification can take it from  *)
(* the recorded run.                                                       *)
(***************************************************************************)
EXTENDS Naturals, FiniteSets, Sequences, TLC

CONSTANT MaxFaults      \* number of effects that may fail in one run

VARIABLES
  cfg,        \* [nt, nc, dest, backed, other, par, shard, pre, lim, sh]
  files,      \* data files of the directory: sequence of [data, mode]; file 1 = plain name, 2.. = numbered shards
  link,       \* the requested path is (still) a symbolic link to the destination
  tdir,       \* the temporary directory exists
  tfile,      \* content of the temporary file, "Absent" if none
  tmode,      \* mode of the temporary file
  hmain,      \* the writer's main handle on the temporary file is open
  hw,         \* hw[w]: worker w's own handle is open (parallel writer)
  wk,         \* wk[w] = [st, t, j]: what worker w is doing
  queue,      \* tensors not yet taken by a worker
  cancelled,  \* the main thread has seen a failed task and cancelled the queue
  wfail,      \* some task has failed
  mapped,     \* mapped[t]: ExternalTensor t (backed by the destination or by another file) holds a memory map
  valid,      \* valid[t]:  ExternalTensor t has not been invalidated
  pc, sub,    \* program counter of the saving thread; step inside the serial tensor loop
  cur,        \* shard being produced (its destination file is CurF)
  nxt, chk,   \* serial writer: current tensor and chunk
  exc,        \* an exception is propagating
  out,        \* "running" | "ok" | "raised" | "crashed"
  faults, firstFail, cleanupFail, last   \* bookkeeping: injected faults, first failed effect, last effect

fsv == <<files, link, tdir, tfile, tmode>>
hv  == <<hmain, hw>>
wv  == <<wk, queue, cancelled, wfail>>
tv  == <<mapped, valid>>
ctl == <<pc, sub, cur, nxt, chk>>
vars == <<cfg, files, link, tdir, tfile, tmode, hmain, hw, wk, queue, cancelled, wfail, mapped, valid,
          pc, sub, cur, nxt, chk, exc, out, faults, firstFail, cleanupFail, last>>

Workers == {1, 2}

-------------------------------------------------------------------------------
(* Layout                                                                    *)

ExtC(c) == c.backed \cup c.other                     \* the ExternalTensors among the tensors being saved
NChunksOf(nc, ext, t) == IF t \in ext THEN 1 ELSE nc  \* an ExternalTensor is copied by one copy_file_range, whatever file backs it
NChunksC(c, t) == NChunksOf(c.nc, ExtC(c), t)

(* _shard_tensors (no alignment), sizes and limit in chunks: tensors stay in declaration order; a new
   shard is started when the next tensor would exceed the limit, but a shard is never left empty.
   The result maps every tensor to its shard; the number of shards is the last entry.            *)
RECURSIVE Greedy(_, _, _, _, _, _, _)
Greedy(nt, nc, ext, lim, t, s, size) ==
  IF t > nt THEN <<>>
  ELSE LET n == NChunksOf(nc, ext, t) IN
       IF size + n > lim /\ size > 0
       THEN <<s + 1>> \o Greedy(nt, nc, ext, lim, t + 1, s + 1, n)
       ELSE <<s>> \o Greedy(nt, nc, ext, lim, t + 1, s, size + n)
ShardAssign(nt, nc, ext, shard, lim) ==      \* ext = all ExternalTensors (backed by the destination or not)
  IF shard THEN Greedy(nt, nc, ext, lim, 1, 1, 0) ELSE [t \in 1..nt |-> 1]

(* Destination files.  A single-file save and a sharded save that yields ONE shard write the plain
   name (file 1).  A sharded save with n > 1 shards writes the numbered names (files 2..n+1); the
   plain-name file (file 1) is then not a destination, but it is still a file of the directory.  *)
NShardsC(c)        == c.sh[c.nt]
Numbered(c)        == c.shard /\ NShardsC(c) > 1
NFilesC(c)         == IF Numbered(c) THEN 1 + NShardsC(c) ELSE 1
DestFileC(c, s)    == IF Numbered(c) THEN 1 + s ELSE 1
ShardOfFileC(c, f) == IF Numbered(c) THEN f - 1 ELSE 1
TensC(c, s)        == {t \in 1..c.nt : c.sh[t] = s}

RECURSIVE SumChunksC(_, _)
SumChunksC(c, S) == IF S = {} THEN 0
                    ELSE LET u == CHOOSE x \in S : TRUE IN NChunksC(c, u) + SumChunksC(c, S \ {u})

TotalC(c, f) == SumChunksC(c, TensC(c, f))
AllChC(c, f) == UNION {{<<t, j>> : j \in 1..NChunksC(c, t)} : t \in TensC(c, f)}
NewOfC(c, f) == [k |-> "data", sz |-> TotalC(c, f), ch |-> AllChC(c, f)]
OffC(c, f, t, j) == SumChunksC(c, {u \in TensC(c, f) : u < t}) + j - 1

NChunks(t) == NChunksC(cfg, t)
Tens(s)    == TensC(cfg, s)
FirstT(s)  == CHOOSE t \in Tens(s) : \A u \in Tens(s) : t <= u
LastT(s)   == CHOOSE t \in Tens(s) : \A u \in Tens(s) : t >= u
CurF       == DestFileC(cfg, cur)                       \* destination file of the shard being produced
UsePar     == cfg.par /\ Cardinality(Tens(cur)) > 1
MaxOf(a, b) == IF a > b THEN a ELSE b
Ext        == ExtC(cfg)
(* ExternalTensors among the tensors being written whose backing file IS the current destination
   (os.path.samefile(tensor.path, destination)); the tensors of cfg.other never are                *)
BackedHere == IF CurF = 1 THEN cfg.backed \cap Tens(cur) ELSE {}

(* what is in the directory before the save: dest says whether the plain-name file exists,
   pre which numbered shard names exist                                                        *)
InitClass(c, f) == IF Numbered(c) /\ f > 1 THEN (IF (f - 1) \in c.pre THEN "Old" ELSE "Absent")
                   ELSE (IF c.dest = "absent" THEN "Absent" ELSE "Old")

WellFormedCfg(c) ==
  /\ c.nt \in 1..3 /\ c.nc \in 1..2
  /\ c.dest \in {"absent", "file", "symlink"}
  /\ c.backed \subseteq 1..c.nt /\ (c.backed # {} => c.dest # "absent")
  /\ c.other \subseteq 1..c.nt /\ c.other \cap c.backed = {}
  /\ c.par \in BOOLEAN /\ c.shard \in BOOLEAN
  /\ c.sh = ShardAssign(c.nt, c.nc, ExtC(c), c.shard, c.lim)
  \* (a sharded save with concurrent shard drivers, c.shard /\ c.par, is a legal configuration whose interleavings
  \*  this action system does not model: runs of it are judged on the observed end state only - the P_ formulas -
  \*  and are not asked to be behaviours of this specification)
  /\ (c.shard => /\ c.dest \in {"absent", "file"} /\ c.lim >= 1
                  /\ c.pre \subseteq (IF Numbered(c) THEN 1..NShardsC(c) ELSE {}))
  /\ (~c.shard => c.pre = {} /\ c.lim = 0)

-------------------------------------------------------------------------------
(* Initial state of a save for configuration c                               *)

AbsentC == [k |-> "absent", sz |-> 0, ch |-> {}]
OldC    == [k |-> "old", sz |-> 0, ch |-> {}]
IdleW == [st |-> "idle", t |-> 0, j |-> 0]
NoEff == [a |-> "none", t |-> 0, j |-> 0, r |-> "ok"]

InitFor(c) ==
  /\ cfg = c
  /\ files = [f \in 1..NFilesC(c) |->
                IF InitClass(c, f) = "Old" THEN [data |-> OldC, mode |-> "old"]
                                           ELSE [data |-> AbsentC, mode |-> "none"]]
  /\ link = (c.dest = "symlink")
  /\ tdir = FALSE /\ tfile = AbsentC /\ tmode = "none"
  /\ hmain = FALSE /\ hw = [w \in Workers |-> FALSE]
  /\ wk = [w \in Workers |-> IdleW] /\ queue = <<>> /\ cancelled = FALSE /\ wfail = FALSE
  /\ mapped = [t \in ExtC(c) |-> TRUE]        \* worst case: the tensor has been read before
  /\ valid = [t \in ExtC(c) |-> TRUE]
  /\ pc = (IF c.shard THEN "precheck" ELSE "mktmp") /\ sub = "cb"
  /\ cur = 1 /\ nxt = 1 /\ chk = 1
  /\ exc = FALSE /\ out = "running"
  /\ faults = 0 /\ firstFail = NoEff /\ cleanupFail = FALSE /\ last = NoEff

-------------------------------------------------------------------------------
(* Bookkeeping shared by all effects: e is the new value of exc              *)

Bk(a, t, j, r, e) ==
  /\ last' = [a |-> a, t |-> t, j |-> j, r |-> r]
  /\ exc' = e
  /\ IF r = "fail"
     THEN /\ faults < MaxFaults
          /\ faults' = faults + 1
          /\ firstFail' = (IF firstFail.a = "none" THEN [a |-> a, t |-> t, j |-> j, r |-> r] ELSE firstFail)
     ELSE UNCHANGED <<faults, firstFail>>

Ctl(p, s, c, n, k) == pc' = p /\ sub' = s /\ cur' = c /\ nxt' = n /\ chk' = k
Goto(p) == Ctl(p, sub, cur, nxt, chk)

-------------------------------------------------------------------------------
(* Sharded save: pre-flight refusal (_check_no_existing_shard_files)          *)

CheckExists(r) ==
  /\ pc = "precheck" /\ r = "ok"
  /\ IF \E s \in 1..NShardsC(cfg) : files[DestFileC(cfg, s)].data.k # "absent"
     THEN Bk("CheckExists", 0, 0, r, TRUE) /\ Goto("raise")      \* FileExistsError, nothing touched
     ELSE Bk("CheckExists", 0, 0, r, FALSE) /\ Goto("mktmp")
  /\ UNCHANGED <<cfg, fsv, hv, wv, tv, out, cleanupFail>>

(* tempfile.mkdtemp beside the (resolved) destination; it is outside the try  *)
MkTmpDir(r) ==
  /\ pc = "mktmp"
  /\ CASE r = "ok"   -> tdir' = TRUE /\ Bk("MkTmpDir", cur, 0, r, FALSE) /\ Goto("opentmp")
       [] r = "fail" -> tdir' = tdir /\ Bk("MkTmpDir", cur, 0, r, TRUE) /\ Goto("raise")
       [] OTHER -> FALSE
  /\ UNCHANGED <<cfg, files, link, tfile, tmode, hv, wv, tv, out, cleanupFail>>

(* open(temporary_path, "wb")                                                 *)
OpenTmp(r) ==
  /\ pc = "opentmp"
  /\ CASE r = "ok" ->
            /\ tfile' = [k |-> "data", sz |-> 0, ch |-> {}] /\ tmode' = "new" /\ hmain' = TRUE
            /\ Bk("OpenTmp", cur, 0, r, FALSE)
            /\ IF UsePar THEN Ctl("prealloc", sub, cur, nxt, chk)
                         ELSE Ctl("serial", "cb", cur, FirstT(cur), 1)
       [] r = "fail" ->
            /\ UNCHANGED <<tfile, tmode, hmain>>
            /\ Bk("OpenTmp", cur, 0, r, TRUE) /\ Goto("rmfile")
       [] OTHER -> FALSE
  /\ UNCHANGED <<cfg, files, link, tdir, hw, wv, tv, out, cleanupFail>>

-------------------------------------------------------------------------------
(* Serial writer: per tensor  callback -> [open source] -> chunk writes        *)

AfterTensor(t) ==
  IF t = LastT(cur) THEN Ctl("close", "cb", cur, nxt, 1)
                    ELSE Ctl("serial", "cb", cur, t + 1, 1)

Callback(t, w, r) ==
  /\ r \in {"ok", "fail"}
  /\ \/ /\ pc = "serial" /\ sub = "cb" /\ t = nxt /\ w = 0
        /\ IF r = "ok"
           THEN Bk("Callback", t, 0, r, FALSE)
                /\ Ctl("serial", IF t \in Ext THEN "src" ELSE "write", cur, nxt, 1)
           ELSE Bk("Callback", t, 0, r, TRUE) /\ Goto("close")
        /\ UNCHANGED wv
     \/ /\ pc = "workers" /\ w \in Workers /\ wk[w].st = "cb" /\ wk[w].t = t
        /\ IF r = "ok"
           THEN /\ Bk("Callback", t, 0, r, exc)
                /\ wk' = [wk EXCEPT ![w].st = IF ~hw[w] THEN "open"
                                               ELSE IF t \in Ext THEN "src" ELSE "write",
                                    ![w].j = 1]
                /\ UNCHANGED wfail
           ELSE /\ Bk("Callback", t, 0, r, exc)
                /\ wk' = [wk EXCEPT ![w] = IdleW] /\ wfail' = TRUE
        /\ UNCHANGED <<queue, cancelled, ctl>>
  /\ UNCHANGED <<cfg, fsv, hv, tv, out, cleanupFail>>

(* ExternalTensor.tofile opens its backing file (the destination, or the other file) for reading *)
OpenSrc(t, w, r) ==
  /\ r \in {"ok", "fail"}
  /\ \/ /\ pc = "serial" /\ sub = "src" /\ t = nxt /\ w = 0
        /\ IF r = "ok" THEN Bk("OpenSrc", t, 0, r, FALSE) /\ Ctl("serial", "write", cur, nxt, 1)
                       ELSE Bk("OpenSrc", t, 0, r, TRUE) /\ Goto("close")
        /\ UNCHANGED wv
     \/ /\ pc = "workers" /\ w \in Workers /\ wk[w].st = "src" /\ wk[w].t = t
        /\ Bk("OpenSrc", t, 0, r, exc)
        /\ IF r = "ok" THEN wk' = [wk EXCEPT ![w].st = "write", ![w].j = 1] /\ UNCHANGED wfail
                       ELSE wk' = [wk EXCEPT ![w] = IdleW] /\ wfail' = TRUE
        /\ UNCHANGED <<queue, cancelled, ctl>>
  /\ UNCHANGED <<cfg, fsv, hv, tv, out, cleanupFail>>

(* copy_file_range refused with a tolerated errno: the code falls back to read+write *)
CfrFallback(t, w) ==
  /\ t \in Ext
  /\ \/ pc = "serial" /\ sub = "write" /\ t = nxt /\ w = 0
     \/ pc = "workers" /\ w \in Workers /\ wk[w].st = "write" /\ wk[w].t = t
  /\ faults < MaxFaults /\ faults' = faults + 1
  /\ last' = [a |-> "CfrFallback", t |-> t, j |-> 0, r |-> "ok"]
  /\ UNCHANGED <<cfg, fsv, hv, wv, tv, ctl, exc, out, firstFail, cleanupFail>>

PutChunk(t, j) ==
  tfile' = [k |-> "data", sz |-> MaxOf(tfile.sz, OffC(cfg, cur, t, j) + 1), ch |-> tfile.ch \cup {<<t, j>>}]

WriteChunk(t, j, w, r) ==
  /\ r \in {"ok", "fail"}
  /\ \/ /\ pc = "serial" /\ sub = "write" /\ t = nxt /\ j = chk /\ w = 0
        /\ hmain /\ tfile.k # "absent"
        /\ IF r = "ok"
           THEN /\ PutChunk(t, j) /\ Bk("WriteChunk", t, j, r, FALSE)
                /\ IF j < NChunks(t) THEN Ctl("serial", "write", cur, nxt, j + 1) ELSE AfterTensor(t)
           ELSE /\ UNCHANGED tfile /\ Bk("WriteChunk", t, j, r, TRUE) /\ Goto("close")
        /\ UNCHANGED wv
     \/ /\ pc = "workers" /\ w \in Workers /\ wk[w].st = "write" /\ wk[w].t = t /\ wk[w].j = j
        /\ hw[w] /\ tfile.k # "absent"
        /\ Bk("WriteChunk", t, j, r, exc)
        /\ IF r = "ok"
           THEN /\ PutChunk(t, j)
                /\ wk' = [wk EXCEPT ![w] = IF j < NChunks(t) THEN [st |-> "write", t |-> t, j |-> j + 1] ELSE IdleW]
                /\ UNCHANGED wfail
           ELSE /\ UNCHANGED tfile
                /\ wk' = [wk EXCEPT ![w] = IdleW] /\ wfail' = TRUE
        /\ UNCHANGED <<queue, cancelled, ctl>>
  /\ UNCHANGED <<cfg, files, link, tdir, tmode, hv, tv, out, cleanupFail>>

(* leaving `with open(...)`: the handle is closed on the normal and on the error path;
   a failing close still releases the descriptor and raises                    *)
CloseTmp(r) ==
  /\ pc \in {"close", "closepre"} /\ r \in {"ok", "fail"} /\ hmain
  /\ hmain' = FALSE
  /\ Bk("CloseTmp", cur, 0, r, exc \/ r = "fail")
  /\ IF exc \/ r = "fail" THEN Goto("rmfile")
     ELSE IF pc = "closepre"
          THEN /\ Goto("workers")
          ELSE Goto("release")
  /\ IF pc = "closepre" /\ ~(exc \/ r = "fail")
     THEN queue' = [i \in 1..cfg.nt |-> i] /\ UNCHANGED <<wk, cancelled, wfail>>
     ELSE UNCHANGED wv
  /\ UNCHANGED <<cfg, fsv, hw, tv, out, cleanupFail>>

-------------------------------------------------------------------------------
(* Parallel writer: preallocate, then workers with their own handles           *)

Prealloc(r) ==
  /\ pc = "prealloc" /\ r \in {"ok", "fail"}
  /\ IF r = "ok" THEN tfile' = [tfile EXCEPT !.sz = TotalC(cfg, cur)] ELSE UNCHANGED tfile
  /\ Bk("Prealloc", cur, 0, r, r = "fail")
  /\ Goto("closepre")
  /\ UNCHANGED <<cfg, files, link, tdir, tmode, hv, wv, tv, out, cleanupFail>>

Take(w) ==
  /\ pc = "workers" /\ wk[w].st = "idle" /\ queue # <<>> /\ ~cancelled
  /\ wk' = [wk EXCEPT ![w] = [st |-> "cb", t |-> Head(queue), j |-> 1]]
  /\ queue' = Tail(queue)
  /\ UNCHANGED <<cfg, fsv, hv, cancelled, wfail, tv, ctl, exc, out, faults, firstFail, cleanupFail, last>>

OpenWorker(w, r) ==
  /\ pc = "workers" /\ w \in Workers /\ wk[w].st = "open" /\ r \in {"ok", "fail"}
  /\ Bk("OpenWorker", wk[w].t, 0, r, exc)
  /\ IF r = "ok"
     THEN /\ hw' = [hw EXCEPT ![w] = TRUE]
          /\ wk' = [wk EXCEPT ![w].st = IF wk[w].t \in Ext THEN "src" ELSE "write"]
          /\ UNCHANGED wfail
     ELSE /\ UNCHANGED hw /\ wk' = [wk EXCEPT ![w] = IdleW] /\ wfail' = TRUE
  /\ UNCHANGED <<cfg, fsv, hmain, queue, cancelled, tv, ctl, out, cleanupFail>>

(* the main thread sees the failed future: shutdown(cancel_futures=True)        *)
NoticeFail ==
  /\ pc = "workers" /\ wfail /\ ~cancelled
  /\ cancelled' = TRUE /\ queue' = <<>>
  /\ UNCHANGED <<cfg, fsv, hv, wk, wfail, tv, ctl, exc, out, faults, firstFail, cleanupFail, last>>

AllIdle == \A w \in Workers : wk[w].st = "idle"

Join ==
  /\ pc = "workers" /\ AllIdle
  /\ \/ ~wfail /\ queue = <<>> /\ exc' = exc
     \/ cancelled /\ exc' = TRUE
  /\ Goto("closeworkers")
  /\ UNCHANGED <<cfg, fsv, hv, wv, tv, out, faults, firstFail, cleanupFail, last>>

CloseWorker(w, r) ==
  /\ w \in Workers /\ hw[w] /\ r \in {"ok", "fail"}
  /\ hw' = [hw EXCEPT ![w] = FALSE]
  /\ \/ /\ pc = "closeworkers"
        /\ Bk("CloseWorker", 0, 0, r, exc \/ r = "fail")
        /\ IF r = "fail" THEN Goto("rmfile")           \* the other handles are not closed here; the exception propagates
           ELSE IF \E v \in Workers \ {w} : hw[v] THEN Goto("closeworkers")
           ELSE IF exc THEN Goto("rmfile") ELSE Goto("release")
     \/ /\ pc \in {"rmfile", "rmdir", "raise"} /\ r = "ok"   \* a handle left open by a failed close loop is
        /\ Bk("CloseWorker", 0, 0, r, exc) /\ Goto(pc)       \* closed when the frame is released
  /\ UNCHANGED <<cfg, fsv, hmain, wv, tv, out, cleanupFail>>

NoWorkerHandle ==   \* no worker ever opened a handle (every task failed before)
  /\ pc = "closeworkers" /\ \A w \in Workers : ~hw[w]
  /\ IF exc THEN Goto("rmfile") ELSE Goto("release")
  /\ UNCHANGED <<cfg, fsv, hv, wv, tv, exc, out, faults, firstFail, cleanupFail, last>>

-------------------------------------------------------------------------------
(* After the writer: release maps, copy mode, replace, clean up, invalidate    *)

NextBacked(S) == CHOOSE t \in S : \A u \in S : t <= u

ReleaseMap(t, r) ==
  /\ pc = "release" /\ r = "ok"
  /\ LET S == {u \in BackedHere : mapped[u]} IN S # {} /\ t = NextBacked(S)
  /\ mapped' = [mapped EXCEPT ![t] = FALSE]
  /\ Bk("ReleaseMap", t, 0, r, FALSE)
  /\ UNCHANGED <<cfg, fsv, hv, wv, valid, ctl, out, cleanupFail>>

ReleaseDone ==
  /\ pc = "release" /\ \A u \in BackedHere : ~mapped[u]
  /\ Goto(IF files[CurF].data.k = "absent" THEN "replace" ELSE "copymode")     \* os.path.exists(destination)
  /\ UNCHANGED <<cfg, fsv, hv, wv, tv, exc, out, faults, firstFail, cleanupFail, last>>

CopyMode(r) ==
  /\ pc = "copymode" /\ r \in {"ok", "fail"}
  /\ IF r = "ok" THEN tmode' = files[CurF].mode /\ Goto("replace") ELSE tmode' = tmode /\ Goto("rmfile")
  /\ Bk("CopyMode", cur, 0, r, r = "fail")
  /\ UNCHANGED <<cfg, files, link, tdir, tfile, hv, wv, tv, out, cleanupFail>>

(* os.replace: the destination becomes whatever the temporary file is NOW      *)
Replace(r) ==
  /\ pc = "replace" /\ r \in {"ok", "fail"}
  /\ IF r = "ok"
     THEN /\ tfile.k # "absent"
          /\ files' = [files EXCEPT ![CurF] = [data |-> tfile, mode |-> tmode]]
          /\ tfile' = AbsentC /\ tmode' = "none"
     ELSE UNCHANGED <<files, tfile, tmode>>
  /\ Bk("Replace", cur, 0, r, r = "fail")
  /\ Goto("rmfile")
  /\ UNCHANGED <<cfg, link, tdir, hv, wv, tv, out, cleanupFail>>

(* finally: os.remove(temporary_path) -- only FileNotFoundError is suppressed   *)
RmTmpFile(r) ==
  /\ pc = "rmfile"
  /\ CASE r = "ok"   -> /\ tfile.k # "absent" /\ tfile' = AbsentC /\ tmode' = "none"
                        /\ Bk("RmTmpFile", cur, 0, r, exc) /\ Goto("rmdir") /\ UNCHANGED cleanupFail
       [] r = "soft" -> /\ tfile.k = "absent" /\ UNCHANGED <<tfile, tmode>>
                        /\ Bk("RmTmpFile", cur, 0, r, exc) /\ Goto("rmdir") /\ UNCHANGED cleanupFail
       [] r = "fail" -> /\ UNCHANGED <<tfile, tmode>>
                        /\ Bk("RmTmpFile", cur, 0, r, TRUE) /\ Goto("raise") /\ cleanupFail' = TRUE
       [] OTHER -> FALSE
  /\ UNCHANGED <<cfg, files, link, tdir, hv, wv, tv, out>>

(* finally: os.rmdir(temporary_dir)                                            *)
RmTmpDir(r) ==
  /\ pc = "rmdir" /\ r \in {"ok", "fail"}
  /\ IF r = "ok"
     THEN /\ tdir /\ tfile.k = "absent" /\ tdir' = FALSE
          /\ Bk("RmTmpDir", cur, 0, r, exc) /\ UNCHANGED cleanupFail
          /\ Goto(IF exc THEN "raise" ELSE "invalidate")
     ELSE /\ UNCHANGED tdir /\ Bk("RmTmpDir", cur, 0, r, TRUE) /\ cleanupFail' = TRUE /\ Goto("raise")
  /\ UNCHANGED <<cfg, files, link, tfile, tmode, hv, wv, tv, out>>

Invalidate(t, r) ==
  /\ pc = "invalidate" /\ r = "ok"
  /\ LET S == {u \in BackedHere : valid[u]} IN S # {} /\ t = NextBacked(S)
  /\ valid' = [valid EXCEPT ![t] = FALSE]
  /\ Bk("Invalidate", t, 0, r, FALSE)
  /\ UNCHANGED <<cfg, fsv, hv, wv, mapped, ctl, out, cleanupFail>>

InvalidateDone ==
  /\ pc = "invalidate" /\ \A u \in BackedHere : ~valid[u]
  /\ IF cur < NShardsC(cfg) THEN Ctl("mktmp", "cb", cur + 1, nxt, 1) ELSE Goto("model")
  /\ UNCHANGED <<cfg, fsv, hv, wv, tv, exc, out, faults, firstFail, cleanupFail, last>>

(* serialising and writing the model file (open, write, close): no effect on the data file(s);
   a failing step raises once the remaining steps (the close of `with open`) are done      *)
ModelIO(r) ==
  /\ pc = "model" /\ r \in {"ok", "fail"}
  /\ Bk("ModelIO", 0, 0, r, exc \/ r = "fail")
  /\ Goto("model")
  /\ UNCHANGED <<cfg, fsv, hv, wv, tv, out, cleanupFail>>

Return ==
  /\ pc = "model" /\ ~exc /\ out' = "ok" /\ Goto("done")
  /\ UNCHANGED <<cfg, fsv, hv, wv, tv, exc, faults, firstFail, cleanupFail, last>>

Raise ==
  /\ (pc = "raise" \/ (pc = "model" /\ exc)) /\ out' = "raised" /\ Goto("done")
  /\ UNCHANGED <<cfg, fsv, hv, wv, tv, exc, faults, firstFail, cleanupFail, last>>

Crash ==
  /\ out' = "crashed"
  /\ UNCHANGED <<cfg, fsv, hv, wv, tv, ctl, exc, faults, firstFail, cleanupFail, last>>

-------------------------------------------------------------------------------
(* Dispatcher: effect named a with arguments (t, j, w) and outcome r            *)

Act(a, t, j, w, r) ==
  CASE a = "CheckExists" -> CheckExists(r)
    [] a = "MkTmpDir"    -> MkTmpDir(r)
    [] a = "OpenTmp"     -> OpenTmp(r)
    [] a = "Prealloc"    -> Prealloc(r)
    [] a = "CloseTmp"    -> CloseTmp(r)
    [] a = "Callback"    -> Callback(t, w, r)
    [] a = "OpenSrc"     -> OpenSrc(t, w, r)
    [] a = "CfrFallback" -> r = "ok" /\ CfrFallback(t, w)
    [] a = "WriteChunk"  -> WriteChunk(t, j, w, r)
    [] a = "OpenWorker"  -> OpenWorker(w, r)
    [] a = "CloseWorker" -> CloseWorker(w, r)
    [] a = "ReleaseMap"  -> ReleaseMap(t, r)
    [] a = "CopyMode"    -> CopyMode(r)
    [] a = "Replace"     -> Replace(r)
    [] a = "RmTmpFile"   -> RmTmpFile(r)
    [] a = "RmTmpDir"    -> RmTmpDir(r)
    [] a = "Invalidate"  -> Invalidate(t, r)
    [] a = "ModelIO"     -> ModelIO(r)
    [] OTHER -> FALSE

Effects == {"CheckExists", "MkTmpDir", "OpenTmp", "Prealloc", "CloseTmp", "Callback", "OpenSrc", "CfrFallback",
            "WriteChunk", "OpenWorker", "CloseWorker", "ReleaseMap", "CopyMode", "Replace", "RmTmpFile",
            "RmTmpDir", "Invalidate", "ModelIO"}

(* effects that belong to PRODUCING the new data file (up to and including the replace) *)
Producing == {"CheckExists", "MkTmpDir", "OpenTmp", "Prealloc", "CloseTmp", "Callback", "OpenSrc",
              "WriteChunk", "OpenWorker", "CloseWorker", "CopyMode", "Replace"}

(* internal control steps, never visible as an effect *)
Control == \/ \E w \in Workers : Take(w)
           \/ NoticeFail \/ Join \/ NoWorkerHandle \/ ReleaseDone \/ InvalidateDone \/ Return \/ Raise

EffectStep(names) ==
  \E a \in names, t \in 0..3, j \in 0..2, w \in 0..2, r \in {"ok", "fail", "soft"} : Act(a, t, j, w, r)

(* The same steps as EffectStep(Effects), one named disjunct per effect so that TLC
   enumerates few candidates and reports coverage per effect.                    *)
Running == out = "running"
RF == {"ok", "fail"}
TW(Op(_, _, _)) == \E t \in 1..cfg.nt, w \in 0..2, r \in RF : Op(t, w, r)

S_CheckExists == Running /\ CheckExists("ok")
S_MkTmpDir    == Running /\ \E r \in RF : MkTmpDir(r)
S_OpenTmp     == Running /\ \E r \in RF : OpenTmp(r)
S_Prealloc    == Running /\ \E r \in RF : Prealloc(r)
S_CloseTmp    == Running /\ \E r \in RF : CloseTmp(r)
S_Callback    == Running /\ TW(Callback)
S_OpenSrc     == Running /\ \E t \in cfg.backed, w \in 0..2, r \in RF : OpenSrc(t, w, r)
S_OpenSrcOther == Running /\ \E t \in cfg.other, w \in 0..2, r \in RF : OpenSrc(t, w, r)   \* a bystander's file is a source
S_CfrFallback == Running /\ \E t \in cfg.backed, w \in 0..2 : CfrFallback(t, w)
S_CfrFallbackOther == Running /\ \E t \in cfg.other, w \in 0..2 : CfrFallback(t, w)
S_WriteChunk  == Running /\ \E t \in 1..cfg.nt, j \in 1..cfg.nc, w \in 0..2, r \in RF : WriteChunk(t, j, w, r)
S_Take        == Running /\ \E w \in Workers : Take(w)
S_OpenWorker  == Running /\ \E w \in Workers, r \in RF : OpenWorker(w, r)
S_NoticeFail  == Running /\ NoticeFail
S_Join        == Running /\ Join
S_CloseWorker == Running /\ \E w \in Workers, r \in RF : CloseWorker(w, r)
S_NoWorkerHandle == Running /\ NoWorkerHandle
S_ReleaseMap  == Running /\ \E t \in cfg.backed : ReleaseMap(t, "ok")
S_ReleaseDone == Running /\ ReleaseDone
S_CopyMode    == Running /\ \E r \in RF : CopyMode(r)
S_Replace     == Running /\ \E r \in RF : Replace(r)
S_RmTmpFile   == Running /\ \E r \in {"ok", "soft", "fail"} : RmTmpFile(r)
S_RmTmpDir    == Running /\ \E r \in RF : RmTmpDir(r)
S_Invalidate  == Running /\ \E t \in cfg.backed : Invalidate(t, "ok")
S_InvalidateDone == Running /\ InvalidateDone
S_ModelIO     == Running /\ \E r \in RF : ModelIO(r)
S_Return      == Running /\ Return
S_Raise       == Running /\ Raise
S_Crash       == Running /\ Crash

Next ==
  \/ S_CheckExists \/ S_MkTmpDir \/ S_OpenTmp \/ S_Prealloc \/ S_CloseTmp \/ S_Callback \/ S_OpenSrc
  \/ S_OpenSrcOther \/ S_CfrFallback \/ S_CfrFallbackOther \/ S_WriteChunk \/ S_Take \/ S_OpenWorker \/ S_NoticeFail \/ S_Join \/ S_CloseWorker
  \/ S_NoWorkerHandle \/ S_ReleaseMap \/ S_ReleaseDone \/ S_CopyMode \/ S_Replace \/ S_RmTmpFile
  \/ S_RmTmpDir \/ S_Invalidate \/ S_InvalidateDone \/ S_ModelIO \/ S_Return \/ S_Raise \/ S_Crash

-------------------------------------------------------------------------------
(* Observation and the property, as predicates over (configuration, observation)
   so that TLC evaluates THE SAME formulas on model states and on end states
   observed on the real code.                                                   *)

DataClass(f) == LET d == files[f].data IN
                IF d.k = "absent" THEN "Absent" ELSE IF d.k = "old" THEN "Old"
                ELSE IF d = NewOfC(cfg, ShardOfFileC(cfg, f)) THEN "New" ELSE "Partial"

Obs == [files |-> [f \in 1..NFilesC(cfg) |-> DataClass(f)],
        modes |-> [f \in 1..NFilesC(cfg) |-> files[f].mode],
        link |-> link, tdir |-> tdir, tfile |-> tfile, out |-> out,
        invalid |-> {t \in Ext : ~valid[t]},          \* EVERY external tensor that is no longer valid
        ofile |-> (IF cfg.other = {} THEN "None" ELSE "Old"),   \* the bystanders' file: no effect of the save touches it
        prodFail |-> (firstFail.a \in Producing), cleanupFail |-> cleanupFail]

(* an existing destination holds its previous bytes or the complete new bytes -- in EVERY state *)
P_OldOrNew(c, o) == \A f \in DOMAIN o.files : InitClass(c, f) = "Old" => o.files[f] \in {"Old", "New"}

(* producing the new file failed with an exception: old bytes, no leftovers (unless the
   clean-up effects themselves failed), tensors backed by the destination still valid     *)
P_FailKeepsOld(c, o) ==
  (o.out = "raised" /\ o.prodFail) =>
     /\ \A f \in DOMAIN o.files : InitClass(c, f) = "Old" => o.files[f] = "Old"
     /\ o.invalid = {}
     /\ (~o.cleanupFail => ~o.tdir /\ o.tfile.k = "absent")

(* external tensors are invalidated only when their backing file was actually replaced: never a
   tensor backed by another file (whatever the outcome of the save), and the tensors backed by the
   destination only once the destination holds the new bytes                                      *)
P_BystandersKept(c, o) == o.invalid \subseteq c.backed
P_InvalidateOnlyIfReplaced(c, o) ==
  /\ P_BystandersKept(c, o)
  /\ (o.invalid # {} => o.files[1] = "New")

(* a sharded save (max_shard_size_bytes set) never changes a pre-existing file: neither a numbered
   shard name nor -- when everything fits one shard -- the plain name                            *)
P_ShardNeverOverwrites(c, o) ==
  c.shard => /\ \A f \in DOMAIN o.files : InitClass(c, f) = "Old" => o.files[f] = "Old"
             /\ (c.other # {} => o.ofile = "Old")      \* the file of a bystander tensor is a pre-existing file too

(* not part of the statement (weaker reading): a destination that did not exist is absent or complete *)
D_AbsentOrNew(c, o) == \A f \in DOMAIN o.files : InitClass(c, f) = "Absent" => o.files[f] \in {"Absent", "New"}

OldOrNew                 == P_OldOrNew(cfg, Obs)
FailKeepsOld             == P_FailKeepsOld(cfg, Obs)
InvalidateOnlyIfReplaced == P_InvalidateOnlyIfReplaced(cfg, Obs)
ShardNeverOverwrites     == P_ShardNeverOverwrites(cfg, Obs)
AbsentOrNew              == D_AbsentOrNew(cfg, Obs)

(* mechanism invariants of the design *)
TypeOK ==
  /\ out \in {"running", "ok", "raised", "crashed"}
  /\ tfile = AbsentC \/ (tfile.k = "data" /\ tfile.sz \in 0..6 /\ tfile.ch \subseteq AllChC(cfg, cur))
  /\ (tfile.k # "absent" => tdir)
  /\ (hmain => tfile.k # "absent")
  /\ link = (cfg.dest = "symlink")
ReturnsClean == out = "ok" => (~tdir /\ tfile.k = "absent"
                               /\ \A s \in 1..NShardsC(cfg) : DataClass(DestFileC(cfg, s)) = "New")
MapsReleasedBeforeReplace == \A t \in cfg.backed : (DataClass(1) = "New" => ~mapped[t])
BystandersUntouched == \A t \in cfg.other : mapped[t] /\ valid[t]     \* never released, never invalidated
=============================================================================
