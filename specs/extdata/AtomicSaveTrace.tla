--------------------------- MODULE AtomicSaveTrace ---------------------------
(***************************************************************************)
(* Trace validation (code -> specification) for AtomicSave.                *)
(*                                                                         *)
(* TRACE_FILE holds {"traces": [ {cfg, vis, ev, end} ]} recorded from runs *)
(* of the real ir.save (fault free, with an injected errno, or killed):    *)
(*   cfg  the configuration of the run (same fields as AtomicSave!cfg),    *)
(*   vis  the effect names the recording layer can see (system-call layer: *)
(*        what strace shows; Python layer: what the proxies log),          *)
(*   ev   the effects in the order they happened, [a, t, j, w, r] with     *)
(*        r = "ok" | "fail" | "soft" | "kill" (process killed AT the       *)
(*        effect: before or after it, the model may choose),               *)
(*   end  the directory / tensor state observed by the parent afterwards,  *)
(*   died the process died inside the save without a "kill" event.         *)
(* The model is stepped along ev; effects not in vis and control steps are *)
(* taken silently.  A trace is accepted when all events are consumed, the  *)
(* model has terminated and its observation equals `end`.                  *)
(*                                                                         *)
(* Independently of acceptance the formulas of the property are evaluated  *)
(* BY TLC ON THE OBSERVED END STATE of every run (PropReport).             *)
(* Output (JSON tuples):  ["acc", tid]   ["at", tid, l]   ["viol", tid, <<names>>]  ["dev", tid, <<names>>] *)
(*                        ["byst", tid, {tensors backed by ANOTHER file that are invalid / unreadable}]     *)
(***************************************************************************)
EXTENDS AtomicSave, Json, IOUtils

Data == JsonDeserialize(IOEnv.TRACE_FILE)
Traces == Data.traces

VARIABLES tid, l, pend, acc
tvars == <<tid, l, pend, acc>>
allvars == <<vars, tvars>>

SeqToSet(s) == {s[i] : i \in DOMAIN s}
T == Traces[tid]
TCfg(tr) == LET b == SeqToSet(tr.cfg.backed)
                o == SeqToSet(tr.cfg.other) IN
            [nt |-> tr.cfg.nt, nc |-> tr.cfg.nc, dest |-> tr.cfg.dest, backed |-> b, other |-> o,
             par |-> tr.cfg.par, shard |-> tr.cfg.shard, pre |-> SeqToSet(tr.cfg.pre), lim |-> tr.cfg.lim,
             sh |-> ShardAssign(tr.cfg.nt, tr.cfg.nc, b \cup o, tr.cfg.shard, tr.cfg.lim)]   \* the spec computes the shards
Vis == SeqToSet(T.vis)

EndObs(tr) == [files |-> tr.end.files, modes |-> tr.end.modes, link |-> tr.end.link, tdir |-> tr.end.tdir,
               tfile |-> [k |-> tr.end.tfile.k, sz |-> tr.end.tfile.sz,
                          ch |-> {<<x[1], x[2]>> : x \in SeqToSet(tr.end.tfile.ch)}],
               out |-> tr.end.out, invalid |-> SeqToSet(tr.end.invalid), ofile |-> tr.end.ofile,
               prodFail |-> tr.end.prodFail, cleanupFail |-> tr.end.cleanupFail]

TInit == /\ tid \in 1..Len(Traces)
         /\ l = 1 /\ pend = FALSE /\ acc = FALSE
         /\ InitFor(TCfg(Traces[tid]))

EvAct(e, r) == IF e.a = "OpenSrc" /\ e.t = 0
               THEN \E t \in 1..3 : Act(e.a, t, e.j, e.w, r)     \* the log does not say which tensor is being opened
               ELSE Act(e.a, e.t, e.j, e.w, r)

StepEvent ==
  /\ l <= Len(T.ev) /\ ~pend /\ out = "running"
  /\ LET e == T.ev[l] IN
       \/ e.r \in {"ok", "fail", "soft"} /\ EvAct(e, e.r) /\ l' = l + 1 /\ UNCHANGED <<tid, pend, acc>>
       \/ e.r = "kill" /\ Crash /\ l' = l + 1 /\ UNCHANGED <<tid, pend, acc>>
       \/ e.r = "kill" /\ EvAct(e, "ok") /\ pend' = TRUE /\ UNCHANGED <<tid, l, acc>>

(* the process died inside the save at a point the log does not name *)
StepDied == T.died /\ l = Len(T.ev) + 1 /\ ~pend /\ out = "running" /\ Crash /\ UNCHANGED tvars

StepPend == pend /\ Crash /\ pend' = FALSE /\ l' = l + 1 /\ UNCHANGED <<tid, acc>>

Silent ==
  /\ ~pend /\ out = "running"
  /\ \/ \E a \in Effects \ Vis, t \in 0..3, j \in 0..2, w \in 0..2 : Act(a, t, j, w, "ok")
     \/ Control
  /\ UNCHANGED tvars

Match(o) ==
  /\ Obs.files = o.files /\ Obs.modes = o.modes /\ Obs.link = o.link
  /\ Obs.tdir = o.tdir /\ Obs.tfile = o.tfile /\ Obs.out = o.out /\ Obs.ofile = o.ofile
  /\ (o.out # "crashed" => Obs.invalid = o.invalid)

Finish ==
  /\ l = Len(T.ev) + 1 /\ ~pend /\ ~acc /\ out # "running"
  /\ Match(EndObs(T))
  /\ acc' = TRUE /\ UNCHANGED <<vars, tid, l, pend>>

TNext == StepEvent \/ StepPend \/ StepDied \/ Silent \/ Finish
TSpec == TInit /\ [][TNext]_allvars

Report == acc => PrintT(ToJson(<<"acc", tid>>))

Progress == (l' > l) => PrintT(ToJson(<<"at", tid, l'>>))

(* the property, evaluated on what was OBSERVED after the real run *)
Names(c, o) == (IF P_OldOrNew(c, o) THEN <<>> ELSE <<"OldOrNew">>)
            \o (IF P_FailKeepsOld(c, o) THEN <<>> ELSE <<"FailKeepsOld">>)
            \o (IF P_InvalidateOnlyIfReplaced(c, o) THEN <<>> ELSE <<"InvalidateOnlyIfReplaced">>)
            \o (IF P_ShardNeverOverwrites(c, o) THEN <<>> ELSE <<"ShardNeverOverwrites">>)
Devs(c, o) == (IF D_AbsentOrNew(c, o) THEN <<>> ELSE <<"AbsentOrNew">>)

PropReport ==
  (TLCGet("level") = 1) =>
     LET c == TCfg(T)
         \* a tensor that still claims valid() but cannot be read back counts as not valid any more
         o == [EndObs(T) EXCEPT !.invalid = @ \cup SeqToSet(T.end.unusable)] IN
       /\ (Names(c, o) # <<>> => PrintT(ToJson(<<"viol", tid, Names(c, o)>>)))
       /\ (~P_BystandersKept(c, o) => PrintT(ToJson(<<"byst", tid, o.invalid \ c.backed>>)))
       /\ (Devs(c, o) # <<>> => PrintT(ToJson(<<"dev", tid, Devs(c, o)>>)))

(* while a run conforms the model state is a state of the design: its invariants hold *)
MechOK == TypeOK /\ OldOrNew /\ InvalidateOnlyIfReplaced /\ ShardNeverOverwrites /\ BystandersUntouched
=============================================================================
