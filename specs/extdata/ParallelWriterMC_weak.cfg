SPECIFICATION MCSpecWeak
CONSTANTS
  Cap = 2
  Family = "mixed"
INVARIANT WeakBudget
CHECK_DEADLOCK TRUE
