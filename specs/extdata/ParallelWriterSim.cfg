SPECIFICATION SimSpec
CONSTANTS
  Cap = 2
  Family = "single3"
INVARIANT EmitDone
CHECK_DEADLOCK FALSE
