--------------------------- MODULE ParallelWriter ---------------------------
(***************************************************************************)
(* C09 - concurrent external-data writing of onnx_ir                       *)
(* (src/onnx_ir/external_data.py).                                         *)
(*                                                                         *)
(* One action per synchronisation point of the real code:                  *)
(*   _write_external_tensors   shard-driver pool (DTake, DFinish, JoinAll) *)
(*   _ExternalDataWriter._write_parallel                                   *)
(*        pool task take (Take), inner callback lock (ICbAcq/ICbRel),      *)
(*        files_lock of _thread_file (FAcq/FRel), future completion        *)
(*        (Finish), first failure => shutdown(cancel_futures)              *)
(*        (FirstFailure), shutdown(wait=True) (JoinInner)                  *)
(*   _write_serial (driver with one inner worker) : same per-tensor steps  *)
(*   _locked_callback          outer callback lock (OCbAcq/OCbRel)         *)
(*   user callback             CbRun / CbFail (it raises)                  *)
(*   _write_tensor             per-tensor-OBJECT lock (TLock/TUnlock)      *)
(*   _ByteBudget.acquire       AcqFit / AcqOver / AcqBlock, and for a      *)
(*                             notified waiter WakeFit / WakeBlock         *)
(*   tensor.tofile             Write (atomic) / WriteFail (failing tensor) *)
(*        WriteFail and CbFail do not depend on the KIND of the exception  *)
(*        (cfg.fkind: RuntimeError, OSError, a BaseException that is not   *)
(*        an Exception, KeyboardInterrupt, SystemExit): no action reads    *)
(*        it, so ErrJoin & co. have to hold for every kind                 *)
(*   _ByteBudget.release       Release (notify_all: every waiter is        *)
(*                             re-evaluated)                               *)
(*                                                                         *)
(* A save without any concurrency (max_workers None/1, cfg.plain) is the   *)
(* caller running _write_serial: callback (no lock), tensor lock, write    *)
(* (no budget), unlock, for every tensor of every file in order.           *)
(*                                                                         *)
(* Thread ids: 0 = the caller.  Without concurrent shards the caller is    *)
(* the only "driver" (it runs _write_parallel itself) and its pool         *)
(* workers are 1..ni.  With concurrent shards the drivers are 1..nd and    *)
(* the inner workers of driver d are 10*d+1 .. 10*d+ni.                    *)
(*                                                                         *)
(* TWO WRITER KINDS share the per-tensor-object lock table (tlock), the    *)
(* byte budget (with its single oversized slot) and, between concurrent    *)
(* shards, the outer callback lock.  Their acquisition orders are those of *)
(* the code:                                                               *)
(*   serial writer (a shard driver running _write_serial, SerialWriterStep)*)
(*       outer callback lock .. released, tensor lock, budget, write,      *)
(*       budget release, tensor unlock                                     *)
(*   pool worker of _write_parallel (PoolWriterStep)                       *)
(*       inner callback lock, [outer callback lock ..], both released,     *)
(*       files_lock .. released, tensor lock, budget, write, budget        *)
(*       release, tensor unlock                                            *)
(* Both take lock(T) BEFORE the bytes: that consistency is what makes a    *)
(* tensor object shared between a serial shard and a parallel shard under  *)
(* a tight budget deadlock free (ParallelWriterMC_weak.cfg swaps the order *)
(* of the pool worker and TLC finds the deadlock).                         *)
(*                                                                         *)
(* The configuration is a (constant) variable so that one TLC run covers   *)
(* many configurations and one JVM validates traces of many configurations.*)
(***************************************************************************)
EXTENDS Integers, Sequences, FiniteSets, TLC

NoOne == -1

PMin(a, b) == IF a < b THEN a ELSE b
PMax(a, b) == IF a > b THEN a ELSE b

(***************************************************************************)
(* Layout: transcription of _shard_tensors (alignment = None) and of the   *)
(* offset computation of convert_tensors_to_external.                      *)
(***************************************************************************)
LayStep(raw, a, i) ==
  LET nb  == raw.size[i]
      new == raw.maxShard > 0 /\ a.sz + nb > raw.maxShard /\ a.cnt > 0
      s   == IF new THEN a.cur + 1 ELSE a.cur
      o   == IF new THEN 0 ELSE a.sz
  IN [sh |-> Append(a.sh, s), off |-> Append(a.off, o), cur |-> s, sz |-> o + nb,
      cnt |-> IF new THEN 1 ELSE a.cnt + 1]

RECURSIVE LayFrom(_, _, _)
LayFrom(raw, a, i) == IF i > Len(raw.size) THEN a ELSE LayFrom(raw, LayStep(raw, a, i), i + 1)
Layout(raw) == LayFrom(raw, [sh |-> <<>>, off |-> <<>>, cur |-> 1, sz |-> 0, cnt |-> 0], 1)

\* raw = [size, obj, fail, cbfail, fkind, cap, mw, maxShard]  (maxShard = 0: one file)
\*   fail   : tensor OBJECTS whose evaluation (tofile / tobytes / numpy) raises
\*   cbfail : tensor INDICES for which the progress callback raises
\*   fkind  : the kind of exception raised by both (a label: no action reads it)
MkBase(raw) ==
  LET lay     == Layout(raw)
      ns      == lay.cur
      sharded == raw.maxShard > 0 /\ ns > 1 /\ raw.mw > 1
      \* as _write_external_tensors computes them
      nd      == IF sharded THEN PMin(raw.mw, ns) ELSE 1
      ni      == IF sharded THEN PMax(1, (raw.mw - nd) \div nd) ELSE raw.mw
      \* no concurrency at all: max_workers None/1 (one file or shards written one after the other by the caller),
      \* or a single tensor.  The caller runs _write_serial itself: callback without any lock, tensor lock, NO budget
      plain   == ~sharded /\ (raw.mw <= 1 \/ Len(raw.size) <= 1)
  IN [n |-> Len(raw.size), size |-> raw.size, obj |-> raw.obj, fail |-> raw.fail,
      cbfail |-> raw.cbfail, fkind |-> raw.fkind,
      cap |-> PMax(raw.cap, 1), mw |-> raw.mw, maxShard |-> raw.maxShard, ns |-> ns,
      shardOf |-> lay.sh, off |-> lay.off, sharded |-> sharded, plain |-> plain, nd |-> nd, ni |-> ni]

BDrv(c)      == IF c.sharded THEN 1..c.nd ELSE {0}
BWrkOf(c, d) == IF c.ni > 1 THEN {10 * d + k : k \in 1..c.ni} ELSE {}
BTensorsOf(c, s) == SelectSeq([i \in 1..c.n |-> i], LAMBDA i : c.shardOf[i] = s)
BMaxSize(c)  == IF c.n = 0 THEN 0 ELSE CHOOSE m \in {c.size[i] : i \in 1..c.n} : \A i \in 1..c.n : c.size[i] <= m
BFlen(c, s)  == LET e == {c.off[i] + c.size[i] : i \in {i \in 1..c.n : c.shardOf[i] = s}}
                IN IF e = {} THEN 0 ELSE CHOOSE m \in e : \A x \in e : x <= m
BZeroFiles(c) == [s \in 1..c.ns |-> [k \in 1..BFlen(c, s) |-> 0]]
WriteAt(c, f, i) ==
  [f EXCEPT ![c.shardOf[i]] =
      [k \in DOMAIN @ |-> IF k > c.off[i] /\ k <= c.off[i] + c.size[i] THEN c.obj[i] ELSE @[k]]]
RECURSIVE SerialFrom(_, _, _)
SerialFrom(c, f, i) == IF i > c.n THEN f ELSE SerialFrom(c, WriteAt(c, f, i), i + 1)

\* the full configuration record: layout, thread structure, and what _write_serial produces
\* (tensors written one after the other in declaration order)
MkCfg(raw) ==
  LET c == MkBase(raw)
      drv == BDrv(c)
      wrk == UNION {BWrkOf(c, d) : d \in drv}
  IN [n |-> c.n, size |-> c.size, obj |-> c.obj, fail |-> c.fail, cbfail |-> c.cbfail, fkind |-> c.fkind,
      cap |-> c.cap, mw |-> c.mw,
      maxShard |-> c.maxShard, ns |-> c.ns, shardOf |-> c.shardOf, off |-> c.off,
      sharded |-> c.sharded, plain |-> c.plain, nd |-> c.nd, ni |-> c.ni,
      drv |-> drv, wrkOf |-> [d \in drv |-> BWrkOf(c, d)], wrk |-> wrk, thr |-> {0} \cup drv \cup wrk,
      objs |-> {c.obj[i] : i \in 1..c.n},
      tens |-> [s \in 1..c.ns |-> BTensorsOf(c, s)],
      par |-> [s \in 1..c.ns |-> c.ni > 1 /\ Len(BTensorsOf(c, s)) > 1],   \* _ExternalDataWriter.write
      objSize |-> [o \in {c.obj[i] : i \in 1..c.n} |-> c.size[CHOOSE i \in 1..c.n : c.obj[i] = o]],
      maxSize |-> BMaxSize(c), zero |-> BZeroFiles(c), serial |-> SerialFrom(c, BZeroFiles(c), 1)]

\* does the configuration contain a tensor OBJECT shared between a serial shard and a parallel shard?
MixedShared(c) ==
  c.sharded /\ \E i, j \in 1..c.n : /\ c.obj[i] = c.obj[j]
                                     /\ c.par[c.shardOf[i]] /\ ~c.par[c.shardOf[j]]
Drv(c)      == c.drv
WrkOf(c, d) == c.wrkOf[d]
Wrk(c)      == c.wrk
Thr(c)      == c.thr
DrvOf(w)    == w \div 10
Objs(c)     == c.objs
TensorsOf(c, s) == c.tens[s]
Par(c, s)   == c.par[s]
MaxSize(c)  == c.maxSize
ZeroFiles(c) == c.zero
SerialFile(c) == c.serial

(***************************************************************************)
VARIABLES
  cfg,        \* the configuration record built by MkCfg (never changes)
  pc,         \* thread -> control point
  task,       \* thread -> tensor index being processed (0: none)
  job,        \* driver -> shard being written (0: none)
  queue,      \* driver -> tensor indices still queued in its pool / still to be written serially
  shardQ,     \* shard jobs queued in the driver pool
  tstat,      \* tensor index -> "queued" | "running" | "ok" | "failed" | "cancelled"
  jstat,      \* shard -> "queued" | "running" | "ok" | "failed"
  exc,        \* threads in which an exception is propagating / drivers whose job failed
  hasFile,    \* workers that already registered their per-thread file handle
  tlock,      \* tensor object -> owner of its write lock
  icb,        \* driver -> owner of the callback lock of its _write_parallel
  ocb,        \* owner of the callback lock shared by the shard drivers
  flock,      \* driver -> owner of files_lock
  inFlight, oversized, waiters,   \* _ByteBudget: counter, flag, threads parked on the condition
  file,       \* shard -> bytes of the (temporary) data file; 0 = hole
  cbCount     \* tensor index -> number of callback invocations

vars == <<cfg, pc, task, job, queue, shardQ, tstat, jstat, exc, hasFile, tlock, icb, ocb, flock,
          inFlight, oversized, waiters, file, cbCount>>
vPool  == <<job, queue, shardQ, tstat, jstat>>
vLocks == <<tlock, icb, ocb, flock>>
vBud   == <<inFlight, oversized, waiters>>
vOut   == <<file, cbCount>>

T  == cfg.thr
Sz(t)  == cfg.size[task[t]]
Ob(t)  == cfg.obj[task[t]]
Big(t) == Sz(t) > cfg.cap
IsWrk(t) == t > (IF cfg.sharded THEN 10 ELSE 0)
CanAcq(t) == IF Big(t) THEN ~oversized ELSE inFlight + Sz(t) <= cfg.cap

InitFor(c) ==
  /\ cfg = c
  /\ pc = [t \in Thr(c) |-> IF t = 0 THEN (IF c.sharded THEN "cwait" ELSE IF c.plain THEN "inCb" ELSE "pmain")
                            ELSE IF t \in Drv(c) THEN "didle" ELSE "idle"]
  \* plain: the caller is about to invoke the callback of the first tensor; all tensors (of all files) follow in order
  /\ task = [t \in Thr(c) |-> IF c.plain /\ t = 0 THEN 1 ELSE 0]
  /\ job = [d \in Drv(c) |-> IF c.sharded THEN 0 ELSE 1]
  /\ queue = [d \in Drv(c) |-> IF c.sharded THEN <<>>
                               ELSE IF c.plain THEN [k \in 1..(c.n - 1) |-> k + 1] ELSE TensorsOf(c, 1)]
  /\ shardQ = IF c.sharded THEN [s \in 1..c.ns |-> s] ELSE <<>>
  /\ tstat = [i \in 1..c.n |-> IF c.plain /\ i = 1 THEN "running" ELSE "queued"]
  /\ jstat = [s \in 1..c.ns |-> IF c.sharded THEN "queued" ELSE "running"]
  /\ exc = {}
  /\ hasFile = {}
  /\ tlock = [o \in Objs(c) |-> NoOne]
  /\ icb = [d \in Drv(c) |-> NoOne]
  /\ ocb = NoOne
  /\ flock = [d \in Drv(c) |-> NoOne]
  /\ inFlight = 0 /\ oversized = FALSE /\ waiters = {}
  /\ file = ZeroFiles(c)
  /\ cbCount = [i \in 1..c.n |-> 0]

(***************************************************************************)
(* Shard-driver pool (_write_external_tensors)                             *)
(***************************************************************************)
DTake(d) ==
  /\ cfg.sharded /\ d \in Drv(cfg) /\ pc[d] = "didle" /\ shardQ # <<>>
  /\ LET s  == Head(shardQ)
         ts == TensorsOf(cfg, s)
     IN /\ shardQ' = Tail(shardQ)
        /\ job' = [job EXCEPT ![d] = s]
        /\ jstat' = [jstat EXCEPT ![s] = "running"]
        /\ IF Par(cfg, s)
           THEN /\ queue' = [queue EXCEPT ![d] = ts]
                /\ pc' = [pc EXCEPT ![d] = "pmain"]
                /\ UNCHANGED <<task, tstat>>
           ELSE /\ queue' = [queue EXCEPT ![d] = Tail(ts)]            \* _write_serial
                /\ task' = [task EXCEPT ![d] = Head(ts)]
                /\ tstat' = [tstat EXCEPT ![Head(ts)] = "running"]
                /\ pc' = [pc EXCEPT ![d] = "ocbWait"]
  /\ UNCHANGED <<cfg, exc, hasFile, vLocks, vBud, vOut>>

\* the shard job's future completes
DFinish(d) ==
  /\ d \in Drv(cfg) /\ d # 0 /\ pc[d] = "dfinish"
  /\ jstat' = [jstat EXCEPT ![job[d]] = IF d \in exc THEN "failed" ELSE "ok"]
  /\ job' = [job EXCEPT ![d] = 0]
  /\ exc' = exc \ {d}
  /\ pc' = [pc EXCEPT ![d] = "didle"]
  /\ UNCHANGED <<cfg, task, queue, shardQ, tstat, hasFile, vLocks, vBud, vOut>>

\* the caller leaves `with ThreadPoolExecutor(...)`: shutdown(wait=True), nothing is cancelled
JoinAll ==
  /\ cfg.sharded /\ pc[0] = "cwait" /\ shardQ = <<>>
  /\ \A d \in Drv(cfg) : pc[d] = "didle"
  /\ pc' = [pc EXCEPT ![0] = "dfinish"]
  /\ exc' = IF \E s \in 1..cfg.ns : jstat[s] = "failed" THEN exc \cup {0} ELSE exc
  /\ UNCHANGED <<cfg, task, vPool, hasFile, vLocks, vBud, vOut>>

\* the public call returns to / raises in the caller
Return ==
  /\ pc[0] = "dfinish"
  /\ pc' = [pc EXCEPT ![0] = IF 0 \in exc THEN "raised" ELSE "returned"]
  /\ jstat' = IF cfg.sharded THEN jstat ELSE [jstat EXCEPT ![1] = IF 0 \in exc THEN "failed" ELSE "ok"]
  /\ UNCHANGED <<cfg, task, job, queue, shardQ, tstat, exc, hasFile, vLocks, vBud, vOut>>

(***************************************************************************)
(* Pool of _write_parallel                                                 *)
(***************************************************************************)
\* ThreadPoolExecutor starts one thread per submitted task up to max_workers: pool thread k exists only
\* if the job has at least k tasks
PoolHas(w) == (w % 10) <= Len(TensorsOf(cfg, job[DrvOf(w)]))

Take(w) ==
  /\ IsWrk(w) /\ pc[w] = "idle"
  /\ LET d == DrvOf(w)
     IN /\ pc[d] = "pmain" /\ queue[d] # <<>> /\ PoolHas(w)
        /\ task' = [task EXCEPT ![w] = Head(queue[d])]
        /\ tstat' = [tstat EXCEPT ![Head(queue[d])] = "running"]
        /\ queue' = [queue EXCEPT ![d] = Tail(@)]
  /\ pc' = [pc EXCEPT ![w] = "icbWait"]
  /\ UNCHANGED <<cfg, job, shardQ, jstat, exc, hasFile, vLocks, vBud, vOut>>

\* the worker's future completes (set_result / set_exception)
Finish(w) ==
  /\ IsWrk(w) /\ pc[w] = "finish"
  /\ tstat' = [tstat EXCEPT ![task[w]] = IF w \in exc THEN "failed" ELSE "ok"]
  /\ exc' = exc \ {w}
  /\ task' = [task EXCEPT ![w] = 0]
  /\ pc' = [pc EXCEPT ![w] = "idle"]
  /\ UNCHANGED <<cfg, job, queue, shardQ, jstat, hasFile, vLocks, vBud, vOut>>

JobTensors(d) == {i \in 1..cfg.n : cfg.shardOf[i] = job[d]}

\* as_completed delivers a failed future: executor.shutdown(wait=True, cancel_futures=True), part 1
FirstFailure(d) ==
  /\ d \in Drv(cfg) /\ pc[d] = "pmain"
  /\ \E i \in JobTensors(d) : tstat[i] = "failed"
  /\ tstat' = [i \in 1..cfg.n |-> IF \E k \in DOMAIN queue[d] : queue[d][k] = i THEN "cancelled" ELSE tstat[i]]
  /\ queue' = [queue EXCEPT ![d] = <<>>]
  /\ pc' = [pc EXCEPT ![d] = "pjoin"]
  /\ UNCHANGED <<cfg, task, job, shardQ, jstat, exc, hasFile, vLocks, vBud, vOut>>

\* shutdown(wait=True) returns: every pool thread has stopped
JoinInner(d) ==
  /\ d \in Drv(cfg)
  /\ \/ pc[d] = "pjoin"
     \/ pc[d] = "pmain" /\ \A i \in JobTensors(d) : tstat[i] = "ok"
  /\ queue[d] = <<>>
  /\ \A w \in WrkOf(cfg, d) : pc[w] = "idle"
  /\ exc' = IF pc[d] = "pjoin" THEN exc \cup {d} ELSE exc
  /\ hasFile' = hasFile \ WrkOf(cfg, d)
  /\ pc' = [pc EXCEPT ![d] = "dfinish"]
  /\ UNCHANGED <<cfg, task, vPool, vLocks, vBud, vOut>>

(***************************************************************************)
(* Per-tensor steps of a writer thread (pool worker, or serial driver)     *)
(***************************************************************************)
ICbAcq(w) ==
  /\ IsWrk(w) /\ pc[w] = "icbWait" /\ icb[DrvOf(w)] = NoOne
  /\ icb' = [icb EXCEPT ![DrvOf(w)] = w]
  /\ pc' = [pc EXCEPT ![w] = IF cfg.sharded THEN "ocbWait" ELSE "inCb"]
  /\ UNCHANGED <<cfg, task, vPool, exc, hasFile, tlock, ocb, flock, vBud, vOut>>

OCbAcq(t) ==
  /\ pc[t] = "ocbWait" /\ ocb = NoOne
  /\ ocb' = t
  /\ pc' = [pc EXCEPT ![t] = "inCb"]
  /\ UNCHANGED <<cfg, task, vPool, exc, hasFile, tlock, icb, flock, vBud, vOut>>

\* an exception leaves the loop of _write_serial (a shard driver): the tensors not yet written never are
SerialRaise(t) ==
  /\ tstat' = [i \in 1..cfg.n |->
                 IF i = task[t] THEN "failed"
                 ELSE IF \E k \in DOMAIN queue[t] : queue[t][k] = i THEN "cancelled"
                 ELSE tstat[i]]
  /\ queue' = [queue EXCEPT ![t] = <<>>]
  /\ task' = [task EXCEPT ![t] = 0]
  /\ pc' = [pc EXCEPT ![t] = "dfinish"]

\* the user's progress callback runs
CbRun(t) ==
  /\ pc[t] = "inCb" /\ task[t] \notin cfg.cbfail
  /\ cbCount' = [cbCount EXCEPT ![task[t]] = @ + 1]
  /\ pc' = [pc EXCEPT ![t] = IF cfg.plain THEN "lockWait" ELSE IF cfg.sharded THEN "ocbRel" ELSE "icbRel"]
  /\ UNCHANGED <<cfg, task, vPool, exc, hasFile, vLocks, vBud, file>>

\* the user's progress callback runs and raises (indices in cfg.cbfail) - whatever the KIND of the exception
\* (cfg.fkind is not read): the `with` statements around the call release the callback lock(s) on the way out
CbFail(t) ==
  /\ pc[t] = "inCb" /\ task[t] \in cfg.cbfail
  /\ cbCount' = [cbCount EXCEPT ![task[t]] = @ + 1]
  /\ exc' = exc \cup {t}
  /\ IF cfg.plain                        \* no lock around the callback: the exception leaves _write_serial
     THEN SerialRaise(t)
     ELSE pc' = [pc EXCEPT ![t] = IF cfg.sharded THEN "ocbRel" ELSE "icbRel"] /\ UNCHANGED <<task, queue, tstat>>
  /\ UNCHANGED <<cfg, job, shardQ, jstat, hasFile, vLocks, vBud, file>>

OCbRel(t) ==
  /\ pc[t] = "ocbRel"
  /\ ocb' = NoOne
  /\ IF IsWrk(t)
     THEN pc' = [pc EXCEPT ![t] = "icbRel"] /\ UNCHANGED <<task, queue, tstat>>
     ELSE IF t \in exc                      \* the callback raised in the serial writer
     THEN SerialRaise(t)
     ELSE pc' = [pc EXCEPT ![t] = "lockWait"] /\ UNCHANGED <<task, queue, tstat>>
  /\ UNCHANGED <<cfg, job, shardQ, jstat, exc, hasFile, tlock, icb, flock, vBud, vOut>>

ICbRel(w) ==
  /\ IsWrk(w) /\ pc[w] = "icbRel"
  /\ icb' = [icb EXCEPT ![DrvOf(w)] = NoOne]
  /\ pc' = [pc EXCEPT ![w] = IF w \in exc THEN "finish"          \* the callback raised: the task is over
                             ELSE IF w \in hasFile THEN "lockWait" ELSE "fWait"]
  /\ UNCHANGED <<cfg, task, vPool, exc, hasFile, tlock, ocb, flock, vBud, vOut>>

\* _thread_file(): first use in a pool thread registers the handle under files_lock
FAcq(w) ==
  /\ IsWrk(w) /\ pc[w] = "fWait" /\ flock[DrvOf(w)] = NoOne
  /\ flock' = [flock EXCEPT ![DrvOf(w)] = w]
  /\ pc' = [pc EXCEPT ![w] = "fHeld"]
  /\ UNCHANGED <<cfg, task, vPool, exc, hasFile, tlock, icb, ocb, vBud, vOut>>

FRel(w) ==
  /\ IsWrk(w) /\ pc[w] = "fHeld"
  /\ flock' = [flock EXCEPT ![DrvOf(w)] = NoOne]
  /\ hasFile' = hasFile \cup {w}
  /\ pc' = [pc EXCEPT ![w] = "lockWait"]
  /\ UNCHANGED <<cfg, task, vPool, exc, tlock, icb, ocb, vBud, vOut>>

\* with self._tensor_write_locks[id(tensor)]
TLock(t) ==
  /\ pc[t] = "lockWait" /\ tlock[Ob(t)] = NoOne
  /\ tlock' = [tlock EXCEPT ![Ob(t)] = t]
  /\ pc' = [pc EXCEPT ![t] = "holdLock"]
  /\ UNCHANGED <<cfg, task, vPool, exc, hasFile, icb, ocb, flock, vBud, vOut>>

Reserve(t) ==
  IF Big(t) THEN oversized' = TRUE /\ UNCHANGED inFlight
            ELSE inFlight' = inFlight + Sz(t) /\ UNCHANGED oversized

\* _ByteBudget.acquire, first evaluation of the predicate
AcqFit(t) ==
  /\ pc[t] = "holdLock" /\ ~cfg.plain /\ ~Big(t) /\ CanAcq(t)
  /\ Reserve(t) /\ UNCHANGED waiters
  /\ pc' = [pc EXCEPT ![t] = "reserved"]
  /\ UNCHANGED <<cfg, task, vPool, exc, hasFile, vLocks, vOut>>

AcqOver(t) ==
  /\ pc[t] = "holdLock" /\ ~cfg.plain /\ Big(t) /\ CanAcq(t)
  /\ Reserve(t) /\ UNCHANGED waiters
  /\ pc' = [pc EXCEPT ![t] = "reserved"]
  /\ UNCHANGED <<cfg, task, vPool, exc, hasFile, vLocks, vOut>>

AcqBlock(t) ==
  /\ pc[t] = "holdLock" /\ ~cfg.plain /\ ~CanAcq(t)
  /\ waiters' = waiters \cup {t}
  /\ pc' = [pc EXCEPT ![t] = "budWait"]
  /\ UNCHANGED <<cfg, task, vPool, exc, hasFile, vLocks, inFlight, oversized, vOut>>

\* a notified waiter re-evaluates its predicate
WakeFit(t) ==
  /\ pc[t] = "budWait" /\ t \notin waiters /\ CanAcq(t)
  /\ Reserve(t) /\ UNCHANGED waiters
  /\ pc' = [pc EXCEPT ![t] = "reserved"]
  /\ UNCHANGED <<cfg, task, vPool, exc, hasFile, vLocks, vOut>>

WakeBlock(t) ==
  /\ pc[t] = "budWait" /\ t \notin waiters /\ ~CanAcq(t)
  /\ waiters' = waiters \cup {t}
  /\ UNCHANGED <<cfg, pc, task, vPool, exc, hasFile, vLocks, inFlight, oversized, vOut>>

\* tensor.tofile (or file.write(tensor.tobytes())) at the tensor's offset
\* (plain: there is no budget - the tensor is evaluated right after its lock was taken)
EvalPc    == IF cfg.plain THEN "holdLock" ELSE "reserved"
AfterEval == IF cfg.plain THEN "unlocking" ELSE "releasing"
Write(t) ==
  /\ pc[t] = EvalPc /\ Ob(t) \notin cfg.fail
  /\ file' = WriteAt(cfg, file, task[t])
  /\ pc' = [pc EXCEPT ![t] = AfterEval]
  /\ UNCHANGED <<cfg, task, vPool, exc, hasFile, vLocks, vBud, cbCount>>

\* a failing tensor raises (in tofile / tobytes / numpy) and writes nothing - whatever the KIND of the
\* exception (cfg.fkind is not read): the finally clause releases the reservation, the `with` the tensor lock
WriteFail(t) ==
  /\ pc[t] = EvalPc /\ Ob(t) \in cfg.fail
  /\ exc' = exc \cup {t}
  /\ pc' = [pc EXCEPT ![t] = AfterEval]
  /\ UNCHANGED <<cfg, task, vPool, hasFile, vLocks, vBud, vOut>>

\* _ByteBudget.release in the finally clause: undo the reservation, notify_all
Release(t) ==
  /\ pc[t] = "releasing"
  /\ IF Big(t) THEN oversized' = FALSE /\ UNCHANGED inFlight
               ELSE inFlight' = inFlight - Sz(t) /\ UNCHANGED oversized
  /\ waiters' = {}
  /\ pc' = [pc EXCEPT ![t] = "unlocking"]
  /\ UNCHANGED <<cfg, task, vPool, exc, hasFile, vLocks, vOut>>

TUnlock(t) ==
  /\ pc[t] = "unlocking"
  /\ tlock' = [tlock EXCEPT ![Ob(t)] = NoOne]
  /\ IF IsWrk(t)
     THEN /\ pc' = [pc EXCEPT ![t] = "finish"]
          /\ UNCHANGED <<task, queue, tstat>>
     ELSE \* serial driver: the exception leaves the loop, otherwise next tensor
          IF t \in exc
          THEN SerialRaise(t)
          ELSE IF queue[t] # <<>>
          THEN /\ tstat' = [tstat EXCEPT ![task[t]] = "ok", ![Head(queue[t])] = "running"]
               /\ task' = [task EXCEPT ![t] = Head(queue[t])]
               /\ queue' = [queue EXCEPT ![t] = Tail(@)]
               /\ pc' = [pc EXCEPT ![t] = IF cfg.plain THEN "inCb" ELSE "ocbWait"]
          ELSE /\ tstat' = [tstat EXCEPT ![task[t]] = "ok"]
               /\ task' = [task EXCEPT ![t] = 0]
               /\ pc' = [pc EXCEPT ![t] = "dfinish"]
               /\ UNCHANGED queue
  /\ UNCHANGED <<cfg, job, shardQ, jstat, exc, hasFile, icb, ocb, flock, vBud, vOut>>

AllDone == pc[0] \in {"returned", "raised"}
Terminated == AllDone /\ UNCHANGED vars

(***************************************************************************)
(* The two writer kinds, each with its steps in the order of the code.     *)
(***************************************************************************)
\* _ExternalDataWriter._write_serial run by a shard driver (shared budget, shared lock table):
\*   _locked_callback (outer callback lock) ; _write_tensor = tensor lock -> budget -> write -> release -> unlock
SerialWriterStep(d) ==
  /\ ~IsWrk(d)
  /\ \/ OCbAcq(d) \/ CbRun(d) \/ CbFail(d) \/ OCbRel(d)
     \/ TLock(d)
     \/ AcqFit(d) \/ AcqOver(d) \/ AcqBlock(d) \/ WakeFit(d) \/ WakeBlock(d)
     \/ Write(d) \/ WriteFail(d) \/ Release(d) \/ TUnlock(d)

\* a pool thread of _ExternalDataWriter._write_parallel running _write_one:
\*   callback_lock [-> outer callback lock] ; _thread_file (files_lock) ;
\*   _write_tensor = tensor lock -> budget -> write -> release -> unlock
PoolWriterStep(w) ==
  /\ IsWrk(w)
  /\ \/ ICbAcq(w) \/ OCbAcq(w) \/ CbRun(w) \/ CbFail(w) \/ OCbRel(w) \/ ICbRel(w)
     \/ FAcq(w) \/ FRel(w)
     \/ TLock(w)
     \/ AcqFit(w) \/ AcqOver(w) \/ AcqBlock(w) \/ WakeFit(w) \/ WakeBlock(w)
     \/ Write(w) \/ WriteFail(w) \/ Release(w) \/ TUnlock(w)

\* pools, futures, joins
PoolStep(t) ==
  \/ DTake(t) \/ DFinish(t) \/ Take(t) \/ Finish(t) \/ FirstFailure(t) \/ JoinInner(t)
  \/ (t = 0 /\ (JoinAll \/ Return))

ThreadStep(t) == PoolStep(t) \/ SerialWriterStep(t) \/ PoolWriterStep(t)

Step == \E t \in T : ThreadStep(t)
Next == Step \/ Terminated

(***************************************************************************)
(* The observable state.  The harness records exactly this record from the *)
(* real execution (real _ByteBudget counters, monitors in the callback,    *)
(* in tensor.tofile and around acquire/release), so every formula below is *)
(* evaluated by TLC both on the model and on observed states.              *)
(***************************************************************************)
Obs ==
  [inflight |-> inFlight,
   over     |-> oversized,
   wait     |-> waiters,
   incb     |-> {t \in T : pc[t] = "inCb"},                                   \* inside the user callback
   eval     |-> {<<t, Ob(t)>> : t \in {u \in T : pc[u] = EvalPc}},            \* inside tensor.tofile
   held     |-> {<<t, Sz(t)>> : t \in {u \in T : pc[u] \in {"reserved", "releasing"}}},  \* acquire returned, release not yet
   cb       |-> cbCount,
   busy     |-> {t \in T \ {0} : pc[t] \notin {"idle", "didle"}},
   caller   |-> IF pc[0] \in {"returned", "raised"} THEN pc[0] ELSE "running"]

RECURSIVE SumSet(_)
SumSet(S) == IF S = {} THEN 0 ELSE LET x == CHOOSE x \in S : TRUE IN x[2] + SumSet(S \ {x})

\* in-flight reserved bytes never exceed the budget; materialised bytes <= budget + largest tensor
Budget(c, o) == /\ o.inflight >= 0 /\ o.inflight <= c.cap
                /\ SumSet(o.held) <= c.cap + MaxSize(c)
OneOversized(c, o) == Cardinality({h \in o.held : h[2] > c.cap}) <= 1
CbMutex(o)    == Cardinality(o.incb) <= 1
CbAtMostOnce(c, o) == \A i \in 1..c.n : o.cb[i] <= 1
TensorMutex(o) == \A a, b \in o.eval : a[2] = b[2] => a = b
\* the caller observes the outcome only when every worker has stopped and the budget is whole
ErrJoin(o) == o.caller # "running" => /\ o.busy = {} /\ o.inflight = 0 /\ ~o.over
                                      /\ o.held = {} /\ o.eval = {} /\ o.incb = {}
CbOnce(c, o)  == o.caller = "returned" => \A i \in 1..c.n : o.cb[i] = 1
SameBytes(c, o, f) == o.caller = "returned" => f = SerialFile(c)

InvBudget       == Budget(cfg, Obs)
InvOneOversized == OneOversized(cfg, Obs)
InvCbMutex      == CbMutex(Obs)
InvCbOnce       == CbAtMostOnce(cfg, Obs) /\ CbOnce(cfg, Obs)
InvTensorMutex  == TensorMutex(Obs)
InvErrJoin      == ErrJoin(Obs)
InvSameBytes    == SameBytes(cfg, Obs, file)

\* mechanism consistency (model only): the counters are what the control points say
InvMech ==
  /\ inFlight = SumSet({h \in Obs.held : h[2] <= cfg.cap})
  /\ oversized <=> \E h \in Obs.held : h[2] > cfg.cap
  /\ \A o \in Objs(cfg) : tlock[o] # NoOne =>
        pc[tlock[o]] \in {"holdLock", "budWait", "reserved", "releasing", "unlocking"} /\ Ob(tlock[o]) = o
  /\ \A t \in T : pc[t] \in {"holdLock", "budWait", "reserved", "releasing", "unlocking"} => tlock[Ob(t)] = t
  /\ waiters \subseteq {t \in T : pc[t] = "budWait"}
  /\ (pc[0] = "returned") <=> (AllDone /\ \A i \in 1..cfg.n : cfg.obj[i] \notin cfg.fail /\ i \notin cfg.cbfail)

\* a parked waiter whose predicate holds has been notified (no lost wake-up)
InvNoLostWakeup == \A t \in waiters : ~CanAcq(t)

Termination == <>AllDone
=============================================================================
