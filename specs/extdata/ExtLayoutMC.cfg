SPECIFICATION Spec
CONSTANTS
  Sizes = {0, 1, 3, 4095, 4096, 4097, 8192, 10000}
  MaxLen = 3
  Thresholds = {0, 1, 4096, 100000}
  Alignments = {0, 1, 4096, 12288}
  AlignThresholds = {0, 4096}
  Limits = {0, 1, 4096, 8193, 100000}
  Backends = {"raw", "st"}
  StRule = "design"
  MaxShards = 4
INVARIANT InvThresholdRule
INVARIANT InvExactlyOneShard
INVARIANT InvOrder
INVARIANT InvDisjoint
INVARIANT InvInFile
INVARIANT InvAligned
INVARIANT InvOversizeOnlyAlone
INVARIANT InvNoEmptyShard
INVARIANT InvTight
INVARIANT Emit
CHECK_DEADLOCK FALSE
