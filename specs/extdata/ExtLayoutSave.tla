---------------------------- MODULE ExtLayoutSave ----------------------------
(***************************************************************************)
(* C07, part 2 of the specification (part 1 = ExtLayout.tla).              *)
(***************************************************************************)
EXTENDS ExtLayout

(***************************************************************************)
(* Part 2.  The save protocol.                                             *)
(*   ir.save:  tensors = [v.const_value ...]; try: unload_from_model;      *)
(*             serialize_model; onnx.save  finally: restore                *)
(*   unload_from_model: split; load small external tensors to memory;      *)
(*             [shard;] place; write every file; only then assign the new  *)
(*             tensors to the values                                       *)
(*   save_safetensors: same skeleton (_save_file writes every shard and    *)
(*             the index, then re-points the values; ir.save; finally)     *)
(*                                                                         *)
(* pcfg = configuration + [wasExt : Seq(BOOLEAN)  already an ExternalTensor*)
(*                         fail : 0 (none) | k (materialising tensor k     *)
(*                                raises; k is not an ExternalTensor)      *)
(*                                | Len+1 (writing the model file raises)] *)
(* held[i] = the tensor object the model holds for initializer i:          *)
(*           <<"orig", i>>, <<"ext", i>> (new ExternalTensor) or           *)
(*           <<"mem", i>> (small external tensor loaded to memory)         *)
(***************************************************************************)
CONSTANTS UseFinally,     \* TRUE = as implemented; FALSE = "finally" removed (to show Restored is not vacuous)
          StRule          \* "design" | "impl"  (see StShardStep)

VARIABLES pcfg, pc, held, saved, todo, shst, sidx, plst, placed, wr, outcome
pvars == <<pcfg, pc, held, saved, todo, shst, sidx, plst, placed, wr, outcome>>

Orig(c) == [i \in Idx(c) |-> <<"orig", i>>]

PInit(c) ==
  /\ pcfg = c
  /\ pc = "enter"
  /\ held = Orig(c)
  /\ saved = <<>>
  /\ todo = <<>> /\ shst = ShardInit /\ sidx = 1 /\ plst = PlaceInit /\ placed = <<>> /\ wr = 0
  /\ outcome = "running"

\* tensors = [v.const_value for v in initialized_values]
Enter ==
  /\ pc = "enter"
  /\ saved' = held
  /\ pc' = "split"
  /\ UNCHANGED <<pcfg, held, todo, shst, sidx, plst, placed, wr, outcome>>

\* classify; the already-external tensors that stay inline are read into memory (raw backend)
Split ==
  /\ pc = "split"
  /\ todo' = ExtSeq(pcfg)
  /\ pc' = IF pcfg.be = "st" /\ ExtSeq(pcfg) = <<>> THEN "serialize"
           ELSE IF pcfg.lim = NoneV THEN "place" ELSE "shard"
  /\ shst' = IF pcfg.lim = NoneV THEN [shards |-> <<ExtSeq(pcfg)>>, size |-> 0] ELSE ShardInit
  /\ UNCHANGED <<pcfg, held, saved, sidx, plst, placed, wr, outcome>>

\* one tensor per step: _shard_tensors
Shard ==
  /\ pc = "shard"
  /\ IF todo = <<>>
     THEN pc' = "place" /\ UNCHANGED <<todo, shst>>
     ELSE /\ shst' = ShardStep(shst, Head(todo), pcfg, StRule)
          /\ todo' = Tail(todo)
          /\ pc' = pc
  /\ UNCHANGED <<pcfg, held, saved, sidx, plst, placed, wr, outcome>>

\* one tensor per step: _compute_external_data_info in convert_tensors_to_external, file after file
Place ==
  /\ pc = "place"
  /\ LET sh == shst.shards IN
       IF sidx > Len(sh)
       THEN pc' = "write" /\ UNCHANGED <<sidx, plst, placed>>
       ELSE LET donek == Len(plst.out) IN
              IF donek = Len(sh[sidx])
              THEN /\ placed' = Append(placed, plst) /\ plst' = PlaceInit /\ sidx' = sidx + 1 /\ pc' = pc
              ELSE /\ plst' = PlaceStep(plst, sh[sidx][donek + 1], pcfg)
                   /\ UNCHANGED <<sidx, placed>> /\ pc' = pc
  /\ UNCHANGED <<pcfg, held, saved, todo, shst, wr, outcome>>

\* one tensor per step, in declaration order: materialise + write; the failing tensor raises
Write ==
  /\ pc = "write"
  /\ LET ext == ExtSeq(pcfg) IN
       IF wr = Len(ext)
       THEN pc' = "assign" /\ UNCHANGED <<wr, outcome>>
       ELSE IF pcfg.fail = ext[wr + 1]
            THEN pc' = "finally" /\ outcome' = "raising" /\ UNCHANGED wr
            ELSE wr' = wr + 1 /\ UNCHANGED <<pc, outcome>>
  /\ UNCHANGED <<pcfg, held, saved, todo, shst, sidx, plst, placed>>

\* value.const_value = external_tensor / memory_tensor  - only after every file is complete
Assign ==
  /\ pc = "assign"
  /\ held' = [i \in Idx(pcfg) |->
                IF IsExternal(pcfg.be, pcfg.sizes[i], pcfg.thr) THEN <<"ext", i>>
                ELSE IF pcfg.be = "raw" /\ pcfg.wasExt[i] THEN <<"mem", i>>
                ELSE held[i]]
  /\ pc' = "serialize"
  /\ UNCHANGED <<pcfg, saved, todo, shst, sidx, plst, placed, wr, outcome>>

\* serde.serialize_model: materialises the inline tensors; then onnx.save
Serialize ==
  /\ pc = "serialize"
  /\ IF \/ \E i \in Idx(pcfg) : pcfg.fail = i /\ ~IsExternal(pcfg.be, pcfg.sizes[i], pcfg.thr)
             /\ ~(pcfg.be = "raw" /\ pcfg.wasExt[i])
        \/ pcfg.fail = Len(pcfg.sizes) + 1
     THEN outcome' = "raising"
     ELSE outcome' = "returning"
  /\ pc' = "finally"
  /\ UNCHANGED <<pcfg, held, saved, todo, shst, sidx, plst, placed, wr>>

\* finally: for initializer, tensor in zip(initialized_values, tensors): initializer.const_value = tensor
Finally ==
  /\ pc = "finally"
  /\ held' = IF UseFinally THEN saved ELSE held
  /\ pc' = "done"
  /\ outcome' = IF outcome = "raising" THEN "raised" ELSE "returned"
  /\ UNCHANGED <<pcfg, saved, todo, shst, sidx, plst, placed, wr>>

PNext == Enter \/ Split \/ Shard \/ Place \/ Write \/ Assign \/ Serialize \/ Finally

\* --- formulas of part 2 ---------------------------------------------------------------------------
Restored == pc = "done" => held = Orig(pcfg)

\* the step-wise placement is the pure Layout
StepwiseIsLayout ==
  pc \in {"write", "assign"} =>
    LayoutOfShards(pcfg, shst.shards) = Layout(pcfg, StRule)
    /\ \A k \in 1..Len(placed) : placed[k] = PlaceFold(PlaceInit, shst.shards[k], pcfg)

\* raw: the offsets _shard_tensors reasons with are those convert_tensors_to_external uses later
ShardSizeIsFileSize ==
  (pc = "place" /\ pcfg.lim # NoneV /\ pcfg.be = "raw") =>
     shst.size = PlaceFold(PlaceInit, shst.shards[Len(shst.shards)], pcfg).off

\* nothing is re-pointed before every data file is complete
NoEarlyAssign == pc \in {"split", "shard", "place", "write"} => held = saved

FailureSurfaces == (pc = "done" /\ pcfg.fail # 0) => outcome = "raised"
SuccessReturns  == (pc = "done" /\ pcfg.fail = 0) => outcome = "returned"
=============================================================================
