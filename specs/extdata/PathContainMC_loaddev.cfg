\* the derivation of base_dir as pinned (dirname(path) without fallback): LoadBase must FAIL here
CONSTANTS
  InstFS <- MCInstFS
  Spell <- MCSpell
  LoadFix = FALSE
  LoadReach <- AllPlacements
  InstSet = {1}
  SpellSet = {11, 12, 13, 14, 15, 16, 17, 18, 20}
  MaxUnits = 3
  ProtoInsts = {}
  ProtoSpells = {}
  ProtoLocIds = {}
  MaxDepth = 0
  EmitOn = FALSE
INIT InitEnum
NEXT NextEnum
INVARIANT LoadBase
INVARIANT FailClosed
