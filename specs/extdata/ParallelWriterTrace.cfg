SPECIFICATION TSpec
INVARIANT Report
INVARIANT MechOK
ACTION_CONSTRAINT ReportDiv
CHECK_DEADLOCK FALSE
