SPECIFICATION MCSpec
CONSTANTS
  Cap = 2
  Family = "quick"
INVARIANT InvBudget
INVARIANT InvOneOversized
INVARIANT InvCbMutex
INVARIANT InvCbOnce
INVARIANT InvTensorMutex
INVARIANT InvErrJoin
INVARIANT InvSameBytes
INVARIANT InvMech
INVARIANT InvNoLostWakeup
CHECK_DEADLOCK TRUE
