SPECIFICATION MCSpec
CONSTANTS
  UseFinally = TRUE
  StRule = "design"
  PSizes = {0, 1, 4097}
  PMaxLen = 2
  PThr = {0, 1, 100000}
  PAl = {0, 4096}
  PAthr = {0, 4096}
  PLim = {0, 4096}
INVARIANT Restored
INVARIANT StepwiseIsLayout
INVARIANT ShardSizeIsFileSize
INVARIANT NoEarlyAssign
INVARIANT FailureSurfaces
INVARIANT SuccessReturns
CHECK_DEADLOCK FALSE
