\* access protocol of one tensor: all call histories up to MaxDepth
CONSTANTS
  InstFS <- MCInstFS
  Spell <- MCSpell
  LoadFix = TRUE
  LoadReach <- AllPlacements
  InstSet = {}
  SpellSet = {}
  MaxUnits = 0
  ProtoInsts = {2}
  ProtoSpells = {1, 2, 8, 19}
  ProtoLocIds = {1, 2, 3, 4, 5}
  MaxDepth = 3
  EmitOn = TRUE
INIT InitProto
NEXT NextProto
INVARIANT EmitHist
INVARIANT NoByteBeforeCheck
INVARIANT BytesFromCheckedOpen
