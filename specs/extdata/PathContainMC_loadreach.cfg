\* a traversal that reaches only the main graph (set_base_dir(model.graph), as pinned): LoadBase must FAIL here
CONSTANTS
  InstFS <- MCInstFS
  Spell <- MCSpell
  LoadFix = TRUE
  LoadReach <- PinnedReach
  InstSet = {1}
  SpellSet = {11, 12, 13, 14, 15, 16, 17, 18, 20}
  MaxUnits = 3
  ProtoInsts = {}
  ProtoSpells = {}
  ProtoLocIds = {}
  MaxDepth = 0
  EmitOn = FALSE
INIT InitEnum
NEXT NextEnum
INVARIANT LoadBase
INVARIANT FailClosed
