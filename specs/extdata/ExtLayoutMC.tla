----------------------------- MODULE ExtLayoutMC -----------------------------
(***************************************************************************)
(* Enumeration of configurations for C07.                                  *)
(*                                                                         *)
(* Initial states: every size tuple of length <= MaxLen over Sizes.  One   *)
(* step picks the remaining options (backend, threshold, alignment,        *)
(* align_threshold, shard limit).  On every configuration TLC computes the *)
(* layout with the operators of ExtLayout, checks every formula of the     *)
(* property on it, and prints (configuration, expected layout) as one JSON *)
(* record (Emit is listed as an INVARIANT: evaluated once per distinct     *)
(* state).  A second kind of state enumerates the file-name catalogue      *)
(* (destination names x shard counts) and prints the expected names.       *)
(***************************************************************************)
EXTENDS ExtLayoutNames, Json

CONSTANTS Sizes, MaxLen, Thresholds, Alignments, AlignThresholds, Limits, Backends,
          StRule,        \* "design" | "impl" (ExtLayout!StShardStep)
          MaxShards      \* file-name table: shard counts 1..MaxShards

VARIABLES phase, cf, lay      \* lay = Layout(cf), computed once when the configuration is chosen
vars == <<phase, cf, lay>>

SizeTuples == UNION {[1..n -> Sizes] : n \in 0..MaxLen}

NameStates ==
  {[k |-> "raw", id |-> i, n |-> n] : i \in 1..Len(RawNames), n \in 1..MaxShards}
  \cup {[k |-> "st", id |-> i, n |-> n] : i \in 1..Len(ModelNames), n \in 1..MaxShards}

Init ==
  /\ lay = <<>>
  /\ \/ phase = "tuple" /\ cf \in {[sizes |-> s] : s \in SizeTuples}
     \/ phase = "name" /\ cf \in NameStates

Next ==
  /\ phase = "tuple"
  /\ phase' = "cfg"
  /\ \E be \in Backends, thr \in Thresholds, al \in Alignments, athr \in AlignThresholds, lim \in Limits :
       /\ be = "st" => (al = NoneV /\ athr = 0)        \* the safetensors API has no alignment options
       /\ al = NoneV => athr = 0                       \* align_threshold is ignored without alignment
       /\ cf' = [be |-> be, sizes |-> cf.sizes, thr |-> thr, al |-> al, athr |-> athr, lim |-> lim]
       /\ lay' = Layout(cf', StRule)

Spec == Init /\ [][Next]_vars

L == lay
IsCfg == phase = "cfg"

\* ---- the formulas of the property on every configuration -------------------------------------------
InvThresholdRule     == IsCfg => ThresholdRule(cf, L)
InvExactlyOneShard   == IsCfg => ExactlyOneShard(cf, L)
InvOrder             == IsCfg => Order(cf, L, IdOrd(cf))
InvDisjoint          == IsCfg => Disjoint(cf, L)
InvInFile            == IsCfg => InFile(cf, L)
InvAligned           == IsCfg => Aligned(cf, L) /\ AlignedFactor(cf, L)
InvOversizeOnlyAlone == IsCfg => OversizeOnlyAlone(cf, L)
InvNoEmptyShard      == IsCfg => NoEmptyShard(cf, L)
InvTight             == IsCfg => Tight(cf, L)
Emit ==
  /\ IsCfg => PrintT(ToJson([c |-> cf, L |-> L]))
  /\ phase = "name" => PrintT(ToJson([nm |-> Names(cf)]))
=============================================================================
