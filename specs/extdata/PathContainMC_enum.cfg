\* enumeration of (instance, base spelling, location) configurations
CONSTANTS
  InstFS <- MCInstFS
  Spell <- MCSpell
  LoadFix = TRUE
  LoadReach <- AllPlacements
  InstSet = {1, 2, 3, 4, 5, 6, 7}
  SpellSet = {1, 2, 3, 4, 5, 6, 7, 8, 11, 12, 13, 14, 15, 16, 17, 18, 20}
  MaxUnits = 3
  ProtoInsts = {}
  ProtoSpells = {}
  ProtoLocIds = {}
  MaxDepth = 0
  EmitOn = TRUE
INIT InitEnum
NEXT NextEnum
INVARIANT EmitCase
INVARIANT FailClosed
INVARIANT NoOverRejectPlain
INVARIANT NoOverReject
INVARIANT LoadBase
INVARIANT RealpathAgreesWithKernel
