------------------------- MODULE ParallelWriterTrace -------------------------
(***************************************************************************)
(* Trace validation (code -> specification) for ParallelWriter.            *)
(*                                                                         *)
(* TRACE_FILE holds { "traces": [ { "cfg": raw configuration,              *)
(*                                  "mode": "gated" | "real",              *)
(*                                  "ev": [ event, ... ] }, ... ] }        *)
(* recorded from executions of the real onnx_ir code.  An event is         *)
(*   [t |-> thread, op |-> action name, i |-> tensor/shard index or 0,     *)
(*    cmp |-> 1 (whole observable state) | 2 (budget counters) | 0,        *)
(*    post |-> the observable state after the step (record Obs)]           *)
(* cfg.fkind is the kind of exception the failing tensor / callback of the *)
(* execution raised (RuntimeError, OSError, Abort - a BaseException that   *)
(* is not an Exception -, KeyboardInterrupt, SystemExit): the formulas     *)
(* (ErrJoin in particular) are evaluated on the observed states of         *)
(* executions of every kind; no action of the specification reads it.      *)
(* "gated": executed under the deterministic scheduler, one event per      *)
(* granted step, post = real _ByteBudget counters + monitors read while    *)
(* every other thread is parked.  "real": real threads, events ordered     *)
(* under a log mutex while the lock concerned is held; there the order of  *)
(* queue pops is not observable, hence TakeAny / FirstFailureReal.         *)
(*                                                                         *)
(* Independently of conformance, THE PROPERTY FORMULAS OF ParallelWriter   *)
(* ARE EVALUATED BY TLC ON EVERY OBSERVED STATE.  Output (JSON tuples):    *)
(*   ["acc", tid]                 the whole trace conforms                 *)
(*   ["div", tid, l, why, pc, Obs'] first non-conforming event (Obs' = what   *)
(*                                the model expected, when why = "obs")    *)
(*   ["inv", tid, l, names]       observed state after event l breaks the  *)
(*                                named formulas                           *)
(*   ["dead", tid, l, conf, specEnabled]  the execution deadlocked         *)
(***************************************************************************)
EXTENDS ParallelWriter, Json, IOUtils

Data == JsonDeserialize(IOEnv.TRACE_FILE)
Traces == Data.traces

VARIABLES tid, l, conf
tvars == <<vars, tid, l, conf>>

ToSetOf(s) == {s[k] : k \in DOMAIN s}
RawOf(j) == [size |-> j.size, obj |-> j.obj, fail |-> ToSetOf(j.fail), cbfail |-> ToSetOf(j.cbfail), fkind |-> j.fkind,
             cap |-> j.cap, mw |-> j.mw, maxShard |-> j.maxShard]

TR == Traces[tid]
Real == TR.mode = "real"

ObsOf(p) == [inflight |-> p.inflight, over |-> p.over, wait |-> ToSetOf(p.wait), incb |-> ToSetOf(p.incb),
             eval |-> {<<x[1], x[2]>> : x \in ToSetOf(p.eval)}, held |-> {<<x[1], x[2]>> : x \in ToSetOf(p.held)},
             cb |-> p.cb, busy |-> ToSetOf(p.busy), caller |-> p.caller]

(* real threads: the pop order of the executor queue is not observable *)
InQ(q, i) == \E k \in DOMAIN q : q[k] = i
TakeAny(w, i) ==
  /\ IsWrk(w) /\ pc[w] = "idle"
  /\ LET d == DrvOf(w)
     IN /\ pc[d] \in {"pmain", "pjoin"} /\ InQ(queue[d], i) /\ PoolHas(w)
        /\ task' = [task EXCEPT ![w] = i]
        /\ tstat' = [tstat EXCEPT ![i] = "running"]
        /\ queue' = [queue EXCEPT ![d] = SelectSeq(@, LAMBDA x : x # i)]
  /\ pc' = [pc EXCEPT ![w] = "icbWait"]
  /\ UNCHANGED <<cfg, job, shardQ, jstat, exc, hasFile, vLocks, vBud, vOut>>

FirstFailureReal(d, C) ==
  /\ d \in Drv(cfg) /\ pc[d] = "pmain"
  /\ \E i \in JobTensors(d) : tstat[i] = "failed"
  /\ \A i \in C : InQ(queue[d], i)
  /\ tstat' = [i \in 1..cfg.n |-> IF i \in C THEN "cancelled" ELSE tstat[i]]
  /\ queue' = [queue EXCEPT ![d] = SelectSeq(@, LAMBDA x : x \notin C)]
  /\ pc' = [pc EXCEPT ![d] = "pjoin"]
  /\ UNCHANGED <<cfg, task, job, shardQ, jstat, exc, hasFile, vLocks, vBud, vOut>>

StepEv(e) ==
  LET t == e.t IN
  /\ t \in cfg.thr
  /\ CASE e.op = "DTake"     -> DTake(t) /\ job'[t] = e.i
       [] e.op = "DFinish"   -> DFinish(t) /\ job[t] = e.i
       [] e.op = "JoinAll"   -> t = 0 /\ JoinAll
       [] e.op = "Return"    -> t = 0 /\ Return
       [] e.op = "Take"      -> IF Real THEN TakeAny(t, e.i) ELSE Take(t) /\ task'[t] = e.i
       [] e.op = "Finish"    -> Finish(t) /\ task[t] = e.i
       [] e.op = "FirstFailure" -> IF Real THEN FirstFailureReal(t, ToSetOf(e.cancelled))
                                   ELSE FirstFailure(t) /\ ToSetOf(e.cancelled) = ToSetOf(queue[t])
       [] e.op = "JoinInner" -> JoinInner(t)
       [] e.op = "ICbAcq"    -> ICbAcq(t)
       [] e.op = "OCbAcq"    -> OCbAcq(t)
       [] e.op = "CbRun"     -> (CbRun(t) \/ CbFail(t)) /\ task[t] = e.i
       [] e.op = "OCbRel"    -> OCbRel(t)
       [] e.op = "ICbRel"    -> ICbRel(t)
       [] e.op = "FAcq"      -> FAcq(t)
       [] e.op = "FRel"      -> FRel(t)
       [] e.op = "TLock"     -> TLock(t)
       [] e.op = "AcqOk"     -> AcqFit(t) \/ AcqOver(t)
       [] e.op = "AcqBlock"  -> AcqBlock(t)
       [] e.op = "WakeOk"    -> WakeFit(t)
       [] e.op = "WakeBlock" -> WakeBlock(t)
       [] e.op = "Write"     -> Write(t) \/ WriteFail(t)
       [] e.op = "Release"   -> Release(t)
       [] e.op = "TUnlock"   -> TUnlock(t)
       [] OTHER -> FALSE

\* the model's observable successor state equals the logged one
\* (primes only on the model's variables: e is the CURRENT event)
MatchesNext(e) ==
  /\ CASE e.cmp = 1 -> Obs' = ObsOf(e.post)
       [] e.cmp = 2 -> inFlight' = e.post.inflight /\ oversized' = e.post.over
       [] OTHER -> TRUE
  /\ (e.op = "Return" /\ e.post.caller = "returned") =>
        /\ file' = e.files
        /\ \A i \in 1..cfg.n : e.lay[i] = <<cfg.shardOf[i], cfg.off[i]>>

TInit == /\ tid \in 1..Len(Traces)
         /\ l = 1
         /\ conf = TRUE
         /\ InitFor(MkCfg(RawOf(Traces[tid].cfg)))

TNext ==
  /\ l <= Len(TR.ev)
  /\ TR.ev[l].op # "Deadlock"
  /\ l' = l + 1
  /\ UNCHANGED tid
  /\ LET e == TR.ev[l] IN
       \/ /\ conf
          /\ StepEv(e)
          /\ conf' = MatchesNext(e)
       \/ /\ ~(conf /\ ENABLED StepEv(e))
          /\ conf' = FALSE
          /\ UNCHANGED vars

TSpec == TInit /\ [][TNext]_tvars

(* ---- the property, evaluated on OBSERVED states ---------------------------------------------- *)
Names(o, f) ==
     (IF Budget(cfg, o) THEN <<>> ELSE <<"Budget">>)
  \o (IF OneOversized(cfg, o) THEN <<>> ELSE <<"OneOversized">>)
  \o (IF CbMutex(o) THEN <<>> ELSE <<"CbMutex">>)
  \o (IF CbAtMostOnce(cfg, o) /\ CbOnce(cfg, o) THEN <<>> ELSE <<"CbOnce">>)
  \o (IF TensorMutex(o) THEN <<>> ELSE <<"TensorMutex">>)
  \o (IF ErrJoin(o) THEN <<>> ELSE <<"ErrJoin">>)
  \o (IF SameBytes(cfg, o, f) THEN <<>> ELSE <<"SameBytes">>)

FilesAt(k) == IF TR.ev[k].op = "Return" THEN TR.ev[k].files ELSE <<>>
BrokenAt(k) == IF k = 0 THEN <<>> ELSE Names(ObsOf(TR.ev[k].post), FilesAt(k))

\* evaluated once per state, i.e. once per (trace, event); always TRUE, reports through PrintT
Report ==
  /\ (l > 1 /\ BrokenAt(l - 1) # <<>>) => PrintT(ToJson(<<"inv", tid, l - 1, BrokenAt(l - 1)>>))
  /\ (l = Len(TR.ev) + 1 /\ conf) => PrintT(ToJson(<<"acc", tid>>))
  /\ (l <= Len(TR.ev) /\ TR.ev[l].op = "Deadlock") =>
        PrintT(ToJson(<<"dead", tid, l, conf, conf /\ ENABLED Step>>))

ReportDiv ==
  (conf /\ ~conf') =>
     PrintT(ToJson(<<"div", tid, l, IF ENABLED StepEv(TR.ev[l]) THEN "obs" ELSE "guard",
                     IF TR.ev[l].t \in cfg.thr THEN pc[TR.ev[l].t] ELSE "nothread", Obs'>>))

\* while a trace conforms, the model state is a state of the design: its invariants hold
MechOK == conf => (InvMech /\ InvNoLostWakeup /\ InvBudget /\ InvOneOversized /\ InvCbMutex /\ InvTensorMutex)
=============================================================================
