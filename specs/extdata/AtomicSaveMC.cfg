SPECIFICATION Spec
CONSTANTS
  MaxFaults = 1
  MaxT = 3
  MaxC = 2
  EmitOn = TRUE
INVARIANT TypeOK
INVARIANT OldOrNew
INVARIANT FailKeepsOld
INVARIANT InvalidateOnlyIfReplaced
INVARIANT ShardNeverOverwrites
INVARIANT AbsentOrNew
INVARIANT ReturnsClean
INVARIANT MapsReleasedBeforeReplace
INVARIANT BystandersUntouched
INVARIANT EmitEnd
CHECK_DEADLOCK FALSE
