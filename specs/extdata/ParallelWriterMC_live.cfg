SPECIFICATION MCLive
CONSTANTS
  Cap = 2
  Family = "live"
PROPERTY Termination
CHECK_DEADLOCK TRUE
