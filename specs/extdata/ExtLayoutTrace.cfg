SPECIFICATION TSpec
INVARIANT Report
CHECK_DEADLOCK FALSE
