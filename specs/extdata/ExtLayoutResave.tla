--------------------------- MODULE ExtLayoutResave ---------------------------
(***************************************************************************)
(* C07, part 3: RE-SAVING a loaded model.                                  *)
(*                                                                         *)
(* A model was saved with configuration c1 (layout L1 = Layout(c1)), loaded *)
(* (every external initializer is now an ExternalTensor = a reference       *)
(* [file, offset, length] into a data file of the first save), and is saved *)
(* again with configuration c2 (same sizes, other threshold / limit):       *)
(*   mode "inplace"  same destination names: the data files of the first    *)
(*                   save are the destinations of the second one            *)
(*   mode "other"    other destination names (same or another directory)    *)
(*                                                                         *)
(* What the code does (external_data.unload_from_model, _write_external_    *)
(* data; _safetensors._save_file):                                          *)
(*   raw  1. classify by the new threshold                                  *)
(*        2. LOAD: external tensors at or below the threshold are copied    *)
(*           into memory (numpy().copy())                                   *)
(*        3. sharded: refuse if any destination exists (nothing is touched) *)
(*        4. per destination file: every tensor is written into a TEMPORARY *)
(*           file (an ExternalTensor source is streamed from its file at    *)
(*           that moment), then the temporary file REPLACES the destination *)
(*        5. the new tensors are assigned, the model is serialised          *)
(*   st   1. classify; small external tensors are copied into memory        *)
(*        2. per shard, in order: tobytes() of the shard's tensors, then    *)
(*           the shard file is written IN PLACE                             *)
(* The ordering requirement: every source backed by a destination file is   *)
(* materialised (small ones) or streamed (large ones) BEFORE that file is   *)
(* replaced.  LoadOrder = "after" moves step raw-2 behind step raw-4 (the   *)
(* ordering a seeded change introduced); StMaterialise = "per-shard" is the *)
(* safetensors loop as implemented, "all-first" reads every source before   *)
(* the first shard file is written.                                         *)
(*                                                                         *)
(* File contents are abstract: a file is a set of segments [o, l, b]        *)
(* ("the bytes of original tensor b at offset o, length l").  Reading       *)
(* [o, l] returns b when exactly that segment is there, junk otherwise.     *)
(***************************************************************************)
EXTENDS ExtLayout

CONSTANTS LoadOrder,        \* "before" (as coded) | "after" (the refuted ordering)
          StMaterialise,    \* "all-first" (design) | "per-shard" (as coded)
          RSizes, RMaxLen, RThr, RLim

VARIABLES rc,        \* [be, sizes, thr1, thr2, lim1, lim2, mode]
          files,     \* file id -> set of segments;  file id = <<base, n, k>> (base "old" | "new"; plain name: n = 1)
          src,       \* per initializer: [k |-> "mem"] | [k |-> "ext", f, o, l]   (what the loaded model holds)
          mem,       \* per initializer: content copied into memory so far (<<"none">> if not)
          step,      \* "split" | "load1" | "guard" | "write" | "load2" | "finish" | "done"
          widx,      \* next destination file to write
          stale,     \* initializers whose source was read after its file had been replaced
          out,       \* "running" | "returned" | "refused"
          final,     \* per initializer: content a load of the re-saved model yields
          lay1, lay2 \* Layout of the first / the second save (computed once)
rvars == <<rc, files, src, mem, step, widx, stale, out, final, lay1, lay2>>

C1of(r) == [be |-> r.be, sizes |-> r.sizes, thr |-> r.thr1, al |-> NoneV, athr |-> 0, lim |-> r.lim1]
C2of(r) == [be |-> r.be, sizes |-> r.sizes, thr |-> r.thr2, al |-> NoneV, athr |-> 0, lim |-> r.lim2]
L1 == lay1
L2 == lay2
N == Len(rc.sizes)

FileId(base, n, k) == <<base, n, k>>
Dest(k) == FileId(IF rc.mode = "inplace" THEN "old" ELSE "new", L2.nf, k)

Junk == <<"junk">>
None3 == <<"none">>
B(i) == <<"b", i>>

ReadFrom(fs, f, o, l) ==
  IF f \in DOMAIN fs /\ \E s \in fs[f] : s.o = o /\ s.l = l
  THEN (CHOOSE s \in fs[f] : s.o = o /\ s.l = l).b
  ELSE Junk

\* the content a source yields when it is read NOW
ReadSrc(i) == IF src[i].k = "mem" THEN B(i) ELSE ReadFrom(files, src[i].f, src[i].o, src[i].l)

ToExt2 == {i \in 1..N : L2.t[i].f # 0}
ToMem2 == {i \in 1..N : L2.t[i].f = 0 /\ src[i].k = "ext"}

RInit ==
  /\ rc \in {[be |-> be, sizes |-> s, thr1 |-> t1, thr2 |-> t2, lim1 |-> l1, lim2 |-> l2, mode |-> m] :
               be \in {"raw", "st"}, s \in UNION {[1..n -> RSizes] : n \in 1..RMaxLen},
               t1 \in RThr, t2 \in RThr, l1 \in RLim, l2 \in RLim, m \in {"inplace", "other"}}
  /\ lay1 = Layout(C1of(rc), "design")
  /\ lay2 = Layout(C2of(rc), "design")
  /\ files = [f \in {FileId("old", L1.nf, k) : k \in 1..L1.nf} |->
                {[o |-> L1.t[i].o, l |-> L1.t[i].l, b |-> B(i)] : i \in {j \in 1..N : L1.t[j].f = f[3]}}]
  /\ src = [i \in 1..N |-> IF L1.t[i].f = 0 THEN [k |-> "mem"]
                           ELSE [k |-> "ext", f |-> FileId("old", L1.nf, L1.t[i].f), o |-> L1.t[i].o, l |-> L1.t[i].l]]
  /\ mem = [i \in 1..N |-> None3]
  /\ step = "split" /\ widx = 1 /\ stale = {} /\ out = "running"
  /\ final = [i \in 1..N |-> None3]

Split == step = "split" /\ step' = "load1" /\ UNCHANGED <<lay1, lay2, rc, files, src, mem, widx, stale, out, final>>

LoadSmall == [i \in 1..N |-> IF i \in ToMem2 THEN ReadSrc(i) ELSE mem[i]]
StaleNow(S) == {i \in S : src[i].k = "ext" /\ ReadSrc(i) # B(i)}

\* raw-2 / st-1: small external tensors are copied into memory
Load1 ==
  /\ step = "load1"
  /\ IF LoadOrder = "before" \/ rc.be = "st"
     THEN mem' = LoadSmall /\ stale' = stale \cup StaleNow(ToMem2)
     ELSE UNCHANGED <<mem, stale>>
  /\ step' = "guard"
  /\ UNCHANGED <<lay1, lay2, rc, files, src, widx, out, final>>

\* st, "all-first": every source is read before the first shard file is written
Guard ==
  /\ step = "guard"
  /\ IF rc.be = "raw" /\ rc.lim2 # NoneV /\ \E k \in 1..L2.nf : Dest(k) \in DOMAIN files
     THEN out' = "refused" /\ step' = "finish" /\ UNCHANGED <<mem, stale>>      \* _check_no_existing_shard_files
     ELSE /\ out' = out /\ step' = "write"
          /\ IF rc.be = "st" /\ StMaterialise = "all-first"
             THEN mem' = [i \in 1..N |-> IF i \in ToExt2 THEN ReadSrc(i) ELSE mem[i]] /\ stale' = stale \cup StaleNow(ToExt2)
             ELSE UNCHANGED <<mem, stale>>
  /\ UNCHANGED <<lay1, lay2, rc, files, src, widx, final>>

\* one destination file per step: the shard's tensors are read (streamed / tobytes) and the file is replaced
Write ==
  /\ step = "write"
  /\ IF widx > L2.nf
     THEN step' = "load2" /\ UNCHANGED <<files, widx, stale>>
     ELSE LET S == {i \in 1..N : L2.t[i].f = widx}
              content(i) == IF mem[i] # None3 THEN mem[i] ELSE ReadSrc(i)
          IN  /\ files' = [f \in DOMAIN files \cup {Dest(widx)} |->
                             IF f = Dest(widx)
                             THEN {[o |-> L2.t[i].o, l |-> L2.t[i].l, b |-> content(i)] : i \in S}
                             ELSE files[f]]
              /\ stale' = stale \cup {i \in S : mem[i] = None3 /\ src[i].k = "ext" /\ ReadSrc(i) # B(i)}
              /\ widx' = widx + 1 /\ step' = step
  /\ UNCHANGED <<lay1, lay2, rc, src, mem, out, final>>

\* the refuted ordering: small external tensors are copied into memory only now
Load2 ==
  /\ step = "load2"
  /\ IF LoadOrder = "after" /\ rc.be = "raw"
     THEN mem' = LoadSmall /\ stale' = stale \cup StaleNow(ToMem2)
     ELSE UNCHANGED <<mem, stale>>
  /\ step' = "finish" /\ out' = "returned"
  /\ UNCHANGED <<lay1, lay2, rc, files, src, widx, final>>

\* what a load of the result yields (after a refusal: the first save is still what is on disk)
SegContent(f, o, l) == ReadFrom(files, f, o, l)
Finish ==
  /\ step = "finish"
  /\ final' = [i \in 1..N |->
       IF out = "refused" THEN ReadSrc(i)
       ELSE IF L2.t[i].f # 0 THEN SegContent(Dest(L2.t[i].f), L2.t[i].o, L2.t[i].l)
       ELSE IF src[i].k = "mem" THEN B(i) ELSE mem[i]]
  /\ step' = "done"
  /\ UNCHANGED <<lay1, lay2, rc, files, src, mem, widx, stale, out>>

RNext == Split \/ Load1 \/ Guard \/ Write \/ Load2 \/ Finish
RSpec == RInit /\ [][RNext]_rvars

ContentOK(x, i) == x = B(i)

\* ---- the formulas ---------------------------------------------------------------------------------
\* after save + load every initializer's bytes are the ORIGINAL bytes
ResaveBytes == step = "done" => \A i \in 1..N : ContentOK(final[i], i)
\* the ordering requirement: no source is read after the file backing it was replaced by other content
NoStaleRead == stale = {}
\* a refused save touches nothing
RefusalKeepsFiles == (step = "done" /\ out = "refused") => \A i \in 1..N : final[i] = B(i)
=============================================================================
