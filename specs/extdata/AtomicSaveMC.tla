---------------------------- MODULE AtomicSaveMC ----------------------------
(***************************************************************************)
(* Model-checking harness for AtomicSave: every configuration              *)
(*   {destination absent, file, reached through a symlink}                 *)
(* x {no tensor / tensor 1 backed by the destination}                      *)
(* x 1..MaxT tensors x 1..MaxC chunks x serial/parallel writer,            *)
(* plus the sharded variant (one shard per tensor, any set of pre-existing *)
(* shard files), with a fault or a crash at every position.                *)
(* EmitEnd prints one JSON record per distinct terminal state: the fault   *)
(* position and the end state the design allows there.                     *)
(***************************************************************************)
EXTENDS AtomicSave, Json

CONSTANTS MaxT, MaxC, EmitOn

Single == {c \in [nt : 1..MaxT, nc : 1..MaxC, dest : {"absent", "file", "symlink"}, backed : {{}, {1}},
                  par : BOOLEAN, shard : {FALSE}, pre : {{}}] :
             WellFormedCfg(c) /\ (c.par => c.nt >= 2)}
Sharded == UNION {{[nt |-> n, nc |-> k, dest |-> "absent", backed |-> {}, par |-> FALSE, shard |-> TRUE, pre |-> p] :
                     p \in SUBSET (1..n)} : <<n, k>> \in (2..MaxT) \X (1..MaxC)}
Configs == Single \cup Sharded

Init == \E c \in Configs : InitFor(c)
Spec == Init /\ [][Next]_vars

EmitEnd ==
  (EmitOn /\ out # "running") =>
     PrintT(ToJson([cfg |-> cfg, ff |-> firstFail, last |-> last, faults |-> faults, obs |-> Obs]))
=============================================================================
