---------------------------- MODULE AtomicSaveMC ----------------------------
(***************************************************************************)
(* Model-checking harness for AtomicSave: every configuration              *)
(*   {destination absent, file, reached through a symlink}                 *)
(* x {no tensor / tensor 1 backed by the destination}                      *)
(* x {no tensor / the LAST tensor an ExternalTensor backed by another file}*)
(* x 1..MaxT tensors x 1..MaxC chunks x serial/parallel writer,            *)
(* plus the sharded variant (shard count a function of the limit, incl.    *)
(* one shard = plain name; plain-name file absent/present/backing a tensor;*)
(* any set of pre-existing numbered shard files), with a fault or a crash  *)
(* at every position.                                                      *)
(* EmitEnd prints one JSON record per distinct terminal state: the fault   *)
(* position and the end state the design allows there.                     *)
(***************************************************************************)
EXTENDS AtomicSave, Json

CONSTANTS MaxT, MaxC, EmitOn

Mk(nt, nc, dest, backed, other, par, shard, pre, lim) ==
  [nt |-> nt, nc |-> nc, dest |-> dest, backed |-> backed, other |-> other, par |-> par, shard |-> shard,
   pre |-> pre, lim |-> lim, sh |-> ShardAssign(nt, nc, backed \cup other, shard, lim)]

(* bystander: none, or the last tensor (so that it comes AFTER a tensor backed by the destination) *)
Others(nt) == {{}, {nt}}
AnyOther == {{}} \cup {{t} : t \in 1..MaxT}

Single == {c \in {Mk(nt, nc, dest, backed, other, par, FALSE, {}, 0) :
                   nt \in 1..MaxT, nc \in 1..MaxC, dest \in {"absent", "file", "symlink"},
                   backed \in {{}, {1}}, other \in AnyOther, par \in BOOLEAN} :
             WellFormedCfg(c) /\ c.other \in Others(c.nt) /\ (c.par => c.nt >= 2)}

(* sharded request: limit = 1, 2, .. nt tensors' worth of bytes (so also "everything fits ONE shard,
   which keeps the plain name"), plain-name file absent / present / present and backing tensor 1,
   every set of pre-existing numbered shard files                                               *)
ShardedBase == {c \in {Mk(nt, nc, dest, backed, other, FALSE, TRUE, {}, k * nc) :
                        nt \in 1..MaxT, nc \in 1..MaxC, dest \in {"absent", "file"},
                        backed \in {{}, {1}}, other \in AnyOther, k \in 1..MaxT} :
                  WellFormedCfg(c) /\ c.other \in Others(c.nt) /\ c.lim <= c.nt * c.nc}
Sharded == UNION {{[c EXCEPT !.pre = p] : p \in SUBSET (IF Numbered(c) THEN 1..NShardsC(c) ELSE {})} : c \in ShardedBase}
Configs == Single \cup Sharded

Init == \E c \in Configs : InitFor(c)
Spec == Init /\ [][Next]_vars

EmitEnd ==
  (EmitOn /\ out # "running") =>
     PrintT(ToJson([cfg |-> cfg, ff |-> firstFail, last |-> last, faults |-> faults, obs |-> Obs]))
=============================================================================
