SPECIFICATION RSpec
CONSTANTS
  LoadOrder = "after"
  StMaterialise = "all-first"
  RSizes = {1, 10, 4097}
  RMaxLen = 3
  RThr = {0, 5, 100000}
  RLim = {0, 11, 4100}
INVARIANT ResaveBytes
CHECK_DEADLOCK FALSE
