\* signs: the rounding operators over leaves that include negated symbols and constants
CONSTANTS
  Syms = {"N"}
  SymSeq <- MCSymSeq1
  MaxNum = 16
  PowBaseMax = 256
  PowExpMax = 32
  LeafInts = {2, 3}
  NegSyms = {"N"}
  NegInts = {3}
  Vals = {1, 2, 3, 4}
  UnSet = {"neg", "floor", "ceil", "trunc"}
  BinSet = {"sub", "floordiv", "truediv", "mod"}
  PerClass = 2
  ClosedBoost = 8
  SampleRem = 0
  MixInts = {}
  MixDivs = {}
  MixNums = {}
  NRand = 0
  RandDepth = 0
  LightLemmas = TRUE
INIT InitEnum
NEXT NextEnum
INVARIANT ValueTable
INVARIANT RoundTripTree
INVARIANT DesugarOK
INVARIANT RoundTripValue
INVARIANT PartialOK
INVARIANT NormalForm
INVARIANT Integral
INVARIANT EmitTree
