\* precedence / associativity lemmas on explicit strings of the grammar
CONSTANTS
  Syms = {"N", "M", "K"}
  SymSeq <- MCSymSeq3
  MaxNum = 16
  PowBaseMax = 256
  PowExpMax = 32
  LeafInts = {}
  NegSyms = {}
  NegInts = {}
  Vals = {1, 2, 3, 4}
  UnSet = {}
  BinSet = {}
  PerClass = 2
  ClosedBoost = 1
  SampleRem = 0
  MixInts = {}
  MixDivs = {}
  MixNums = {}
  NRand = 0
  RandDepth = 0
  LightLemmas = FALSE
INIT InitShapes
NEXT NextShapes
INVARIANT ShapeMeaning
INVARIANT ShapeReprint
INVARIANT EmitShape
