\* operator part: every tree of depth <= 2 over the operators ir.SymbolicDim overloads
CONSTANTS
  Syms = {"N", "M"}
  SymSeq <- MCSymSeq2
  MaxNum = 16
  PowBaseMax = 256
  PowExpMax = 32
  LeafInts = {1, 2, 3}
  NegSyms = {}
  NegInts = {}
  Vals = {1, 2, 3, 4}
  UnSet = {"neg", "floor", "ceil", "trunc"}
  BinSet = {"add", "sub", "mul", "floordiv", "truediv", "mod", "min", "max"}
  PerClass = 2
  ClosedBoost = 1
  SampleRem = 0
  NRand = 0
  RandDepth = 0
  LightLemmas = TRUE
INIT InitEnum
NEXT NextEnum
INVARIANT ValueTable
INVARIANT RoundTripTree
INVARIANT DesugarOK
INVARIANT RoundTripValue
INVARIANT PartialOK
INVARIANT NormalForm
INVARIANT Integral
INVARIANT EmitTree
