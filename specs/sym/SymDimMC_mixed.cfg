\* mixed signs: floor ceil trunc neg // % over (a-b)/k, (a-b)/c, k/a-b; all lemmas, every tree emitted
CONSTANTS
  Syms = {"N", "M"}
  SymSeq <- MCSymSeq2
  MaxNum = 16
  PowBaseMax = 256
  PowExpMax = 32
  LeafInts = {1, 2, 3}
  NegSyms = {}
  NegInts = {}
  Vals = {1, 2, 3, 4}
  UnSet = {"neg", "floor", "ceil", "trunc"}
  BinSet = {"add", "sub", "mul", "floordiv", "truediv", "mod", "min", "max"}
  PerClass = 2
  ClosedBoost = 1
  SampleRem = 0
  MixInts = {1, 5}
  MixDivs = {2, 3}
  MixNums = {2, 3, 7}
  NRand = 0
  RandDepth = 0
  LightLemmas = FALSE
INIT InitMixed
NEXT NextMixed
INVARIANT ValueTable
INVARIANT RoundTripTree
INVARIANT DesugarOK
INVARIANT RoundTripValue
INVARIANT PartialOK
INVARIANT NormalForm
INVARIANT Integral
INVARIANT EmitTree
