\* grammar part: every tree of depth <= 2 over the operators of the documented grammar, ** and sqrt included
CONSTANTS
  Syms = {"N", "M"}
  SymSeq <- MCSymSeq2
  MaxNum = 16
  PowBaseMax = 256
  PowExpMax = 32
  LeafInts = {2}
  NegSyms = {}
  NegInts = {}
  Vals = {1, 2, 3, 4}
  UnSet = {"neg", "floor", "sqrt"}
  BinSet = {"add", "sub", "mul", "floordiv", "truediv", "mod", "pow", "min", "max"}
  PerClass = 2
  ClosedBoost = 1
  SampleRem = 0
  MixInts = {}
  MixDivs = {}
  MixNums = {}
  NRand = 0
  RandDepth = 0
  LightLemmas = TRUE
INIT InitEnum
NEXT NextEnum
INVARIANT ValueTable
INVARIANT RoundTripTree
INVARIANT DesugarOK
INVARIANT RoundTripValue
INVARIANT PartialOK
INVARIANT NormalForm
INVARIANT Integral
INVARIANT EmitTree
