------------------------------ MODULE SymDimMC ------------------------------
(***************************************************************************)
(* Model-checking harness of SymDim (property C16).                        *)
(*                                                                         *)
(* Enumeration (SymDimMC_ops.cfg, SymDimMC_gram.cfg): the state is ONE     *)
(* expression tree.  Initial states: every tree of depth <= 1 over the     *)
(* configured leaves and operators; one step builds a tree of depth <= 2   *)
(* by applying an operator to the current tree (and, for binary operators, *)
(* any tree of depth <= 1 as right operand).  So the reachable states are  *)
(* exactly the trees of depth <= 2, and the lemmas below are evaluated on  *)
(* each of them (in parallel, by TLC's workers) for EVERY binding:         *)
(*                                                                         *)
(*   RoundTripTree   Meaning(Show(t)) is the tree itself (after Desugar),  *)
(*                   for every parenthesisation mode and function spelling *)
(*   RoundTripValue  Meaning(Show(t)) evaluates like t under every binding *)
(*   PartialOK       Partial on any subset of the symbols, then Eval on    *)
(*                   the rest, equals Eval on the whole binding            *)
(*   NormalForm      values are reduced fractions with positive denominator*)
(*   Integral        trees without / ** sqrt have integer values           *)
(*                                                                         *)
(*   DesugarOK       rewriting ceil / trunc into floor, max, min keeps     *)
(*                   every value                                           *)
(*                                                                         *)
(* EmitTree prints, for every tree of depth <= 1, every tree with a unary  *)
(* root and a stratified hash-selected sample (PerClass, SampleRem) of the *)
(* rest, the tree, its token sequences and its value under every binding;  *)
(* the harness builds the same tree with the overloaded operators of       *)
(* ir.SymbolicDim and compares.                                            *)
(*                                                                         *)
(* Signs (SymDimMC_signs.cfg): the same enumeration over the rounding       *)
(* operators (floor ceil trunc neg, / // % -) with NEGATED symbols and      *)
(* constants among the leaves, so that every rounding direction meets a    *)
(* negative non-integer operand already at "depth 2".                      *)
(*                                                                         *)
(* Mixed signs (SymDimMC_mixed.cfg): a targeted family of depth 3.  The     *)
(* operands are quotients of a DIFFERENCE whose sign the symbols' positivity *)
(* does not settle - (a - b)/k, (a - b)/c, k/a - b  (a, b symbols or small  *)
(* constants) - so that under the bindings in {1..4}^2 they take negative,  *)
(* positive, integral and non-integral values; one step applies floor, ceil, *)
(* trunc, neg to such an operand or uses it as dividend / divisor of // and  *)
(* %.  Every tree of the family is emitted: an implementation that chooses   *)
(* the rounding direction from a symbolic sign test is exercised on both     *)
(* signs of the same expression.                                             *)
(*                                                                         *)
(* Shapes (SymDimMC_shapes.cfg): the precedence / associativity lemmas on  *)
(* explicit token strings (-N**2, N-M-K, N//M//K, N%M*K, 2**N**2, ...),    *)
(* each with the tree it must mean; emitted with values for replay.        *)
(*                                                                         *)
(* Random (SymDimMC_rand.cfg): NRand trees of depth RandDepth drawn with   *)
(* TLC's RandomElement (seeded by -seed); same lemmas, all emitted.        *)
(*                                                                         *)
(* Text (SymDimMC_text.cfg): code -> specification.  The harness records   *)
(* the strings the real library printed for the trees it built (tokenised) *)
(* in TEXT_FILE; TLC computes Meaning of each and its value under every    *)
(* binding, so the harness can tell whether a printed form that does not   *)
(* re-parse to the right value is wrong already under the standard grammar *)
(* (printer) or only under the real parser.                                *)
(***************************************************************************)
EXTENDS SymDim, Json, IOUtils

CONSTANTS
  SymSeq,      \* the symbols, as a sequence (fixes the order of bindings and the hash)
  LeafInts,    \* integer constants used as leaves
  NegSyms, NegInts,   \* symbols / constants that additionally occur negated as "leaves" (signs configuration)
  Vals,        \* values a symbol can be bound to
  UnSet, BinSet,   \* operators enumerated
  PerClass, SampleRem,    \* stratified sample of the trees of depth 2, see Emitted
  ClosedBoost,
  MixInts, MixDivs, MixNums,   \* mixed-signs family: constants in differences, constant divisors, numerators of k/a - b
  NRand, RandDepth,
  LightLemmas  \* TRUE: check PartialOK / all print modes only on emitted trees (quick tier)

VARIABLES t,   \* the tree
          ph,  \* "init" | "ext" | "rand" | "mix0" | "mix" (tree states) | "shape" | "text"
          x,   \* shape: the token sequence; text: <<id>> \o tokens; rand: <<index>>; <<>> otherwise
          v    \* the value table of t: v[i] = Eval(t, EnvSeq[i])  (computed once per tree)

vars == <<t, ph, x, v>>

MCSymSeq1 == <<"N">>
MCSymSeq2 == <<"N", "M">>
MCSymSeq3 == <<"N", "M", "K">>

Leaves == {Sym(s) : s \in Syms} \cup {Num(k) : k \in LeafInts}
          \cup {Un("neg", Sym(s)) : s \in NegSyms} \cup {Un("neg", Num(k)) : k \in NegInts}
UnOf(S)     == {Un(o, a) : o \in UnSet, a \in S}
BinOf(S, T) == {Bin(o, a, b) : o \in BinSet, a \in S, b \in T}
Trees1 == Leaves \cup UnOf(Leaves) \cup BinOf(Leaves, Leaves)

Envs == [Syms -> Vals]
\* all bindings in a fixed order: index i <-> digits of i-1 in base |Vals| (Vals = 1..n)
NV == Cardinality(Vals)
NS == Len(SymSeq)
RECURSIVE PowN(_, _)
PowN(b, e) == IF e = 0 THEN 1 ELSE b * PowN(b, e - 1)
EnvAt(i) == [s \in Syms |->
               LET j == CHOOSE j \in 1..NS : SymSeq[j] = s
               IN  (((i - 1) \div PowN(NV, NS - j)) % NV) + 1]
EnvSeq == [i \in 1..PowN(NV, NS) |-> EnvAt(i)]
Sub(env, S) == [s \in S |-> env[s]]
ValsOf(tt) == [i \in DOMAIN EnvSeq |-> Eval(tt, EnvSeq[i])]

(***************************************************************************)
(* Hash for the deterministic sample                                       *)
(***************************************************************************)
OpCode(o) ==
  CASE o = "sym" -> 1 [] o = "int" -> 2 [] o = "rat" -> 3 [] o = "neg" -> 4 [] o = "floor" -> 5
    [] o = "ceil" -> 6 [] o = "trunc" -> 7 [] o = "sqrt" -> 8 [] o = "add" -> 9 [] o = "sub" -> 10
    [] o = "mul" -> 11 [] o = "floordiv" -> 12 [] o = "truediv" -> 13 [] o = "mod" -> 14
    [] o = "min" -> 15 [] o = "max" -> 16 [] o = "pow" -> 17
HP == 9973
RECURSIVE Hash(_)
Hash(tt) ==
  CASE tt.op = "sym" -> 101 + 7 * (CHOOSE j \in 1..NS : SymSeq[j] = tt.s)
    [] tt.op = "int" -> 211 + 13 * tt.k
    [] tt.op \in UnAll  -> (Hash(tt.a) * 31 + 17 * OpCode(tt.op)) % HP
    [] tt.op \in BinAll -> ((((Hash(tt.a) * 31 + Hash(tt.b)) % HP) * 37) + 19 * OpCode(tt.op)) % HP

\* Stratified sample.  The class of a tree is (root operator, operators of its operands); its size is the
\* number of ways of filling in the leaves below.  About PerClass trees of every class are emitted, so that
\* every interaction of two operator levels reaches the implementation in every run; which ones depends on
\* SampleRem (derived from the seed).  Trees of depth <= 1 and trees with a unary root are always emitted.
NLeaves == Cardinality(Leaves)
Sz(tt) ==
  CASE tt.op = "sym" -> Cardinality(Syms)
    [] tt.op = "int" -> Cardinality(LeafInts)
    [] tt.op \in UnAll -> NLeaves
    [] OTHER -> NLeaves * NLeaves
ClassSize(tt) ==
  CASE tt.op \in LeafOps -> 1
    [] tt.op \in UnAll -> Sz(tt.a)
    [] OTHER -> Sz(tt.a) * Sz(tt.b)
Stride(tt) == LET m == ClassSize(tt) \div PerClass IN IF m < 1 THEN 1 ELSE m
\* closed trees (no symbol: the library folds them when they are built) are sampled ClosedBoost times denser
ClosedStride(tt) == LET m == Stride(tt) \div ClosedBoost IN IF m < 1 THEN 1 ELSE m
Emitted ==
  \/ ph \in {"rand", "mix0", "mix"}
  \/ Depth(t) <= 1
  \/ t.op \in UnAll
  \/ Hash(t) % Stride(t) = SampleRem % Stride(t)
  \/ (FreeSyms(t) = {} /\ Hash(t) % ClosedStride(t) = SampleRem % ClosedStride(t))

(***************************************************************************)
(* Lemmas (invariants: evaluated on every enumerated tree)                 *)
(***************************************************************************)
Modes == {"min", "full", "atoms"}
Fns   == {FnLower, FnUpper, FnMod}
Heavy == ~LightLemmas \/ Emitted

TreeState == ph \in {"init", "ext", "rand", "mix0", "mix"}
ShapeState == ph = "shape"

\* v is built compositionally in NextEnum (one application of the operator's semantics to the value
\* tables of the operands - the defining equation of Eval); on the emitted trees it is recomputed from scratch
ValueTable == (TreeState /\ Heavy) => v = ValsOf(t)

RoundTripTree ==
  TreeState =>
    /\ Meaning(Show(t)) = [ok |-> TRUE, t |-> Desugar(t)]
    /\ Heavy => \A m \in Modes, fn \in Fns : Meaning(ShowM(t, m, fn)) = [ok |-> TRUE, t |-> Desugar(t)]

\* the rewriting of ceil / trunc into the documented functions keeps every value
DesugarOK ==
  (TreeState /\ Desugar(t) # t) => ValsOf(Desugar(t)) = v

\* consequence of the two above, checked literally on the emitted trees:
\* the printed form, read back, evaluates like the tree under every binding
RoundTripValue ==
  (TreeState /\ Heavy) =>
    LET r == Meaning(Show(t)) IN
    r.ok /\ \A i \in DOMAIN EnvSeq : Eval(r.t, EnvSeq[i]) = v[i]

PartialOK ==
  (TreeState /\ Heavy) =>
    \A i \in DOMAIN EnvSeq, S \in SUBSET Syms :
       Eval(Partial(t, Sub(EnvSeq[i], S)), Sub(EnvSeq[i], Syms \ S)) = v[i]

NormalForm ==
  TreeState =>
    \A i \in DOMAIN v : Def(v[i]) => (v[i][2] > 0 /\ Gcd(Abs(v[i][1]), v[i][2]) = 1)

RECURSIVE Ops(_)
Ops(tt) ==
  CASE tt.op \in LeafOps -> {tt.op}
    [] tt.op \in UnAll   -> {tt.op} \cup Ops(tt.a)
    [] tt.op \in BinAll  -> {tt.op} \cup Ops(tt.a) \cup Ops(tt.b)

Integral ==
  (TreeState /\ Ops(t) \cap {"truediv", "pow", "sqrt", "rat"} = {}) =>
    \A i \in DOMAIN v : Def(v[i]) => IsInt(v[i])

(***************************************************************************)
(* Constant-level lemmas about the arithmetic                              *)
(***************************************************************************)
ASSUME FloorDivModLaw ==
  \A a \in -7..7, b \in (-4..4) \ {0} :
     LET q == QFloorDiv(QI(a), QI(b))
         r == QMod(QI(a), QI(b))
     IN  /\ IsInt(q) /\ IsInt(r)
         /\ a = b * q[1] + r[1]
         /\ (b > 0 => (0 <= r[1] /\ r[1] < b))
         /\ (b < 0 => (b < r[1] /\ r[1] <= 0))
ASSUME RoundingLaw ==
  \A n \in -7..7, d \in 1..4 :
     LET q == Q(n, d) IN
       /\ QLe(QFloor(q), q) /\ ~QLe(QAdd(QFloor(q), QI(1)), q) /\ IsInt(QFloor(q))
       /\ QCeil(q) = QNeg(QFloor(QNeg(q)))
       /\ QTrunc(q) = (IF n >= 0 THEN QFloor(q) ELSE QCeil(q))
       /\ (IsInt(q) => (QFloor(q) = q /\ QCeil(q) = q /\ QTrunc(q) = q))
ASSUME UndefOnlyByZero ==
  /\ QDiv(QI(1), QI(0)) = Undef /\ QFloorDiv(QI(1), QI(0)) = Undef /\ QMod(QI(1), QI(0)) = Undef
  /\ \A a \in -3..3, b \in (-3..3) \ {0} : Def(QDiv(QI(a), QI(b))) /\ Def(QMod(QI(a), QI(b)))

(***************************************************************************)
(* Emission                                                                *)
(***************************************************************************)
ASSUME PrintT(ToJson([k |-> "envs", envs |-> EnvSeq, syms |-> SymSeq]))

EmitTree ==
  (TreeState /\ Emitted) =>
    LET m == Meaning(Show(t)) IN
    PrintT(ToJson([k |-> "tree", t |-> t, h |-> Hash(t), d |-> Depth(t),
                   fs |-> FreeSyms(t),
                   toks  |-> Show(t),
                   full  |-> ShowM(t, "full", FnUpper),
                   atoms |-> ShowM(t, "atoms", FnMod),
                   vals  |-> v,
                   mvals |-> IF m.ok THEN ValsOf(m.t) ELSE <<>>]))

(***************************************************************************)
(* Enumeration                                                             *)
(***************************************************************************)
Vals1 == [r \in Trees1 |-> ValsOf(r)]
InitEnum == ph = "init" /\ x = <<>> /\ t \in Trees1 /\ v = ValsOf(t)
NextEnum ==
  /\ ph = "init" /\ ph' = "ext" /\ x' = x
  /\ \/ \E o \in UnSet :
          /\ t' = Un(o, t)
          /\ v' = [i \in DOMAIN v |-> UnLift(o, v[i])]
     \/ \E o \in BinSet, r \in Trees1 :
          /\ t' = Bin(o, t, r)
          /\ v' = [i \in DOMAIN v |-> BinLift(o, v[i], Vals1[r][i])]

(***************************************************************************)
(* Mixed signs: rounding operators over quotients of sign-undetermined     *)
(* differences                                                             *)
(***************************************************************************)
MixSyms  == {Sym(s) : s \in Syms}
MixAtoms == MixSyms \cup {Num(k) : k \in MixInts}
MixDiffs == {Bin("sub", a, b) : a \in MixAtoms, b \in MixAtoms} \ {Bin("sub", a, b) : a \in MixAtoms \ MixSyms, b \in MixAtoms \ MixSyms}
MixOperands ==
  {Bin("truediv", d, Num(k)) : d \in MixDiffs, k \in MixDivs}
    \cup {Bin("truediv", d, c) : d \in MixDiffs, c \in MixSyms}
    \cup {Bin("sub", Bin("truediv", Num(k), a), b) : k \in MixNums, a \in MixSyms, b \in MixAtoms}
MixOthers == MixSyms \cup {Num(k) : k \in MixDivs} \cup {Un("neg", Num(k)) : k \in MixDivs}
MixUn  == {"floor", "ceil", "trunc", "neg"}
MixBin == {"floordiv", "mod"}
InitMixed == ph = "mix0" /\ x = <<>> /\ t \in MixOperands /\ v = ValsOf(t)
NextMixed ==
  /\ ph = "mix0" /\ ph' = "mix" /\ x' = x
  /\ \/ \E o \in MixUn :
          /\ t' = Un(o, t)
          /\ v' = [i \in DOMAIN v |-> UnLift(o, v[i])]
     \/ \E o \in MixBin, r \in MixOthers :
          \/ /\ t' = Bin(o, t, r)
             /\ v' = [i \in DOMAIN v |-> BinLift(o, v[i], Eval(r, EnvSeq[i]))]
          \/ /\ t' = Bin(o, r, t)
             /\ v' = [i \in DOMAIN v |-> BinLift(o, Eval(r, EnvSeq[i]), v[i])]

\* the family does what it is for: the quotient of a difference of two symbols takes a negative non-integer
\* AND a positive non-integer value under bindings of the table (constant level, checked once)
ASSUME MixedIsMixed ==
  \A k \in MixDivs, a \in MixSyms : \A b \in MixSyms \ {a} :
     LET q == Bin("truediv", Bin("sub", a, b), Num(k)) IN
       /\ \E i \in DOMAIN EnvSeq : LET w == Eval(q, EnvSeq[i]) IN Def(w) /\ ~IsInt(w) /\ w[1] < 0
       /\ \E i \in DOMAIN EnvSeq : LET w == Eval(q, EnvSeq[i]) IN Def(w) /\ ~IsInt(w) /\ w[1] > 0

(***************************************************************************)
(* Random trees of a given depth (thorough tier)                           *)
(***************************************************************************)
RECURSIVE RTree(_)
RTree(d) ==
  IF d = 0 THEN (IF RandomElement(1..5) <= 3 THEN Sym(RandomElement(Syms)) ELSE Num(RandomElement(LeafInts)))
  ELSE LET c == RandomElement(1..10) IN
       IF c <= 2 THEN Un(RandomElement(UnSet), RTree(d - 1))
       ELSE IF c <= 6 THEN Bin(RandomElement(BinSet), RTree(d - 1), RTree(RandomElement(0..(d - 1))))
       ELSE Bin(RandomElement(BinSet), RTree(RandomElement(0..(d - 1))), RTree(d - 1))

InitRand == ph = "rand" /\ (\E i \in 1..NRand : x = <<i>>) /\ t = RTree(RandDepth) /\ v = ValsOf(t)
NextRand == FALSE /\ UNCHANGED vars

(***************************************************************************)
(* Shapes: explicit strings of the grammar with the tree they must mean    *)
(***************************************************************************)
N == Sym("N")
M == Sym("M")
K == Sym("K")
I(k) == Num(k)
ShapeCases == <<
  \* unary minus and power
  [x |-> <<"-", "N", "**", "2">>,                       t |-> Un("neg", Bin("pow", N, I(2)))],
  [x |-> <<"2", "-", "N", "**", "2">>,                  t |-> Bin("sub", I(2), Bin("pow", N, I(2)))],
  [x |-> <<"(", "-", "N", ")", "**", "2">>,             t |-> Bin("pow", Un("neg", N), I(2))],
  [x |-> <<"-", "(", "N", "**", "2", ")">>,             t |-> Un("neg", Bin("pow", N, I(2)))],
  [x |-> <<"2", "**", "-", "N">>,                       t |-> Bin("pow", I(2), Un("neg", N))],
  [x |-> <<"2", "**", "-", "N", "**", "2">>,            t |-> Bin("pow", I(2), Un("neg", Bin("pow", N, I(2))))],
  [x |-> <<"-", "N", "**", "2", "*", "M">>,             t |-> Bin("mul", Un("neg", Bin("pow", N, I(2))), M)],
  [x |-> <<"M", "*", "-", "N", "**", "2">>,             t |-> Bin("mul", M, Un("neg", Bin("pow", N, I(2))))],
  [x |-> <<"M", "-", "-", "N", "**", "2">>,             t |-> Bin("sub", M, Un("neg", Bin("pow", N, I(2))))],
  [x |-> <<"-", "-", "N", "**", "3">>,                  t |-> Un("neg", Un("neg", Bin("pow", N, I(3))))],
  [x |-> <<"-", "N", "**", "3">>,                       t |-> Un("neg", Bin("pow", N, I(3)))],
  [x |-> <<"-", "2", "**", "N">>,                       t |-> Un("neg", Bin("pow", I(2), N))],
  [x |-> <<"-", "(", "-", "N", ")">>,                   t |-> Un("neg", Un("neg", N))],
  [x |-> <<"-", "-", "N">>,                             t |-> Un("neg", Un("neg", N))],
  [x |-> <<"-", "N", "*", "M">>,                        t |-> Bin("mul", Un("neg", N), M)],
  [x |-> <<"-", "N", "//", "M">>,                       t |-> Bin("floordiv", Un("neg", N), M)],
  [x |-> <<"-", "N", "%", "M">>,                        t |-> Bin("mod", Un("neg", N), M)],
  [x |-> <<"-", "(", "N", "//", "M", ")">>,             t |-> Un("neg", Bin("floordiv", N, M))],
  [x |-> <<"-", "N", "+", "M">>,                        t |-> Bin("add", Un("neg", N), M)],
  \* associativity
  [x |-> <<"N", "-", "M", "-", "K">>,                   t |-> Bin("sub", Bin("sub", N, M), K)],
  [x |-> <<"N", "-", "(", "M", "-", "K", ")">>,         t |-> Bin("sub", N, Bin("sub", M, K))],
  [x |-> <<"N", "-", "M", "+", "K">>,                   t |-> Bin("add", Bin("sub", N, M), K)],
  [x |-> <<"N", "//", "M", "//", "K">>,                 t |-> Bin("floordiv", Bin("floordiv", N, M), K)],
  [x |-> <<"N", "//", "(", "M", "//", "K", ")">>,       t |-> Bin("floordiv", N, Bin("floordiv", M, K))],
  [x |-> <<"N", "/", "M", "/", "K">>,                   t |-> Bin("truediv", Bin("truediv", N, M), K)],
  [x |-> <<"N", "/", "M", "*", "K">>,                   t |-> Bin("mul", Bin("truediv", N, M), K)],
  [x |-> <<"N", "%", "M", "%", "K">>,                   t |-> Bin("mod", Bin("mod", N, M), K)],
  [x |-> <<"N", "%", "M", "*", "K">>,                   t |-> Bin("mul", Bin("mod", N, M), K)],
  [x |-> <<"N", "*", "M", "%", "K">>,                   t |-> Bin("mod", Bin("mul", N, M), K)],
  [x |-> <<"N", "*", "M", "//", "K">>,                  t |-> Bin("floordiv", Bin("mul", N, M), K)],
  [x |-> <<"N", "//", "M", "*", "K">>,                  t |-> Bin("mul", Bin("floordiv", N, M), K)],
  [x |-> <<"N", "*", "(", "M", "//", "K", ")">>,        t |-> Bin("mul", N, Bin("floordiv", M, K))],
  [x |-> <<"2", "**", "N", "**", "2">>,                 t |-> Bin("pow", I(2), Bin("pow", N, I(2)))],
  [x |-> <<"(", "2", "**", "N", ")", "**", "2">>,       t |-> Bin("pow", Bin("pow", I(2), N), I(2))],
  [x |-> <<"N", "**", "M", "**", "K">>,                 t |-> Bin("pow", N, Bin("pow", M, K))],
  \* precedence between the levels
  [x |-> <<"N", "+", "M", "*", "K">>,                   t |-> Bin("add", N, Bin("mul", M, K))],
  [x |-> <<"N", "+", "M", "%", "K">>,                   t |-> Bin("add", N, Bin("mod", M, K))],
  [x |-> <<"N", "%", "M", "+", "K">>,                   t |-> Bin("add", Bin("mod", N, M), K)],
  [x |-> <<"N", "-", "M", "//", "K">>,                  t |-> Bin("sub", N, Bin("floordiv", M, K))],
  [x |-> <<"N", "//", "M", "-", "K">>,                  t |-> Bin("sub", Bin("floordiv", N, M), K)],
  [x |-> <<"N", "*", "M", "**", "2">>,                  t |-> Bin("mul", N, Bin("pow", M, I(2)))],
  [x |-> <<"N", "**", "2", "*", "M">>,                  t |-> Bin("mul", Bin("pow", N, I(2)), M)],
  [x |-> <<"N", "**", "2", "//", "M">>,                 t |-> Bin("floordiv", Bin("pow", N, I(2)), M)],
  [x |-> <<"N", "//", "M", "**", "2">>,                 t |-> Bin("floordiv", N, Bin("pow", M, I(2)))],
  [x |-> <<"N", "+", "M", "**", "2", "%", "K">>,        t |-> Bin("add", N, Bin("mod", Bin("pow", M, I(2)), K))],
  [x |-> <<"(", "N", "+", "M", ")", "*", "K">>,         t |-> Bin("mul", Bin("add", N, M), K)],
  [x |-> <<"(", "N", "+", "M", ")", "//", "(", "K", "+", "1", ")">>,
                                                        t |-> Bin("floordiv", Bin("add", N, M), Bin("add", K, I(1)))],
  [x |-> <<"(", "(", "N", ")", ")", "-", "(", "(", "M", "-", "(", "K", ")", ")", ")">>,
                                                        t |-> Bin("sub", N, Bin("sub", M, K))],
  \* functions
  [x |-> <<"max", "(", "N", ",", "M", "+", "1", ")">>,  t |-> Bin("max", N, Bin("add", M, I(1)))],
  [x |-> <<"Max", "(", "N", ",", "M", ")", "-", "K">>,  t |-> Bin("sub", Bin("max", N, M), K)],
  [x |-> <<"min", "(", "N", "-", "M", ",", "K", ")">>,  t |-> Bin("min", Bin("sub", N, M), K)],
  [x |-> <<"Min", "(", "N", ",", "M", ",", "K", ")">>,  t |-> Bin("min", Bin("min", N, M), K)],
  [x |-> <<"max", "(", "N", ",", "M", ",", "K", ")">>,  t |-> Bin("max", Bin("max", N, M), K)],
  [x |-> <<"max", "(", "min", "(", "N", ",", "M", ")", ",", "K", "//", "2", ")">>,
                                                        t |-> Bin("max", Bin("min", N, M), Bin("floordiv", K, I(2)))],
  [x |-> <<"floor", "(", "N", "/", "2", ")">>,          t |-> Un("floor", Bin("truediv", N, I(2)))],
  [x |-> <<"-", "floor", "(", "-", "N", "/", "2", ")">>,
                                                        t |-> Un("neg", Un("floor", Bin("truediv", Un("neg", N), I(2))))],
  [x |-> <<"floor", "(", "(", "N", "-", "M", ")", "/", "K", ")", "*", "K">>,
                                                        t |-> Bin("mul", Un("floor", Bin("truediv", Bin("sub", N, M), K)), K)],
  [x |-> <<"floor", "(", "max", "(", "N", ",", "M", ")", "/", "K", ")">>,
                                                        t |-> Un("floor", Bin("truediv", Bin("max", N, M), K))],
  [x |-> <<"mod", "(", "N", ",", "M", ")">>,            t |-> Bin("mod", N, M)],
  [x |-> <<"Mod", "(", "N", "-", "M", ",", "K", ")">>,  t |-> Bin("mod", Bin("sub", N, M), K)],
  [x |-> <<"Mod", "(", "N", ",", "M", "-", "4", ")">>,  t |-> Bin("mod", N, Bin("sub", M, I(4)))],
  [x |-> <<"sqrt", "(", "N", "*", "N", ")">>,           t |-> Un("sqrt", Bin("mul", N, N))],
  [x |-> <<"sqrt", "(", "N", ")", "**", "2">>,          t |-> Bin("pow", Un("sqrt", N), I(2))],
  [x |-> <<"-", "max", "(", "N", ",", "M", ")", "**", "2">>,
                                                        t |-> Un("neg", Bin("pow", Bin("max", N, M), I(2)))],
  [x |-> <<"(", "N", "-", "M", ")", "//", "2">>,        t |-> Bin("floordiv", Bin("sub", N, M), I(2))],
  [x |-> <<"(", "N", "-", "M", ")", "%", "3">>,         t |-> Bin("mod", Bin("sub", N, M), I(3))],
  [x |-> <<"N", "%", "(", "M", "-", "4", ")">>,         t |-> Bin("mod", N, Bin("sub", M, I(4)))],
  [x |-> <<"N", "//", "(", "M", "-", "4", ")">>,        t |-> Bin("floordiv", N, Bin("sub", M, I(4)))],
  [x |-> <<"10", "*", "N", "+", "12">>,                 t |-> Bin("add", Bin("mul", I(10), N), I(12))]
>>

\* strings that are NOT in the language
BadStrings == <<
  <<"N", "+">>, <<"(", "N">>, <<"N", ")">>, <<"*", "N">>, <<"N", "M">>, <<"max", "(", ")">>,
  <<"floor", "(", "N", ",", "M", ")">>, <<"N", "//", "/", "M">>, <<"ceiling", "(", "N", ")">>, <<>>
>>
ASSUME RejectsBad == \A i \in DOMAIN BadStrings : ~Meaning(BadStrings[i]).ok

InitShapes == ph = "shape" /\ \E i \in DOMAIN ShapeCases : x = ShapeCases[i].x /\ t = ShapeCases[i].t /\ v = ValsOf(t)
NextShapes == FALSE /\ UNCHANGED vars

ShapeMeaning == ShapeState => Meaning(x) = [ok |-> TRUE, t |-> t]
\* printing the meant tree and reading it again is stable
ShapeReprint == ShapeState => Meaning(Show(t)) = [ok |-> TRUE, t |-> t]

EmitShape ==
  ShapeState =>
    PrintT(ToJson([k |-> "shape", toks |-> x, t |-> t, min |-> Show(t), vals |-> v,
                   mvals |-> ValsOf(Meaning(x).t)]))

(***************************************************************************)
(* Text: strings printed by the real library, read from TEXT_FILE          *)
(*   [ {id: <string>, toks: [<string>, ...]}, ... ]                           *)
(***************************************************************************)
TextCases == IF "TEXT_FILE" \in DOMAIN IOEnv THEN JsonDeserialize(IOEnv.TEXT_FILE) ELSE <<>>
InitText == ph = "text" /\ t = Num(0) /\ v = <<>> /\ \E i \in DOMAIN TextCases : x = <<TextCases[i].id>> \o TextCases[i].toks
NextText == FALSE /\ UNCHANGED vars
EmitText ==
  ph = "text" =>
    LET m == Meaning(Tail(x)) IN
    PrintT(ToJson([k |-> "text", id |-> Head(x), ok |-> m.ok,
                   mvals |-> IF m.ok THEN ValsOf(m.t) ELSE <<>>,
                   fs |-> IF m.ok THEN FreeSyms(m.t) ELSE {}]))

=============================================================================
