\* code -> specification: Meaning of the strings the real library printed (TEXT_FILE)
CONSTANTS
  Syms = {"N", "M"}
  SymSeq <- MCSymSeq2
  MaxNum = 999
  PowBaseMax = 256
  PowExpMax = 32
  LeafInts = {}
  NegSyms = {}
  NegInts = {}
  Vals = {1, 2, 3, 4}
  UnSet = {}
  BinSet = {}
  PerClass = 2
  ClosedBoost = 1
  SampleRem = 0
  MixInts = {}
  MixDivs = {}
  MixNums = {}
  NRand = 0
  RandDepth = 0
  LightLemmas = FALSE
INIT InitText
NEXT NextText
INVARIANT EmitText
