\* NRand random trees of depth RandDepth (TLC RandomElement, seeded with -seed); all lemmas, all emitted
CONSTANTS
  Syms = {"N", "M"}
  SymSeq <- MCSymSeq2
  MaxNum = 16
  PowBaseMax = 256
  PowExpMax = 32
  LeafInts = {1, 2, 3}
  NegSyms = {}
  NegInts = {}
  Vals = {1, 2, 3, 4}
  UnSet = {"neg", "floor", "ceil", "trunc"}
  BinSet = {"add", "sub", "mul", "floordiv", "truediv", "mod", "min", "max"}
  PerClass = 2
  ClosedBoost = 1
  SampleRem = 0
  MixInts = {}
  MixDivs = {}
  MixNums = {}
  NRand = 200
  RandDepth = 3
  LightLemmas = FALSE
INIT InitRand
NEXT NextRand
INVARIANT ValueTable
INVARIANT RoundTripTree
INVARIANT DesugarOK
INVARIANT RoundTripValue
INVARIANT PartialOK
INVARIANT NormalForm
INVARIANT Integral
INVARIANT EmitTree
