------------------------------- MODULE SymDim -------------------------------
(***************************************************************************)
(* Symbolic dimensions with integer semantics (property C16).              *)
(*                                                                         *)
(* What is specified                                                       *)
(*   Trees   expression trees over                                         *)
(*           Sym(s) Num(k) add sub mul floordiv truediv mod neg floor ceil *)
(*           trunc min max   (the operators ir.SymbolicDim overloads) and, *)
(*           for the textual grammar only, pow and sqrt.                   *)
(*   Eval    the value of a tree under a binding of its symbols, computed  *)
(*           EXACTLY over the rationals <<num, den>> (den > 0, reduced).   *)
(*           // and % have floor semantics for either sign (Python's),     *)
(*           trunc rounds toward zero.  Eval is total except for division  *)
(*           by zero (and the cases that leave the model: a non-integer    *)
(*           exponent, the root of a non-square, a power beyond the 32-bit *)
(*           range): Undef.                                                *)
(*   Partial substituting some symbols, folding the closed sub-terms, and  *)
(*           evaluating the residual later gives Eval under the union.     *)
(*   Show    the textual form, as a token sequence, with the standard      *)
(*           (Python) precedence and associativity and minimal parentheses.*)
(*           Only functions of the documented grammar are printed, so ceil *)
(*           and trunc are first rewritten (Desugar) into floor/max/min.   *)
(*   Meaning the inverse: a precedence-climbing parser for the grammar     *)
(*           documented in onnx_ir/_symbolic_shapes.py, giving every       *)
(*           string of that LANGUAGE its standard arithmetic meaning:      *)
(*              level 1   + -          left associative                    *)
(*              level 2   * / // %     left associative                    *)
(*              level 3   unary -                                          *)
(*              level 4   **           right associative, binds tighter    *)
(*                                     than a unary minus on its left, the *)
(*                                     exponent may itself be signed       *)
(*              level 5   NUMBER | IDENT | IDENT '(' args ')' | '(' e ')'  *)
(*           functions: max Max min Min floor sqrt mod Mod.                *)
(*                                                                         *)
(* The lemmas TLC checks on the bounded scope are in SymDimMC.             *)
(*                                                                         *)
(* Representation notes (TLC): a tree is a record whose FIELD NAMES depend *)
(* on the node kind (s | k | q | a | a,b) so that sets of trees can be     *)
(* normalised without comparing a string with an integer.  Tokens are      *)
(* strings; numerals are the strings ToString(0..MaxNum).  TLC integers    *)
(* are 32 bit and TLC reports overflow as an error, never wraps.           *)
(***************************************************************************)
EXTENDS Integers, Sequences, FiniteSets, TLC

CONSTANTS Syms,        \* the symbol names (strings)
          MaxNum,      \* largest numeral the tokenizer table knows
          PowBaseMax,  \* a ** b is modelled for |num(a)|, den(a) <= PowBaseMax, |b| <= PowExpMax and while the
          PowExpMax    \* running product stays <= PowLimit; beyond that (32-bit TLC integers) the value is
                       \* Undef, i.e. the binding is skipped

(***************************************************************************)
(* Rationals                                                               *)
(***************************************************************************)
Abs(x) == IF x < 0 THEN -x ELSE x
Sgn(x) == IF x < 0 THEN -1 ELSE IF x = 0 THEN 0 ELSE 1

RECURSIVE Gcd(_, _)
Gcd(a, b) == IF b = 0 THEN a ELSE Gcd(b, a % b)          \* a >= 0, b >= 0

Undef == <<0, 0>>
Def(q) == q[2] # 0

Q(n, d) ==                                                 \* normal form of n/d, d # 0
  IF d = 1 THEN <<n, 1>>
  ELSE LET g == Gcd(Abs(n), Abs(d))
       IN  <<Sgn(n) * Sgn(d) * (Abs(n) \div g), Abs(d) \div g>>

QI(k) == <<k, 1>>
IsInt(q) == q[2] = 1

IFloor(n, d) == IF n >= 0 THEN n \div d ELSE -(((-n) + d - 1) \div d)     \* d > 0, either sign of n

QNeg(a)    == <<-a[1], a[2]>>
QAdd(a, b) == Q(a[1] * b[2] + b[1] * a[2], a[2] * b[2])
QSub(a, b) == Q(a[1] * b[2] - b[1] * a[2], a[2] * b[2])
QMul(a, b) == Q(a[1] * b[1], a[2] * b[2])
QDiv(a, b) == IF b[1] = 0 THEN Undef ELSE Q(a[1] * b[2], a[2] * b[1])
QFloor(a)  == QI(IFloor(a[1], a[2]))
QCeil(a)   == QI(-IFloor(-a[1], a[2]))
QTrunc(a)  == IF a[1] >= 0 THEN QFloor(a) ELSE QCeil(a)
QLe(a, b)  == a[1] * b[2] <= b[1] * a[2]
QMin(a, b) == IF QLe(a, b) THEN a ELSE b
QMax(a, b) == IF QLe(a, b) THEN b ELSE a
QFloorDiv(a, b) == IF b[1] = 0 THEN Undef ELSE QFloor(QDiv(a, b))
QMod(a, b) == IF b[1] = 0 THEN Undef ELSE QSub(a, QMul(b, QFloorDiv(a, b)))

PowLimit == 1048576
ASSUME PowBaseMax * PowLimit < 2147483647
RECURSIVE QIPow(_, _)
QIPow(a, n) ==                                                             \* n >= 0
  IF n = 0 THEN QI(1)
  ELSE LET r == QIPow(a, n - 1)
       IN  IF ~Def(r) \/ Abs(r[1]) > PowLimit \/ r[2] > PowLimit THEN Undef ELSE QMul(a, r)
QPow(a, b) ==
  IF ~IsInt(b) THEN Undef                          \* leaves the rationals: not modelled
  ELSE IF Abs(b[1]) > PowExpMax \/ Abs(a[1]) > PowBaseMax \/ a[2] > PowBaseMax THEN Undef   \* outside the modelled range
  ELSE IF b[1] >= 0 THEN QIPow(a, b[1])
  ELSE IF a[1] = 0 THEN Undef
  ELSE QIPow(QDiv(QI(1), a), -b[1])
QSqrt(a) ==
  IF ~IsInt(a) \/ a[1] < 0 THEN Undef
  ELSE IF \E r \in 0..a[1] : r * r = a[1] THEN QI(CHOOSE r \in 0..a[1] : r * r = a[1]) ELSE Undef

(***************************************************************************)
(* Trees                                                                   *)
(***************************************************************************)
Sym(s)  == [op |-> "sym", s |-> s]
Num(k)  == [op |-> "int", k |-> k]
Rat(q)  == [op |-> "rat", q |-> q]                 \* only produced by Partial
Un(o, a)     == [op |-> o, a |-> a]
Bin(o, a, b) == [op |-> o, a |-> a, b |-> b]

LeafOps  == {"sym", "int", "rat"}
UnOps    == {"neg", "floor", "ceil", "trunc"}                                   \* overloaded by SymbolicDim
BinOps   == {"add", "sub", "mul", "floordiv", "truediv", "mod", "min", "max"}   \* overloaded / textual min max
UnAll    == UnOps \cup {"sqrt"}
BinAll   == BinOps \cup {"pow"}

UnSem(o, x) ==
  CASE o = "neg"   -> QNeg(x)
    [] o = "floor" -> QFloor(x)
    [] o = "ceil"  -> QCeil(x)
    [] o = "trunc" -> QTrunc(x)
    [] o = "sqrt"  -> QSqrt(x)
BinSem(o, x, y) ==
  CASE o = "add"      -> QAdd(x, y)
    [] o = "sub"      -> QSub(x, y)
    [] o = "mul"      -> QMul(x, y)
    [] o = "truediv"  -> QDiv(x, y)
    [] o = "floordiv" -> QFloorDiv(x, y)
    [] o = "mod"      -> QMod(x, y)
    [] o = "min"      -> QMin(x, y)
    [] o = "max"      -> QMax(x, y)
    [] o = "pow"      -> QPow(x, y)

\* strict in Undef
UnLift(o, x)     == IF Def(x) THEN UnSem(o, x) ELSE Undef
BinLift(o, x, y) == IF Def(x) /\ Def(y) THEN BinSem(o, x, y) ELSE Undef

\* env: a function from (a subset of) Syms to integers.  An unbound symbol has no value.
RECURSIVE Eval(_, _)
Eval(t, env) ==
  CASE t.op = "sym" -> IF t.s \in DOMAIN env THEN QI(env[t.s]) ELSE Undef
    [] t.op = "int" -> QI(t.k)
    [] t.op = "rat" -> t.q
    [] t.op \in UnAll  -> UnLift(t.op, Eval(t.a, env))
    [] t.op \in BinAll -> BinLift(t.op, Eval(t.a, env), Eval(t.b, env))

RECURSIVE FreeSyms(_)
FreeSyms(t) ==
  CASE t.op = "sym" -> {t.s}
    [] t.op \in {"int", "rat"} -> {}
    [] t.op \in UnAll  -> FreeSyms(t.a)
    [] t.op \in BinAll -> FreeSyms(t.a) \cup FreeSyms(t.b)

RECURSIVE Depth(_)
Depth(t) ==
  CASE t.op \in LeafOps -> 0
    [] t.op \in UnAll   -> 1 + Depth(t.a)
    [] t.op \in BinAll  -> 1 + (IF Depth(t.a) >= Depth(t.b) THEN Depth(t.a) ELSE Depth(t.b))

(***************************************************************************)
(* Partial evaluation: substitute, then fold every closed sub-term whose   *)
(* value is defined into a rational literal.                               *)
(***************************************************************************)
RECURSIVE Subst(_, _)
Subst(t, env) ==
  CASE t.op = "sym" -> IF t.s \in DOMAIN env THEN Num(env[t.s]) ELSE t
    [] t.op \in {"int", "rat"} -> t
    [] t.op \in UnAll  -> Un(t.op, Subst(t.a, env))
    [] t.op \in BinAll -> Bin(t.op, Subst(t.a, env), Subst(t.b, env))

NoEnv == <<>>                                            \* the binding with empty domain

RECURSIVE Fold(_)
Fold(t) ==
  IF t.op \in LeafOps THEN t
  ELSE IF FreeSyms(t) = {} /\ Def(Eval(t, NoEnv)) THEN Rat(Eval(t, NoEnv))
  ELSE IF t.op \in UnAll THEN Un(t.op, Fold(t.a))
  ELSE Bin(t.op, Fold(t.a), Fold(t.b))

Partial(t, env) == Fold(Subst(t, env))

(***************************************************************************)
(* Printing.  Desugar first: the documented grammar has no ceil / trunc.   *)
(*   ceil(x)  = -floor(-x)                                                 *)
(*   trunc(x) = max(floor(x), 0) + min(-floor(-x), 0)                      *)
(***************************************************************************)
RECURSIVE Desugar(_)
Desugar(t) ==
  CASE t.op \in LeafOps -> t
    [] t.op = "ceil"  -> Un("neg", Un("floor", Un("neg", Desugar(t.a))))
    [] t.op = "trunc" -> LET x == Desugar(t.a)
                         IN  Bin("add", Bin("max", Un("floor", x), Num(0)),
                                        Bin("min", Un("neg", Un("floor", Un("neg", x))), Num(0)))
    [] t.op \in UnAll  -> Un(t.op, Desugar(t.a))
    [] t.op \in BinAll -> Bin(t.op, Desugar(t.a), Desugar(t.b))

Prec(t) ==
  CASE t.op \in {"add", "sub"} -> 1
    [] t.op \in {"mul", "truediv", "floordiv", "mod"} -> 2
    [] t.op = "neg" -> 3
    [] t.op = "pow" -> 4
    [] OTHER -> 5
OpTok(o) ==
  CASE o = "add" -> "+" [] o = "sub" -> "-" [] o = "mul" -> "*" [] o = "truediv" -> "/"
    [] o = "floordiv" -> "//" [] o = "mod" -> "%" [] o = "pow" -> "**"

\* mode "min": parentheses only where precedence/associativity demands them
\* mode "full": additionally around every operator application and call
\* mode "atoms": additionally around every leaf
\* fn: the spelling of the function names, a function max|min|mod |-> STRING  (the grammar has two spellings each)
RECURSIVE Pr(_, _, _, _)
Pr(t, minp, mode, fn) ==
  LET body ==
        CASE t.op = "sym" -> <<t.s>>
          [] t.op = "int" -> <<ToString(t.k)>>
          [] t.op \in {"add", "sub", "mul", "truediv", "floordiv"} ->
               Pr(t.a, Prec(t), mode, fn) \o <<OpTok(t.op)>> \o Pr(t.b, Prec(t) + 1, mode, fn)
          [] t.op = "mod" ->
               IF fn["mod"] = "%" THEN Pr(t.a, 2, mode, fn) \o <<"%">> \o Pr(t.b, 3, mode, fn)
               ELSE <<fn["mod"], "(">> \o Pr(t.a, 0, mode, fn) \o <<",">> \o Pr(t.b, 0, mode, fn) \o <<")">>
          [] t.op = "neg" -> <<"-">> \o Pr(t.a, 3, mode, fn)
          [] t.op = "pow" -> Pr(t.a, 5, mode, fn) \o <<"**">> \o Pr(t.b, 3, mode, fn)
          [] t.op \in {"floor", "sqrt"} -> <<t.op, "(">> \o Pr(t.a, 0, mode, fn) \o <<")">>
          [] t.op \in {"min", "max"} ->
               <<fn[t.op], "(">> \o Pr(t.a, 0, mode, fn) \o <<",">> \o Pr(t.b, 0, mode, fn) \o <<")">>
      called == t.op \in {"floor", "sqrt", "min", "max"} \/ (t.op = "mod" /\ fn["mod"] # "%")
      p == IF called THEN 5 ELSE Prec(t)
      wrap == \/ p < minp
              \/ mode = "full" /\ t.op \notin LeafOps
              \/ mode = "atoms"
  IN  IF wrap THEN <<"(">> \o body \o <<")">> ELSE body

FnLower == [max |-> "max", min |-> "min", mod |-> "%"]
FnUpper == [max |-> "Max", min |-> "Min", mod |-> "Mod"]
FnMod   == [max |-> "max", min |-> "Min", mod |-> "mod"]

ShowM(t, mode, fn) == Pr(Desugar(t), 0, mode, fn)
Show(t) == ShowM(t, "min", FnLower)

(***************************************************************************)
(* Meaning: precedence climbing over a token sequence.                     *)
(***************************************************************************)
Numerals == {ToString(k) : k \in 0..MaxNum}
NumOf == [s \in Numerals |-> CHOOSE k \in 0..MaxNum : ToString(k) = s]
FuncNames == {"max", "Max", "min", "Min", "floor", "sqrt", "mod", "Mod"}

Eof == "<eof>"
Tok(toks, p) == IF p <= Len(toks) THEN toks[p] ELSE Eof
Fail == [ok |-> FALSE]
OkR(t, p) == [ok |-> TRUE, t |-> t, p |-> p]

BinPrec(tk) ==
  CASE tk \in {"+", "-"} -> 1
    [] tk \in {"*", "/", "//", "%"} -> 2
    [] tk = "**" -> 4
    [] OTHER -> 0
BinOpOf(tk) ==
  CASE tk = "+" -> "add" [] tk = "-" -> "sub" [] tk = "*" -> "mul" [] tk = "/" -> "truediv"
    [] tk = "//" -> "floordiv" [] tk = "%" -> "mod" [] tk = "**" -> "pow"

RECURSIVE FoldArgs(_, _, _)
FoldArgs(o, args, i) ==                               \* max(a, b, c) = max(max(a, b), c)
  IF i = 1 THEN args[1] ELSE Bin(o, FoldArgs(o, args, i - 1), args[i])

Call(name, args) ==
  LET n == Len(args) IN
  CASE name = "floor" /\ n = 1 -> [ok |-> TRUE, t |-> Un("floor", args[1])]
    [] name = "sqrt"  /\ n = 1 -> [ok |-> TRUE, t |-> Un("sqrt", args[1])]
    [] name \in {"max", "Max"} /\ n >= 1 -> [ok |-> TRUE, t |-> FoldArgs("max", args, n)]
    [] name \in {"min", "Min"} /\ n >= 1 -> [ok |-> TRUE, t |-> FoldArgs("min", args, n)]
    [] name \in {"mod", "Mod"} /\ n = 2  -> [ok |-> TRUE, t |-> Bin("mod", args[1], args[2])]
    [] OTHER -> Fail

RECURSIVE PE(_, _, _), PLoop(_, _, _, _), PAtom(_, _), PArgs(_, _, _)

\* an operand (signed or atomic) followed by all binary operators of precedence >= minp
PE(toks, p, minp) ==
  IF Tok(toks, p) = "-"
  THEN LET r == PE(toks, p + 1, 3)                   \* the operand of unary minus: everything that binds tighter, ** included
       IN  IF r.ok THEN PLoop(toks, Un("neg", r.t), r.p, minp) ELSE Fail
  ELSE LET r == PAtom(toks, p)
       IN  IF r.ok THEN PLoop(toks, r.t, r.p, minp) ELSE Fail

PLoop(toks, lhs, p, minp) ==
  LET tk == Tok(toks, p)
      q  == BinPrec(tk)
  IN  IF q = 0 \/ q < minp THEN OkR(lhs, p)
      ELSE LET r == PE(toks, p + 1, IF tk = "**" THEN q ELSE q + 1)      \* ** right-, the others left-associative
           IN  IF r.ok THEN PLoop(toks, Bin(BinOpOf(tk), lhs, r.t), r.p, minp) ELSE Fail

PAtom(toks, p) ==
  LET tk == Tok(toks, p) IN
  IF tk \in Numerals THEN OkR(Num(NumOf[tk]), p + 1)
  ELSE IF tk = "(" THEN
         LET r == PE(toks, p + 1, 0)
         IN  IF r.ok /\ Tok(toks, r.p) = ")" THEN OkR(r.t, r.p + 1) ELSE Fail
  ELSE IF tk \in FuncNames /\ Tok(toks, p + 1) = "(" THEN
         LET r == PArgs(toks, p + 2, <<>>)
         IN  IF ~r.ok THEN Fail
             ELSE LET c == Call(tk, r.args) IN IF c.ok THEN OkR(c.t, r.p) ELSE Fail
  ELSE IF tk \in Syms THEN OkR(Sym(tk), p + 1)
  ELSE Fail

\* args -> expr (',' expr)* ')'   ; returns the position after ')'
PArgs(toks, p, acc) ==
  LET r == PE(toks, p, 0) IN
  IF ~r.ok THEN Fail
  ELSE IF Tok(toks, r.p) = "," THEN PArgs(toks, r.p + 1, Append(acc, r.t))
  ELSE IF Tok(toks, r.p) = ")" THEN [ok |-> TRUE, args |-> Append(acc, r.t), p |-> r.p + 1]
  ELSE Fail

Meaning(toks) ==
  LET r == PE(toks, 1, 0)
  IN  IF r.ok /\ r.p = Len(toks) + 1 THEN [ok |-> TRUE, t |-> r.t] ELSE Fail

=============================================================================
