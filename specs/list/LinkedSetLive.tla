---------------------------- MODULE LinkedSetLive ----------------------------
(***************************************************************************)
(* Termination of iteration once edits stop (C11: "always terminates       *)
(* without error once edits stop"), as a liveness property.                *)
(*                                                                         *)
(* At most MaxEdits edits (single-element append / insert_after /          *)
(* insert_before / remove of present nodes, moves included) are            *)
(* interleaved arbitrarily with the steps of NCur cursors started on       *)
(* <<1,2,3>>; the cursor steps are weakly fair.  Since the number of edits *)
(* is bounded every behaviour has a point after which only cursors move:   *)
(* from there every cursor must reach "done" and stay there.  No state     *)
(* constraint and no VIEW are used (both interfere with liveness checking);*)
(* the edit counter bounds the state space.                                *)
(***************************************************************************)
EXTENDS LinkedSet

CONSTANTS MaxEdits, DirId

VARIABLES s, nedit
vars == <<s, nedit>>

DirsL == CASE DirId = 0 -> <<"f", "f", "f">>
           [] DirId = 1 -> <<"b", "b", "b">>
           [] DirId = 2 -> <<"f", "b", "f">>

A(op, a, es) == [op |-> op, a |-> a, es |-> es, c |-> 0]
Present(st) == {e \in Elem : st.boxOf[e] # 0}
Edits(st) ==   {A("AP", e, <<>>) : e \in Elem}
          \cup {A("IA", a, <<e>>) : a \in Present(st), e \in Elem}
          \cup {A("IB", a, <<e>>) : a \in Present(st), e \in Elem}
          \cup {A("RM", e, <<>>) : e \in Present(st)}

Init == s = ExtendAll(EmptyState(DirsL), <<1, 2, 3>>) /\ nedit = 0

Edit == /\ nedit < MaxEdits
        /\ \E a \in Edits(s) : s' = Apply(s, a).s
        /\ nedit' = nedit + 1

StepC(c) == /\ s.cur[c].ph \in {"new", "parked"}
            /\ s' = StepCur(s, c).s
            /\ UNCHANGED nedit

Next == Edit \/ \E c \in Cur : StepC(c)

Spec == Init /\ [][Next]_vars /\ \A c \in Cur : WF_vars(StepC(c))

AllDone == \A c \in Cur : s.cur[c].ph = "done"
Terminates == <>[]AllDone
NoLoop == NoLoopOK(s)
=============================================================================
