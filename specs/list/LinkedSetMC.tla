----------------------------- MODULE LinkedSetMC -----------------------------
(***************************************************************************)
(* Bounded model of LinkedSet: every interleaving of cursor steps (NCur    *)
(* cursors, every direction mix) with the edit alphabet                    *)
(*   append(e), extend(<<e1,e2>>), insert_after/before(a, <<e>> | <<e1,e2>>)*)
(*   (anchor and new elements range over ALL elements: absent anchors are  *)
(*   rejected, present new elements are moves, the anchor itself and its   *)
(*   neighbours are included), remove(e) (absent -> rejected), sort()      *)
(* from a table of initial situations, up to MaxDepth actions.             *)
(*                                                                         *)
(* Two uses, two kinds of .cfg:                                            *)
(*  prop  : VIEW = the whole state record (ghosts in the fingerprint) and  *)
(*          all invariants / action properties; nothing printed.           *)
(*  emit  : VIEW = mechanism + cursors only; the always-true action        *)
(*          constraint Emit prints one JSON line per explored transition:  *)
(*          the history of the successor (first-found history of the       *)
(*          pre-state + the action).  A history is a sequence of tuples    *)
(*            <<op, a, es, c, out, y, list-after>>                         *)
(*          preceded by <<"IN", 0, initial list, 0, "ok", 0, list, dirs>>. *)
(* The harness runs one single-worker TLC per (initial situation,          *)
(* direction assignment): breadth-first search with one worker makes       *)
(* TLCGet("level") the exact depth, so the bound is exact and the numbers  *)
(* are reproducible; parallelism comes from the partition.                 *)
(***************************************************************************)
EXTENDS LinkedSet, Json

CONSTANTS InitIds,    \* which initial situations (table InitCase)
          DirIds,     \* which direction assignments (table DirsOf)
          MaxDepth,   \* number of actions after the initial situation
          PairMode,   \* 0: one new element per call, 1: also ordered pairs of distinct elements + <<1,1>>
          WithRej,    \* include calls the code rejects (absent anchor / absent element)
          EmitOn      \* record and print histories

VARIABLES s, hist, last
vars == <<s, hist, last>>

\* initial situations: a list and the cursor steps already taken (cursor ids, in order), so that the
\* depth bound is spent on edits around parked cursors rather than on reaching them
InitCase(id) ==
  CASE id = 0  -> [l |-> <<>>,           pre |-> <<>>]
    [] id = 1  -> [l |-> <<1, 2, 3>>,    pre |-> <<>>]
    [] id = 2  -> [l |-> <<1, 2, 3>>,    pre |-> <<1>>]
    [] id = 3  -> [l |-> <<1, 2, 3>>,    pre |-> <<1, 1>>]
    [] id = 4  -> [l |-> <<1, 2, 3>>,    pre |-> <<1, 1, 1>>]
    [] id = 5  -> [l |-> <<1, 2, 3>>,    pre |-> <<1, 2>>]
    [] id = 6  -> [l |-> <<1, 2, 3>>,    pre |-> <<1, 1, 2>>]
    [] id = 7  -> [l |-> <<1, 2, 3>>,    pre |-> <<1, 1, 2, 2>>]
    [] id = 8  -> [l |-> <<1, 2>>,       pre |-> <<1>>]
    [] id = 9  -> [l |-> <<1, 2, 3, 4>>, pre |-> <<1, 1>>]
    [] id = 10 -> [l |-> <<1, 2, 3, 4>>, pre |-> <<1, 1, 2, 2, 2>>]
    [] id = 11 -> [l |-> <<1, 2, 3, 4>>, pre |-> <<1, 1, 1, 2, 3>>]

\* direction assignments for up to 3 cursors
DirsOf(id) == CASE id = 0 -> <<"f", "f", "f">>
                [] id = 1 -> <<"b", "b", "b">>
                [] id = 2 -> <<"f", "b", "f">>
                [] id = 3 -> <<"b", "f", "b">>

Singles == {<<e>> : e \in Elem}
Pairs   == IF PairMode = 0 THEN {} ELSE {<<e1, e2>> : e1, e2 \in Elem} \ {<<e, e>> : e \in Elem \ {1}}
Multi   == Singles \cup Pairs

A(op, a, es, c) == [op |-> op, a |-> a, es |-> es, c |-> c]

\* Graph.sort() on nodes wired so that ascending ids is the only topological order
SortedLive(st) == LET S == LsSet(LiveSeq(st))
                      f[i \in 0..NElem] == IF i = 0 THEN <<>> ELSE IF i \in S THEN Append(f[i - 1], i) ELSE f[i - 1]
                  IN f[NElem]

Acts(st) ==
       {A("AP", e, <<>>, 0) : e \in Elem}
  \cup {A("EX", 0, es, 0) : es \in Pairs}
  \cup {A("IA", a, es, 0) : a \in {x \in Elem : WithRej \/ st.boxOf[x] # 0}, es \in Multi}
  \cup {A("IB", a, es, 0) : a \in {x \in Elem : WithRej \/ st.boxOf[x] # 0}, es \in Multi}
  \cup {A("RM", e, <<>>, 0) : e \in {x \in Elem : WithRej \/ st.boxOf[x] # 0}}
  \cup {A("SO", 0, SortedLive(st), 0)}
  \cup {A("ST", 0, <<>>, c) : c \in {x \in Cur : st.cur[x].ph \in {"new", "parked"}}}

Entry(a, r) == <<a.op, a.a, a.es, a.c, r.out, r.y, LiveSeq(r.s)>>

\* run a sequence of cursor steps, extending the history
RECURSIVE PreRun(_, _, _)
PreRun(st, h, cs) ==
  IF cs = <<>> THEN [s |-> st, h |-> h]
  ELSE LET a == A("ST", 0, <<>>, Head(cs))
           r == Apply(st, a)
       IN PreRun(r.s, Append(h, Entry(a, r)), Tail(cs))

Init ==
  \E i \in InitIds, d \in DirIds :
     LET ic == InitCase(i)
         s0 == ExtendAll(EmptyState(DirsOf(d)), ic.l)
         h0 == << <<"IN", 0, ic.l, 0, "ok", 0, ic.l, SubSeq(DirsOf(d), 1, NCur)>> >>
         pr == PreRun(s0, h0, SelectSeq(ic.pre, LAMBDA c : c <= NCur))
     IN /\ s = pr.s
        /\ hist = pr.h
        /\ last = [a |-> A("IN", 0, <<>>, 0), out |-> "ok", y |-> 0]

Next ==
  /\ TLCGet("level") <= MaxDepth        \* depth bound: level of the current state (initial state = 1)
  /\ \E a \in Acts(s) :
     /\ s.nb + Need(s, a) <= MaxBox
     /\ \E r \in {Apply(s, a)} :      \* evaluated once (an action-level LET is re-evaluated per use)
        /\ s' = r.s
        /\ hist' = IF EmitOn THEN Append(hist, Entry(a, r)) ELSE hist
        /\ last' = [a |-> a, out |-> r.out, y |-> r.y]

Spec == Init /\ [][Next]_vars

ViewAll  == s
ViewMech == <<s.val, s.nxt, s.prv, s.nb, s.boxOf, s.len, s.cur>>

Emit == EmitOn => PrintT(ToJson([h |-> hist']))

\* ---- properties -------------------------------------------------------------------------------
InvSeq       == SeqOK(s)
InvIndex     == IndexOK(s)
InvMono      == MonoOK(s)
InvNoLoop    == NoLoopOK(s)
InvTerm      == TermOK(s)
InvMember    == MemberOK(s)
InvUntouched == UntouchedOK(s)
InvPassed    == PassedOK(s)
InvResume    == ResumeOK(s)

\* Member at the moment of the yield: the yielded element is in the list and sits in the box the
\* cursor is parked on
MemberStep == [][(last'.a.op = "ST" /\ last'.out = "yield") =>
                    /\ s'.boxOf[last'.y] = s'.cur[last'.a.c].box
                    /\ LsIn(LiveSeq(s'), last'.y)]_vars

\* Mono as an action property: a step moves the cursor strictly forward in its positional order
MonoStep == [][(last'.a.op = "ST" /\ last'.out = "yield" /\ s.cur[last'.a.c].ph = "parked") =>
                  LET c == last'.a.c IN
                  IF s.cur[c].dir = "f" THEN LsPos(s'.ordF, s'.cur[c].box) > LsPos(s'.ordF, s.cur[c].box)
                                        ELSE LsPos(s'.ordB, s'.cur[c].box) < LsPos(s'.ordB, s.cur[c].box)]_vars

\* rejected calls change nothing; edits never move a cursor
EditFrame == [][(last'.a.op # "ST") => (s'.cur = s.cur /\ (last'.out = "rej" => s' = s))]_vars
=============================================================================
