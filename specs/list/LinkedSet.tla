------------------------------ MODULE LinkedSet ------------------------------
(***************************************************************************)
(* onnx_ir._linked_list.DoublyLinkedSet AS IMPLEMENTED, with its           *)
(* generator-based iterators as explicit cursors (property C11).           *)
(*                                                                         *)
(* Mechanism (what the code stores):                                       *)
(*   boxes 0..MaxBox, box 0 is the root (value None, never erased/linked   *)
(*   out); val[b] is the element held by box b or None (= erased, or not   *)
(*   yet allocated); nxt[b], prv[b] are the box's own links.  erase()      *)
(*   relinks the two neighbours and clears val[b] but KEEPS nxt[b]/prv[b]  *)
(*   ("frozen links"); boxOf[e] is the id->box map (0 = absent); len is    *)
(*   the stored length; nb the number of boxes allocated so far (a fresh   *)
(*   box is nb+1; boxes are never reused).                                 *)
(*   _insert_one_after(b, e): val[b] = e -> no-op returning b; else if e   *)
(*   is present it is removed first (its box is erased), THEN b.next is    *)
(*   read and a fresh box is linked between b and that box.                *)
(*   append(e) = _insert_one_after(root.prev, e); extend = repeated        *)
(*   append; insert_after(a, es) chains from boxOf[a], insert_before(a,es) *)
(*   chains from boxOf[a].prev; each inserted box is the insertion point   *)
(*   of the next element.                                                  *)
(* Cursors (one per live generator object): phase new (created, body not   *)
(*   started), parked (suspended at the yield, ON the yielded box), done.   *)
(*   A step reads nxt (prv for reversed()) of the parked box AT RESUME     *)
(*   TIME, walks over erased boxes and yields the first live one or        *)
(*   finishes at the root.                                                 *)
(* Ghost state (history only, never read by the mechanism):                *)
(*   ordF / ordB : every box ever allocated in positional order. A new box *)
(*     is put immediately after its insertion point in ordF and            *)
(*     immediately before the box that followed the insertion point in     *)
(*     ordB.  Both agree on live boxes; they differ only in where a new    *)
(*     box lands relative to ERASED boxes of the same gap - a cursor       *)
(*     parked on an erased box has passed that gap, in its own direction.  *)
(*   abs : the sequence the list denotes, maintained with plain sequence   *)
(*     operations (delete, insert after an element).                       *)
(*   gh[c] : per cursor - the list when it started, the elements touched   *)
(*     since, the boxes/elements it yielded, the boxes that were inserted  *)
(*     behind its position, and (gapNb) the number of boxes that existed   *)
(*     when the box it is parked on was erased (0 while that box is live). *)
(* The whole state is ONE record so that the model checker, the replay     *)
(* emission and the trace validator share the pure operator Apply(s, a).   *)
(***************************************************************************)
EXTENDS Integers, Sequences, FiniteSets, TLC

CONSTANTS NElem,   \* elements are 1..NElem
          MaxBox,  \* boxes are 0..MaxBox (0 = root)
          NCur     \* cursors are 1..NCur

Elem == 1..NElem
Box  == 0..MaxBox
Cur  == 1..NCur
None == 0

\* ---- sequence helpers (prefixed: the community modules own the obvious names) ----------
RECURSIVE LsPosFrom(_, _, _)
LsPosFrom(q, x, i) == IF i > Len(q) THEN 0 ELSE IF q[i] = x THEN i ELSE LsPosFrom(q, x, i + 1)
LsPos(q, x)      == LsPosFrom(q, x, 1)                     \* index of x in q, 0 if absent
LsIn(q, x)       == \E i \in DOMAIN q : q[i] = x
LsInsAt(q, i, x) == SubSeq(q, 1, i) \o <<x>> \o SubSeq(q, i + 1, Len(q))   \* x becomes element i+1
LsDel(q, x)      == SelectSeq(q, LAMBDA y : y # x)
LsRev(q)         == [i \in 1..Len(q) |-> q[Len(q) + 1 - i]] \o <<>>    \* (\o forces a tuple, see CurTuple)
LsSet(q)         == {q[i] : i \in DOMAIN q}

\* ---- state ------------------------------------------------------------------------------
GhostInit == [started |-> FALSE, start |-> <<>>, nb0 |-> 0, nb1 |-> 0, touched |-> {},
              ybox |-> <<>>, yielded |-> <<>>, insBefore |-> {}, gapNb |-> 0]

\* Functions over the cursors are built as tuples and rebuilt as tuples: TLC keeps
\* [c \in Cur |-> ...] as an unevaluated lambda and cannot write such a value to its disk queue when the
\* variable part is outside the VIEW.
ASSUME NCur \in 1..3
CurTuple(F(_)) == IF NCur = 1 THEN <<F(1)>> ELSE IF NCur = 2 THEN <<F(1), F(2)>> ELSE <<F(1), F(2), F(3)>>

EmptyState(dirs) ==
  [val |-> [b \in Box |-> None], nxt |-> [b \in Box |-> b], prv |-> [b \in Box |-> b],
   nb |-> 0, boxOf |-> [e \in Elem |-> 0], len |-> 0,
   cur |-> CurTuple(LAMBDA c : [ph |-> "new", box |-> 0, dir |-> dirs[c]]),
   ordF |-> <<>>, ordB |-> <<>>, abs |-> <<>>, bad |-> FALSE,
   gh |-> CurTuple(LAMBDA c : GhostInit)]

Link(s, b, d) == IF d = "f" THEN s.nxt[b] ELSE s.prv[b]

\* `while box is not root: if not box.erased: yield ...; box = box.next` - the first box, from b
\* on, that is the root or live.  fuel guards the model against a cyclic frozen chain (-1).
RECURSIVE Skip(_, _, _, _)
Skip(s, b, d, fuel) ==
  IF b = 0 \/ s.val[b] # None THEN b
  ELSE IF fuel = 0 THEN -1
  ELSE Skip(s, Link(s, b, d), d, fuel - 1)

\* the boxes a fresh walk from box b yields, in direction d
RECURSIVE Chain(_, _, _, _)
Chain(s, b, d, fuel) ==
  LET t == Skip(s, Link(s, b, d), d, MaxBox + 1) IN
  IF t = 0 THEN <<>>
  ELSE IF t < 0 \/ fuel = 0 THEN <<-1>>
  ELSE <<t>> \o Chain(s, t, d, fuel - 1)

LiveF(s) == Chain(s, 0, "f", MaxBox + 1)
LiveB(s) == Chain(s, 0, "b", MaxBox + 1)
ValsOf(s, q) == [i \in DOMAIN q |-> IF q[i] < 0 THEN -1 ELSE s.val[q[i]]] \o <<>>
LiveSeq(s)  == ValsOf(s, LiveF(s))        \* list(x)
LiveSeqB(s) == ValsOf(s, LiveB(s))        \* list(reversed(x))

\* x[i]: -2 = IndexError, -3 = the walk ended early (StopIteration escapes __getitem__)
GetItem(s, i) ==
  IF i >= s.len \/ i < -s.len THEN -2
  ELSE IF i < 0 THEN (LET q == LiveSeqB(s) IN IF -i > Len(q) THEN -3 ELSE q[-i])
  ELSE (LET q == LiveSeq(s) IN IF i + 1 > Len(q) THEN -3 ELSE q[i + 1])

\* ---- mechanism ----------------------------------------------------------------------------
Active(s, c) == s.cur[c].ph = "parked"

Touch(s, e) ==
  [s EXCEPT !.gh = CurTuple(LAMBDA c : IF Active(s, c)
                                                    THEN [s.gh[c] EXCEPT !.touched = @ \cup {e}]
                                                    ELSE s.gh[c])]

\* _LinkBox.erase(): relink the neighbours, detach the value, keep the box's own links
EraseBox(s, b) ==
  LET p == s.prv[b]
      n == s.nxt[b]
  IN [s EXCEPT !.nxt[p] = n, !.prv[n] = p, !.val[b] = None]

\* DoublyLinkedSet.remove(e) for a present element
RemoveCore(s, e) ==
  LET b  == s.boxOf[e]
      s1 == EraseBox(s, b)
      s2 == [s1 EXCEPT !.len = @ - 1, !.boxOf[e] = 0, !.abs = LsDel(@, e),
                       !.gh = CurTuple(LAMBDA c : IF Active(s, c) /\ s.cur[c].box = b
                                                          THEN [s.gh[c] EXCEPT !.gapNb = s.nb] ELSE s.gh[c])]
  IN Touch(s2, e)

\* is box x behind the position of the parked cursor c (in c's own direction)?
Behind(s, c, x) ==
  LET p == s.cur[c].box IN
  IF s.cur[c].dir = "f" THEN LsPos(s.ordF, x) < LsPos(s.ordF, p)
                        ELSE LsPos(s.ordB, x) > LsPos(s.ordB, p)

\* _insert_one_after(b, e) -> [s: new state, box: the returned box]
InsOne(s, b, e) ==
  IF s.val[b] = e THEN [s |-> s, box |-> b]
  ELSE
    LET s1 == IF s.boxOf[e] # 0 THEN RemoveCore(s, e) ELSE s
        x  == s1.nb + 1
        on == s1.nxt[b]                      \* read AFTER the removal
        q  == LsDel(s.abs, e)
        s2 == [s1 EXCEPT !.nb = x, !.val[x] = e,
                         !.nxt = [@ EXCEPT ![b] = x, ![x] = on],
                         !.prv = [@ EXCEPT ![x] = b, ![on] = x],
                         !.len = @ + 1, !.boxOf[e] = x,
                         !.ordF = LsInsAt(@, LsPos(@, b), x),
                         !.ordB = IF on = 0 THEN Append(@, x) ELSE LsInsAt(@, LsPos(@, on) - 1, x),
                         !.abs = LsInsAt(q, IF b = 0 THEN 0 ELSE LsPos(q, s1.val[b]), e),
                         !.bad = @ \/ (b # 0 /\ s1.val[b] = None)]   \* insertion point must be live or root
        s3 == [s2 EXCEPT !.gh = CurTuple(LAMBDA c :
                  IF Active(s2, c)
                  THEN [s2.gh[c] EXCEPT !.touched = @ \cup {e},
                                        !.insBefore = IF Behind(s2, c, x) THEN @ \cup {x} ELSE @]
                  ELSE s2.gh[c])]
    IN [s |-> s3, box |-> x]

RECURSIVE InsMany(_, _, _)
InsMany(s, b, es) ==
  IF es = <<>> THEN s
  ELSE LET r == InsOne(s, b, Head(es)) IN InsMany(r.s, r.box, Tail(es))

AppendOne(s, e) == InsOne(s, s.prv[0], e).s

RECURSIVE ExtendAll(_, _)
ExtendAll(s, es) == IF es = <<>> THEN s ELSE ExtendAll(AppendOne(s, Head(es)), Tail(es))

\* ---- cursors --------------------------------------------------------------------------------
StepTarget(s, c) ==
  LET k == s.cur[c]
      from == IF k.ph = "new" THEN 0 ELSE k.box
  IN Skip(s, Link(s, from, k.dir), k.dir, MaxBox + 1)

StepCur(s, c) ==
  LET k  == s.cur[c]
      t  == StepTarget(s, c)
      g0 == IF k.ph = "new"
            THEN [GhostInit EXCEPT !.started = TRUE, !.start = LiveSeq(s), !.nb0 = s.nb]
            ELSE s.gh[c]
  IN IF k.ph \in {"done", "loop"} THEN [s |-> s, out |-> "stop", y |-> 0]
     ELSE IF t = 0
     THEN [s |-> [s EXCEPT !.cur[c].ph = "done", !.gh[c] = [g0 EXCEPT !.nb1 = s.nb]], out |-> "stop", y |-> 0]
     ELSE IF t < 0
     THEN [s |-> [s EXCEPT !.cur[c].ph = "loop"], out |-> "loop", y |-> 0]
     ELSE [s |-> [s EXCEPT !.cur[c] = [k EXCEPT !.ph = "parked", !.box = t],
                           !.gh[c] = [g0 EXCEPT !.ybox = Append(@, t), !.yielded = Append(@, s.val[t]), !.gapNb = 0]],
           out |-> "yield", y |-> s.val[t]]

\* ---- the public alphabet --------------------------------------------------------------------
\* action record: [op, a, es, c];  result: [s, out, y]
\*   AP append(a) | EX extend(es) | IA insert_after(a, es) | IB insert_before(a, es) | RM remove(a)
\*   SO Graph.sort(): every node re-appended in the sorted order es | ST next(cursor c)
IsPerm(es, q) == Len(es) = Len(q) /\ LsSet(es) = LsSet(q) /\ Cardinality(LsSet(es)) = Len(es)

Ok(s)  == [s |-> s, out |-> "ok", y |-> 0]
Rej(s) == [s |-> s, out |-> "rej", y |-> 0]

Apply(s, a) ==
  CASE a.op = "AP" -> Ok(AppendOne(s, a.a))
    [] a.op = "EX" -> Ok(ExtendAll(s, a.es))
    [] a.op = "IA" -> IF s.boxOf[a.a] = 0 THEN Rej(s) ELSE Ok(InsMany(s, s.boxOf[a.a], a.es))
    [] a.op = "IB" -> IF s.boxOf[a.a] = 0 THEN Rej(s) ELSE Ok(InsMany(s, s.prv[s.boxOf[a.a]], a.es))
    [] a.op = "RM" -> IF s.boxOf[a.a] = 0 THEN Rej(s) ELSE Ok(RemoveCore(s, a.a))
    [] a.op = "SO" -> IF IsPerm(a.es, LiveSeq(s)) THEN Ok(ExtendAll(s, a.es)) ELSE [s |-> s, out |-> "bad", y |-> 0]
    [] a.op = "ST" -> StepCur(s, a.c)

\* fresh boxes the action may need (an upper bound)
Need(s, a) == CASE a.op = "AP" -> 1
                [] a.op \in {"EX", "IA", "IB", "SO"} -> Len(a.es)
                [] OTHER -> 0

\* ---- properties (state predicates over the record) -----------------------------------------------
IsLive(s, b) == b # 0 /\ s.val[b] # None

\* Seq: length, map, both link directions, positional orders, denoted sequence and indexing agree
SeqOK(s) ==
  LET lf == LiveF(s)
      lb == LiveB(s)
  IN /\ \A i \in DOMAIN lf : lf[i] > 0
     /\ lb = LsRev(lf)
     /\ s.len = Len(lf)
     /\ \A i, j \in DOMAIN lf : i # j => s.val[lf[i]] # s.val[lf[j]]
     /\ \A e \in Elem : IF s.boxOf[e] = 0 THEN \A i \in DOMAIN lf : s.val[lf[i]] # e
                        ELSE s.val[s.boxOf[e]] = e /\ LsIn(lf, s.boxOf[e])
     /\ \A b \in 1..s.nb : s.val[b] # None => LsIn(lf, b)
     /\ lf = SelectSeq(s.ordF, LAMBDA b : s.val[b] # None)
     /\ lf = SelectSeq(s.ordB, LAMBDA b : s.val[b] # None)
     /\ LsSet(s.ordF) = 1..s.nb /\ LsSet(s.ordB) = 1..s.nb /\ Len(s.ordF) = s.nb /\ Len(s.ordB) = s.nb
     /\ ValsOf(s, lf) = s.abs
     /\ ~s.bad

IndexOK(s) ==
  /\ \A i \in 0..(s.len - 1) : GetItem(s, i) = s.abs[i + 1] /\ GetItem(s, -(i + 1)) = s.abs[Len(s.abs) - i]
  /\ GetItem(s, s.len) = -2 /\ GetItem(s, -s.len - 1) = -2

\* Mono: the boxes a cursor yields strictly advance in the positional order of its direction.  Only the
\* last two yields are compared: every earlier pair was compared in the state where it was the last
\* (all states are checked), and boxes never change their relative order (SeqOK: the orders only grow).
MonoOK(s) ==
  \A c \in Cur :
    LET yb == s.gh[c].ybox
        n  == Len(yb)
    IN /\ n >= 2 => IF s.cur[c].dir = "f" THEN LsPos(s.ordF, yb[n - 1]) < LsPos(s.ordF, yb[n])
                                          ELSE LsPos(s.ordB, yb[n - 1]) > LsPos(s.ordB, yb[n])
       /\ (s.cur[c].ph = "parked" => n >= 1 /\ yb[n] = s.cur[c].box)

NoLoopOK(s) == \A c \in Cur : s.cur[c].ph # "loop"

\* termination bound: a cursor yields at most once per box ever allocated
TermOK(s) == \A c \in Cur : Len(s.gh[c].ybox) <= s.nb

\* Member (state form): a cursor parked on a live box is parked on THE box of that element
MemberOK(s) ==
  \A c \in Cur : (s.cur[c].ph = "parked" /\ s.val[s.cur[c].box] # None)
                    => s.boxOf[s.val[s.cur[c].box]] = s.cur[c].box

\* Untouched: once done, the elements present at the start and never touched were yielded exactly
\* once and in list order (reverse list order for reversed())
UntouchedOK(s) ==
  \A c \in Cur : s.cur[c].ph = "done" =>
    LET g  == s.gh[c]
        U  == LsSet(g.start) \ g.touched
        st == IF s.cur[c].dir = "f" THEN g.start ELSE LsRev(g.start)
    IN SelectSeq(g.yielded, LAMBDA e : e \in U) = SelectSeq(st, LAMBDA e : e \in U)

\* Passed (the all-time form of Untouched + After + Before): for a running cursor a live box is
\* yielded iff the cursor has passed it, except boxes that were inserted behind the cursor
PassedOK(s) ==
  \A c \in Cur :
    LET g == s.gh[c]
        k == s.cur[c]
        yb == LsSet(g.ybox)
    IN /\ g.insBefore \cap yb = {}                                         \* Before
       /\ k.ph = "parked" =>
            \A b \in 1..s.nb : (s.val[b] # None /\ b \notin g.insBefore) =>
                 ((b = k.box \/ Behind(s, c, b)) <=> b \in yb)              \* Untouched / After
       /\ k.ph = "done" =>
            \A b \in 1..g.nb1 : (s.val[b] # None /\ b \notin g.insBefore) => b \in yb

\* Resume: whatever happened to the parked box, the next yield is the first live box beyond its
\* place in the positional order of the cursor's direction (stop if there is none)
NextInOrd(s, c) ==
  LET k == s.cur[c] IN
  IF k.dir = "f"
  THEN LET q == s.ordF
           i == IF k.ph = "new" THEN 0 ELSE LsPos(q, k.box)
           r == SelectSeq(SubSeq(q, i + 1, Len(q)), LAMBDA b : s.val[b] # None)
       IN IF r = <<>> THEN 0 ELSE r[1]
  ELSE LET q == s.ordB
           i == IF k.ph = "new" THEN Len(q) + 1 ELSE LsPos(q, k.box)
           r == SelectSeq(SubSeq(q, 1, i - 1), LAMBDA b : s.val[b] # None)
       IN IF r = <<>> THEN 0 ELSE r[Len(r)]

ResumeOK(s) == \A c \in Cur : s.cur[c].ph \in {"new", "parked"} => StepTarget(s, c) = NextInOrd(s, c)

AllOK(s) == SeqOK(s) /\ IndexOK(s) /\ MonoOK(s) /\ NoLoopOK(s) /\ TermOK(s) /\ MemberOK(s)
            /\ UntouchedOK(s) /\ PassedOK(s) /\ ResumeOK(s)

Broken(s) == (IF SeqOK(s) THEN <<>> ELSE <<"Seq">>) \o (IF IndexOK(s) THEN <<>> ELSE <<"Index">>)
          \o (IF MonoOK(s) THEN <<>> ELSE <<"Mono">>) \o (IF NoLoopOK(s) THEN <<>> ELSE <<"NoLoop">>)
          \o (IF TermOK(s) THEN <<>> ELSE <<"Term">>) \o (IF MemberOK(s) THEN <<>> ELSE <<"Member">>)
          \o (IF UntouchedOK(s) THEN <<>> ELSE <<"Untouched">>) \o (IF PassedOK(s) THEN <<>> ELSE <<"Passed">>)
          \o (IF ResumeOK(s) THEN <<>> ELSE <<"Resume">>)

\* ---- which clause of C11 does an observed step outcome break? ------------------------------------
\* Used by the trace specifications when the real code, from a state that agrees with s in every
\* observable, answers next(cursor c) with (out, y) while the list reads lst, and that is not what
\* StepCur(s, c) says.  "div" = no clause: the difference concerns something C11 leaves open.

\* box b was put, after the parked box of c was erased, into the very gap that box left: C11 does not
\* say on which side of a removed current node such an insertion lies
GapAmbiguous(s, c, b) ==
  LET k == s.cur[c]
      p == k.box
      i == LsPos(s.ordF, p)
      j == LsPos(s.ordF, b)
      lo == IF i < j THEN i ELSE j
      hi == IF i < j THEN j ELSE i
  IN /\ k.ph = "parked" /\ s.val[p] = None
     /\ b > s.gh[c].gapNb
     /\ \A x \in (lo + 1)..(hi - 1) : s.val[s.ordF[x]] = None

StepClause(s, c, out, y, lst) ==
  LET k   == s.cur[c]
      exp == StepTarget(s, c)                      \* box the specification yields next (0 = stop)
      by  == IF y \in Elem THEN s.boxOf[y] ELSE 0
      passed(b) == k.ph = "done" \/ (k.ph = "parked" /\ (b = k.box \/ Behind(s, c, b)))
      skipped == IF exp <= 0 THEN "div"
                 ELSE IF GapAmbiguous(s, c, exp) THEN "div"
                 ELSE IF k.ph = "new" \/ exp <= s.gh[c].nb0 THEN "untouched-skipped"
                 ELSE "after-skipped"
  IN IF out \notin {"yield", "stop"} THEN "error"
     ELSE IF out = "yield" /\ (~LsIn(lst, y) \/ by = 0) THEN "member"
     ELSE IF out = "stop" THEN skipped
     ELSE IF by = exp THEN "seq"                  \* the expected element, but the list changed under the step
     ELSE IF passed(by)
          THEN (IF GapAmbiguous(s, c, by) THEN "div"
                ELSE IF LsIn(s.gh[c].ybox, by) THEN "twice"
                ELSE IF by \in s.gh[c].insBefore THEN "before"
                ELSE "order")
     ELSE skipped

\* len / indexing / membership / bounds reported by the code (n, it, ni, m, oob) against the sequence q
\* it iterates
ObsBroken(q, n, it, ni, m, oob) ==
     (IF n = Len(q) THEN <<>> ELSE <<"len">>)
  \o (IF it = q THEN <<>> ELSE <<"index">>)
  \o (IF ni = LsRev(q) THEN <<>> ELSE <<"negindex">>)
  \o (IF oob = 1 THEN <<>> ELSE <<"oob">>)
  \o (IF \A x \in DOMAIN m : (m[x] = 1) <=> LsIn(q, x) THEN <<>> ELSE <<"member">>)
  \o (IF \A i, j \in DOMAIN q : i # j => q[i] # q[j] THEN <<>> ELSE <<"dup">>)
=============================================================================
