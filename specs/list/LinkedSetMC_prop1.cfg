\* all properties, ghosts in the fingerprint: 3 elements, 1 cursor (both directions)
CONSTANTS
  NElem = 3
  MaxBox = 8
  NCur = 1
  InitIds = {0, 3}
  DirIds = {0, 1}
  MaxDepth = 3
  PairMode = 1
  WithRej = TRUE
  EmitOn = FALSE
INIT Init
NEXT Next
VIEW ViewAll
CONSTRAINT Bound
INVARIANT InvSeq
INVARIANT InvIndex
INVARIANT InvMono
INVARIANT InvNoLoop
INVARIANT InvTerm
INVARIANT InvMember
INVARIANT InvUntouched
INVARIANT InvPassed
INVARIANT InvResume
PROPERTY MemberStep
PROPERTY MonoStep
PROPERTY EditFrame
