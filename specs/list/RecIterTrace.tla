----------------------------- MODULE RecIterTrace -----------------------------
(***************************************************************************)
(* Trace validation / disagreement classifier for RecIter: executions of   *)
(* the real RecursiveGraphIterator over a 2-level nesting while both node  *)
(* lists are edited.  TRACE_FILE: { "traces": [ {"lo": [...], "li": [...], *)
(* "d": "f"|"b", "ev": [event...]} ] }, event =                            *)
(*   <<op, g, a, es, out, lvl, y, outer list, inner list, oobs, iobs, es2>>*)
(* with oobs/iobs = <<len, items, negitems, member, oob>> of the two graphs *)
(* (es2: the inner order produced by sort()).                              *)
(* Output: ["acc", tid] | ["nc", tid, l, clause] | ["inv", tid, l, names]  *)
(*         | ["obs", tid, l, names]    (as in LinkedSetTrace)              *)
(***************************************************************************)
EXTENDS RecIter, Json, IOUtils

Data   == JsonDeserialize(IOEnv.TRACE_FILE)
Traces == Data.traces

VARIABLES tid, l, st, conf
vars == <<tid, l, st, conf>>

T == Traces[tid]
ActOf(e) == [op |-> e[1], g |-> e[2], a |-> e[3], es |-> e[4], c |-> 1, es2 |-> e[12]]

Init == /\ tid \in 1..Len(Traces)
        /\ l = 1
        /\ st = RecInit(T.lo, T.li, T.d)
        /\ conf = TRUE

Conforms(e, r) == r.out = e[5] /\ r.lvl = e[6] /\ r.y = e[7] /\ LiveSeq(r.s.o) = e[8] /\ LiveSeq(r.s.i) = e[9]

Skip0(s) == [s |-> s, out |-> "none", lvl |-> 0, y |-> 0]

Next ==
  /\ l <= Len(T.ev)
  /\ \E e \in {T.ev[l]} : \E r \in {IF conf THEN RecApply(st, ActOf(e)) ELSE Skip0(st)} :
        IF conf /\ Conforms(e, r)
        THEN st' = r.s /\ conf' = TRUE
        ELSE st' = st /\ conf' = FALSE
  /\ l' = l + 1
  /\ UNCHANGED tid

Spec == Init /\ [][Next]_vars

\* the clause broken by a non-conforming step of the recursive iterator: decided at the level whose
\* cursor the specification resumes (see RecStep)
FirstSkipped(s) == IF StepTarget(s, 1) > 0 THEN StepClause(s, 1, "stop", 0, LiveSeq(s)) ELSE "none"

RecClause(e) ==
  LET out == e[5]
      lvl == e[6]
      y   == e[7]
      S   == st
      inner == IF S.rec.ph = "inner" THEN S.i ELSE FreshInner(S)
      useInner == S.rec.ph = "inner" \/ (S.rec.ph = "outer" /\ S.rec.node = Host)
  IN IF out \notin {"yield", "stop"} THEN "error"
     ELSE IF out = "yield" /\ ~LsIn(IF lvl = 0 THEN e[8] ELSE e[9], y) THEN "member"
     ELSE IF ~S.rec.edited THEN "untouched-skipped"           \* no edit since the start: not the pre-order
     ELSE IF useInner
          THEN (IF out = "yield" /\ lvl = 1 THEN StepClause(inner, 1, out, y, e[9])
                ELSE IF FirstSkipped(inner) # "none" THEN FirstSkipped(inner)     \* left the subgraph too early
                ELSE StepClause(S.o, 1, out, y, e[8]))
          ELSE (IF out = "yield" /\ lvl = 1 THEN "order"      \* a subgraph node while no subgraph is open
                ELSE StepClause(S.o, 1, out, y, e[8]))

Clause(e, r) ==
  IF e[1] = "ST" THEN RecClause(e)
  ELSE IF r.out # e[5] THEN "div"
  ELSE "seq"

ReportNC == (conf /\ ~conf') =>
              PrintT(ToJson(<<"nc", tid, l, Clause(T.ev[l], RecApply(st, ActOf(T.ev[l])))>>))

ObsB(e) == ObsBroken(e[8], e[10][1], e[10][2], e[10][3], e[10][4], e[10][5])
        \o ObsBroken(e[9], e[11][1], e[11][2], e[11][3], e[11][4], e[11][5])

RBroken(S) == (IF AllOK(S.o) THEN <<>> ELSE Broken(S.o)) \o (IF AllOK(S.i) THEN <<>> ELSE Broken(S.i))
           \o (IF RecTermOK(S) THEN <<>> ELSE <<"RecTerm">>) \o (IF RecPreorderOK(S) THEN <<>> ELSE <<"RecPreorder">>)

Report ==
  /\ (l > 1 /\ ObsB(T.ev[l - 1]) # <<>>) => PrintT(ToJson(<<"obs", tid, l - 1, ObsB(T.ev[l - 1])>>))
  /\ (conf /\ RBroken(st) # <<>>) => PrintT(ToJson(<<"inv", tid, l - 1, RBroken(st)>>))
  /\ (l = Len(T.ev) + 1 /\ conf) => PrintT(ToJson(<<"acc", tid>>))
=============================================================================
