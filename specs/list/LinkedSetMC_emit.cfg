\* behaviours for replay: one JSON line per explored transition; ghosts and history outside the fingerprint
CONSTANTS
  NElem = 3
  MaxBox = 8
  NCur = 1
  InitIds = {0, 1}
  DirIds = {0, 1}
  MaxDepth = 3
  PairMode = 1
  WithRej = TRUE
  EmitOn = TRUE
INIT Init
NEXT Next
VIEW ViewMech
CHECK_DEADLOCK FALSE
ACTION_CONSTRAINT Emit
