CONSTANTS
  NElem = 8
  MaxBox = 260
  NCur = 3
SPECIFICATION Spec
INVARIANT Report
ACTION_CONSTRAINT ReportNC
CHECK_DEADLOCK FALSE
