------------------------------- MODULE RecIter -------------------------------
(***************************************************************************)
(* onnx_ir.traversal.RecursiveGraphIterator over a 2-level nesting, as a   *)
(* STACK OF LinkedSet CURSORS (property C11, "recursively through          *)
(* subgraphs").                                                            *)
(*                                                                         *)
(* Two lists, each a LinkedSet state: o (the outer graph's node list) and  *)
(* i (the node list of the graph held by the GRAPH attribute of the host   *)
(* node = outer element Host).  Elements of the two lists are different    *)
(* nodes (both numbered 1..NElem).  The recursive iterator uses cursor 1   *)
(* of o and cursor 1 of i:                                                 *)
(*   _recursive_node_iter(outer):  for node in outer: yield node;          *)
(*        [on resume] yield from _iterate_subgraphs(node)                  *)
(* so after yielding an outer node the outer list generator stays parked   *)
(* on that node's box while the local variable `node` keeps the node       *)
(* itself (rec.node - NOT re-read from the box); on resume, if that node   *)
(* is the host, a FRESH cursor on the inner list is created and stepped    *)
(* immediately; when the inner cursor finishes the outer one is resumed.   *)
(* reverse=True uses reversed() at both levels (the host is still yielded  *)
(* before its subgraph).                                                   *)
(* Edits are the LinkedSet alphabet applied to either list; sort() of the  *)
(* outer graph re-appends every node of the outer list and - if the host   *)
(* is in the outer list - of the inner list.                               *)
(***************************************************************************)
EXTENDS LinkedSet

CONSTANT Host     \* the outer element that carries the subgraph

RecInit(lo, li, d) ==
  [o |-> ExtendAll(EmptyState(<<d>>), lo), i |-> ExtendAll(EmptyState(<<d>>), li),
   rec |-> [ph |-> "new", node |-> 0, dir |-> d, ys |-> <<>>, edited |-> FALSE, start |-> <<>>]]

FreshInner(S) == [S.i EXCEPT !.cur[1] = [ph |-> "new", box |-> 0, dir |-> S.rec.dir], !.gh[1] = GhostInit]

Preorder(S) ==
  LET d  == S.rec.dir
      lo == IF d = "f" THEN LiveSeq(S.o) ELSE LiveSeqB(S.o)
      li == IF d = "f" THEN LiveSeq(S.i) ELSE LiveSeqB(S.i)
      f[k \in 0..Len(lo)] ==
         IF k = 0 THEN <<>>
         ELSE f[k - 1] \o << <<0, lo[k]>> >> \o (IF lo[k] = Host THEN [x \in DOMAIN li |-> <<1, li[x]>>] ELSE <<>>)
  IN f[Len(lo)]

\* resume the outer generator
RecStepOuter(S) ==
  LET r == StepCur(S.o, 1) IN
  IF r.out = "yield"
  THEN [s |-> [S EXCEPT !.o = r.s, !.rec.ph = "outer", !.rec.node = r.y, !.rec.ys = Append(@, <<0, r.y>>)],
        out |-> "yield", lvl |-> 0, y |-> r.y]
  ELSE [s |-> [S EXCEPT !.o = r.s, !.rec.ph = "done"], out |-> r.out, lvl |-> 0, y |-> 0]

RecStepInner(S, si) ==
  LET r == StepCur(si, 1) IN
  IF r.out = "yield"
  THEN [s |-> [S EXCEPT !.i = r.s, !.rec.ph = "inner", !.rec.ys = Append(@, <<1, r.y>>)],
        out |-> "yield", lvl |-> 1, y |-> r.y]
  ELSE IF r.out = "stop" THEN RecStepOuter([S EXCEPT !.i = r.s])
  ELSE [s |-> [S EXCEPT !.i = r.s], out |-> r.out, lvl |-> 1, y |-> 0]

RecStep(S0) ==
  LET S == IF S0.rec.ph = "new" THEN [S0 EXCEPT !.rec.start = Preorder(S0), !.rec.edited = FALSE] ELSE S0 IN
  CASE S.rec.ph = "new"   -> RecStepOuter(S)
    [] S.rec.ph = "outer" -> IF S.rec.node = Host THEN RecStepInner(S, FreshInner(S)) ELSE RecStepOuter(S)
    [] S.rec.ph = "inner" -> RecStepInner(S, S.i)
    [] OTHER              -> [s |-> S, out |-> "stop", lvl |-> 0, y |-> 0]

\* action: [op, g, a, es]   g = 0 outer list, 1 inner list
RecApply(S, a) ==
  IF a.op = "ST" THEN RecStep(S)
  ELSE IF a.op = "SO"
  THEN LET o2 == Apply(S.o, a).s
           i2 == IF S.o.boxOf[Host] # 0 THEN ExtendAll(S.i, a.es2) ELSE S.i
       IN [s |-> [S EXCEPT !.o = o2, !.i = i2, !.rec.edited = TRUE], out |-> "ok", lvl |-> 0, y |-> 0]
  ELSE LET r == Apply(IF a.g = 0 THEN S.o ELSE S.i, a) IN
       [s |-> IF a.g = 0 THEN [S EXCEPT !.o = r.s, !.rec.edited = @ \/ r.out = "ok"]
                          ELSE [S EXCEPT !.i = r.s, !.rec.edited = @ \/ r.out = "ok"],
        out |-> r.out, lvl |-> 0, y |-> 0]

\* ---- properties ---------------------------------------------------------------------------------
\* the per-list guarantees hold for the cursors the recursive iterator is made of
RecListsOK(S) == AllOK(S.o) /\ AllOK(S.i)

\* termination bound: every yield consumes a box of the outer list, or a box of the inner list within
\* one visit of the host
RecTermOK(S) == Len(S.rec.ys) <= S.o.nb + S.o.nb * S.i.nb

\* without edits the traversal is the depth-first pre-order
RecPreorderOK(S) ==
  /\ (~S.rec.edited /\ S.rec.ph = "done") => S.rec.ys = S.rec.start
  /\ (~S.rec.edited /\ S.rec.ph \in {"outer", "inner"}) => S.rec.ys = SubSeq(S.rec.start, 1, Len(S.rec.ys))
=============================================================================
