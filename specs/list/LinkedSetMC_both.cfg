\* all properties, ghosts in the fingerprint, AND one JSON line per explored transition for the replay
CONSTANTS
  NElem = 3
  MaxBox = 8
  NCur = 1
  InitIds = {0, 1}
  DirIds = {0, 1}
  MaxDepth = 3
  PairMode = 1
  WithRej = TRUE
  EmitOn = TRUE
INIT Init
NEXT Next
VIEW ViewAll
CHECK_DEADLOCK FALSE
ACTION_CONSTRAINT Emit
INVARIANT InvSeq
INVARIANT InvIndex
INVARIANT InvMono
INVARIANT InvNoLoop
INVARIANT InvTerm
INVARIANT InvMember
INVARIANT InvUntouched
INVARIANT InvPassed
INVARIANT InvResume
PROPERTY MemberStep
PROPERTY MonoStep
PROPERTY EditFrame
