CONSTANTS
  NElem = 2
  MaxBox = 8
  NCur = 1
  Host = 1
  InitIds = {0, 1, 2}
  Dirs = {"f", "b"}
  MaxDepth = 3
  EmitOn = TRUE
INIT Init
NEXT Next
VIEW ViewAll
CHECK_DEADLOCK FALSE
ACTION_CONSTRAINT Emit
INVARIANT InvLists
INVARIANT InvTerm
INVARIANT InvPreorder
PROPERTY RecMemberStep
