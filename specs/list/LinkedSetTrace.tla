---------------------------- MODULE LinkedSetTrace ----------------------------
(***************************************************************************)
(* Trace validation (code -> specification) for LinkedSet, and the         *)
(* classifier of every disagreement between the model and the code.        *)
(*                                                                         *)
(* TRACE_FILE holds { "traces": [ {"init": [...], "dirs": [d1,d2,d3],      *)
(*                                 "ev": [event, ...]}, ... ] }            *)
(* recorded from a real DoublyLinkedSet / ir.Graph / ir.Function holding   *)
(* real generator objects.  One event per public call:                     *)
(*   <<op, a, es, c, out, y, list, len, items, negitems, member, oob>>     *)
(*   out  : "ok" | "rej" (ValueError) | "yield" | "stop" | "err:<Type>"    *)
(*   y    : the yielded element (0 if none, -1 if not an element)          *)
(*   list : list(x) after the call; len = len(x) (-1 if it raised);        *)
(*   items = [x[i] : i in 0..len-1]; negitems = [x[-1], x[-2], ...];       *)
(*   member[e] = 1 iff e in x; oob = 1 iff x[len] and x[-len-1] raise      *)
(*   IndexError.                                                           *)
(*                                                                         *)
(* The specification is stepped along the logged calls.  While the trace   *)
(* conforms (same outcome, same yielded element, same list) the model      *)
(* state IS the observed state extended with the ghosts, and ALL module    *)
(* invariants are evaluated on it by TLC.  Output (JSON tuples):           *)
(*   ["acc", tid]             the whole trace conforms                     *)
(*   ["nc", tid, l, clause]   first non-conforming event and the clause of *)
(*                            C11 it breaks ("div" = none: the model and   *)
(*                            the code differ on something C11 leaves open)*)
(*   ["inv", tid, l, names]   invariants broken on the state after event l *)
(*   ["obs", tid, l, names]   len / indexing / membership do not describe  *)
(*                            the observed sequence after event l          *)
(***************************************************************************)
EXTENDS LinkedSet, Json, IOUtils

Data   == JsonDeserialize(IOEnv.TRACE_FILE)
Traces == Data.traces

VARIABLES tid, l, st, conf
vars == <<tid, l, st, conf>>

T == Traces[tid]
ActOf(e) == [op |-> e[1], a |-> e[2], es |-> e[3], c |-> e[4]]

Init == /\ tid \in 1..Len(Traces)
        /\ l = 1
        /\ st = ExtendAll(EmptyState(T.dirs), T.init)
        /\ conf = TRUE

Conforms(e, r) == r.out = e[5] /\ r.y = e[6] /\ LiveSeq(r.s) = e[7]

Next ==
  /\ l <= Len(T.ev)
  /\ \E e \in {T.ev[l]} : \E r \in {IF conf THEN Apply(st, ActOf(e)) ELSE Ok(st)} :   \* (evaluated once)
        IF conf /\ Conforms(e, r)
        THEN st' = r.s /\ conf' = TRUE
        ELSE st' = st /\ conf' = FALSE
  /\ l' = l + 1
  /\ UNCHANGED tid

Spec == Init /\ [][Next]_vars

\* ---- which clause of C11 does a non-conforming event break? ---------------------------------------
\* (st is the model state before the event; it equals the observed state in every observable)

Clause(e, r) ==
  IF e[1] = "ST" THEN StepClause(st, e[4], e[5], e[6], e[7])
  ELSE IF e[5] \notin {"ok", "rej"} /\ r.out = "ok" THEN "edit-error"   \* a legal edit raised something unexpected
  ELSE IF r.out # e[5] THEN "div"
  ELSE "seq"                                  \* same outcome, but the sequence is not the one the edit denotes

ReportNC == (conf /\ ~conf') =>
              PrintT(ToJson(<<"nc", tid, l, Clause(T.ev[l], Apply(st, ActOf(T.ev[l])))>>))

\* ---- evaluated on every state ---------------------------------------------------------------------
ObsB(e) == ObsBroken(e[7], e[8], e[9], e[10], e[11], e[12])

Report ==
  /\ (l > 1 /\ ObsB(T.ev[l - 1]) # <<>>) => PrintT(ToJson(<<"obs", tid, l - 1, ObsB(T.ev[l - 1])>>))
  /\ (conf /\ Broken(st) # <<>>) => PrintT(ToJson(<<"inv", tid, l - 1, Broken(st)>>))
  /\ (l = Len(T.ev) + 1 /\ conf) => PrintT(ToJson(<<"acc", tid>>))
=============================================================================
