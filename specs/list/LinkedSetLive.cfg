CONSTANTS
  NElem = 3
  MaxBox = 6
  NCur = 2
  MaxEdits = 3
  DirId = 2
SPECIFICATION Spec
INVARIANT NoLoop
PROPERTY Terminates
CHECK_DEADLOCK FALSE
