------------------------------ MODULE RecIterMC ------------------------------
(***************************************************************************)
(* Bounded model of RecIter: one recursive iterator (forward or reverse)   *)
(* interleaved with single-element edits of the outer list and of the      *)
(* inner list, and sort(); emits every explored transition for replay into *)
(* real ir.Graph objects traversed by RecursiveGraphIterator.              *)
(* history entry: <<op, g, a, es, out, lvl, y, outer list, inner list>>    *)
(***************************************************************************)
EXTENDS RecIter, Json

CONSTANTS InitIds, Dirs, MaxDepth, EmitOn

VARIABLES S, hist, last
vars == <<S, hist, last>>

RInit(id) == CASE id = 0 -> [lo |-> <<1, 2>>,    li |-> <<1, 2>>, pre |-> 0]
               [] id = 1 -> [lo |-> <<1, 2>>,    li |-> <<1, 2>>, pre |-> 1]    \* parked on the host
               [] id = 2 -> [lo |-> <<1, 2>>,    li |-> <<1, 2>>, pre |-> 2]    \* inside the subgraph
               [] id = 3 -> [lo |-> <<2, 1>>,    li |-> <<1>>,    pre |-> 2]    \* parked on the host, which is last
               [] id = 4 -> [lo |-> <<2, 1>>,    li |-> <<>>,     pre |-> 0]    \* empty subgraph
               [] id = 5 -> [lo |-> <<2, 1, 3>>, li |-> <<1, 3>>, pre |-> 2]    \* (3 elements) parked on the host, in the middle

A(op, g, a, es) == [op |-> op, g |-> g, a |-> a, es |-> es, c |-> 1, es2 |-> <<>>]

SortedOf(st) == LET X == LsSet(LiveSeq(st))
                    f[k \in 0..NElem] == IF k = 0 THEN <<>> ELSE IF k \in X THEN Append(f[k - 1], k) ELSE f[k - 1]
                IN f[NElem]

Acts(T) ==
       {A("AP", g, e, <<>>) : g \in {0, 1}, e \in Elem}
  \cup {A("IA", g, a, <<e>>) : g \in {0, 1}, a \in Elem, e \in Elem}
  \cup {A("IB", g, a, <<e>>) : g \in {0, 1}, a \in Elem, e \in Elem}
  \cup {A("RM", g, e, <<>>) : g \in {0, 1}, e \in Elem}
  \cup {[A("SO", 0, 0, SortedOf(T.o)) EXCEPT !.es2 = SortedOf(T.i)]}
  \cup (IF T.rec.ph # "done" THEN {A("ST", 0, 0, <<>>)} ELSE {})

Entry(a, r) == <<a.op, a.g, a.a, a.es, r.out, r.lvl, r.y, LiveSeq(r.s.o), LiveSeq(r.s.i)>>

RECURSIVE PreRun(_, _, _)
PreRun(T, h, n) ==
  IF n = 0 THEN [s |-> T, h |-> h]
  ELSE LET a == A("ST", 0, 0, <<>>)
           r == RecApply(T, a)
       IN PreRun(r.s, Append(h, Entry(a, r)), n - 1)

Init ==
  \E id \in InitIds, d \in Dirs :
     LET ic == RInit(id)
         T0 == RecInit(ic.lo, ic.li, d)
         pr == PreRun(T0, << <<"IN", 0, 0, ic.lo, "ok", 0, 0, ic.lo, ic.li, d>> >>, ic.pre)
     IN /\ S = pr.s
        /\ hist = pr.h
        /\ last = [a |-> A("IN", 0, 0, <<>>), out |-> "ok", lvl |-> 0, y |-> 0]

NeedR(T, a) == IF a.op = "SO" THEN Len(a.es) + Len(a.es2) ELSE IF a.op \in {"AP", "IA", "IB"} THEN 1 ELSE 0

Next ==
  /\ TLCGet("level") <= MaxDepth
  /\ \E a \in Acts(S) :
     /\ S.o.nb + NeedR(S, a) <= MaxBox /\ S.i.nb + NeedR(S, a) <= MaxBox
     /\ \E r \in {RecApply(S, a)} :
        /\ S' = r.s
        /\ hist' = IF EmitOn THEN Append(hist, Entry(a, r)) ELSE hist
        /\ last' = [a |-> a, out |-> r.out, lvl |-> r.lvl, y |-> r.y]

Spec == Init /\ [][Next]_vars

ViewAll == S
Emit == EmitOn => PrintT(ToJson([h |-> hist']))

InvLists    == RecListsOK(S)
InvTerm     == RecTermOK(S)
InvPreorder == RecPreorderOK(S)

\* a yielded node belongs to its graph at the moment it is yielded
RecMemberStep == [][(last'.a.op = "ST" /\ last'.out = "yield") =>
                      LsIn(LiveSeq(IF last'.lvl = 0 THEN S'.o ELSE S'.i), last'.y)]_vars
=============================================================================
