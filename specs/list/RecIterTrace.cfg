CONSTANTS
  NElem = 4
  MaxBox = 120
  NCur = 1
  Host = 1
SPECIFICATION Spec
INVARIANT Report
ACTION_CONSTRAINT ReportNC
CHECK_DEADLOCK FALSE
